"""Entry point: ./check <Cxx> [--tier quick|thorough] [--replay file]"""
import argparse
import importlib
import os
import sys

HERE = os.path.dirname(os.path.abspath(__file__))
sys.path.insert(0, HERE)
sys.setrecursionlimit(20000)


def main():
    ap = argparse.ArgumentParser()
    ap.add_argument("pid")
    ap.add_argument("--tier", default=os.environ.get("VERIF_TIER", "quick"), choices=["quick", "thorough"])
    ap.add_argument("--replay")
    a = ap.parse_args()
    seed = int(os.environ.get("VERIF_SEED", "0") or 0)
    pid = a.pid.upper()
    try:
        mod = importlib.import_module(f"harness.{pid.lower()}")
    except ModuleNotFoundError as e:
        print(f"no check for {pid}: {e}", file=sys.stderr)
        return 2
    if a.replay:
        if hasattr(mod, "replay"):
            return mod.replay(a.replay)
        from harness.common import replay_file
        return replay_file(a.replay)
    return mod.main(a.tier, seed)


if __name__ == "__main__":
    sys.exit(main())
