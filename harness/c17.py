"""C17 -- derived geometry follows the format's indexing conventions (symx, seam A)."""
from __future__ import annotations

import itertools

import numpy as real_np

from symx import patch
from symx.core import And, Or, Not, Implies, Sum, select, eq, ite
from .common import Scenario, elems, shape, mk_array, run_property


def _cs(X, deg):
    """(cos, sin) of an angle in degrees, by the same library route the code uses (uninterpreted in the model)"""
    r = X.deg2rad(deg)
    return X.cos(r), X.sin(r)


class BlockCentroids(Scenario):
    pid = "C17"

    def body(self, cx):
        from geoh5py.workspace import Workspace
        from geoh5py.objects import BlockModel
        nu, nv, nz = self.params["shape"]
        with_origin = self.params.get("origin", True)
        ws = Workspace()
        kw = {}
        if with_origin:
            kw["origin"] = [0.0, 0.0, 0.0]
        bm = BlockModel.create(ws, u_cell_delimiters=real_np.arange(nu + 1.0), v_cell_delimiters=real_np.arange(nv + 1.0),
                               z_cell_delimiters=real_np.arange(nz + 1.0), **kw)
        patch.detach(ws, bm)
        try:
            first = bm.centroids          # fills the cache with the initial geometry
        except Exception as e:  # noqa: BLE001
            cx.prove(False, f"centroids raised {type(e).__name__} (origin given: {with_origin})", "centroids available")
            return f"raised {type(e).__name__}"
        cx.prove(first is not None and shape(first)[0] == bm.n_cells == nu * nv * nz,
                 "number of centres == number of cells", "count")
        if not with_origin:
            fe = elems(first)
            ok = True
            for i, j, k in itertools.product(range(nu), range(nv), range(nz)):
                idx = k + i * nz + j * nu * nz
                ok = ok and eq(fe[idx * 3], i + 0.5) and eq(fe[idx * 3 + 1], j + 0.5) and eq(fe[idx * 3 + 2], k + 0.5)
            cx.prove(ok, "default origin is (0,0,0)", "default origin")
        with self.engine(cx) as X:
            du = [0.0] + [cx.real(f"du{i}") for i in range(1, nu + 1)]
            dv = [0.0] + [cx.real(f"dv{i}") for i in range(1, nv + 1)]
            dz = [0.0] + [cx.real(f"dz{i}") for i in range(1, nz + 1)]
            o = [cx.real(f"o{a}") for a in "xyz"]
            rot = cx.real("rot")
            bm.u_cell_delimiters = mk_array(X, du, (nu + 1,), "float64")
            bm.v_cell_delimiters = mk_array(X, dv, (nv + 1,), "float64")
            bm.z_cell_delimiters = mk_array(X, dz, (nz + 1,), "float64")
            bm.origin = list(o)
            bm.rotation = rot
            cen = bm.centroids
            ce = elems(cen)
            cx.prove(shape(cen) == (nu * nv * nz, 3) and bm.n_cells == nu * nv * nz,
                     "number of centres == number of cells", "count")
            c, s = _cs(X, rot)
            for i, j, k in itertools.product(range(nu), range(nv), range(nz)):
                idx = k + i * nz + j * nu * nz
                u, v, w = (du[i] + du[i + 1]) / 2, (dv[j] + dv[j + 1]) / 2, (dz[k] + dz[k + 1]) / 2
                exp = (o[0] + c * u - s * v, o[1] + s * u + c * v, o[2] + w)
                cx.prove(And([eq(ce[idx * 3 + a], exp[a]) for a in range(3)]),
                         f"cell ({i},{j},{k}) at index k+i*nZ+j*nU*nZ = origin + Rz(mid-points)", "block-model centre formula")
            cx.observe("~centroids", ce)   # depends on uninterpreted cos/sin
            return "ok"


class GridCentroids(Scenario):
    pid = "C17"
    builtins_for = ("geoh5py.objects.grid2d",)

    def body(self, cx):
        from geoh5py.workspace import Workspace
        from geoh5py.objects import Grid2D
        nu, nv = self.params["shape"]
        ws = Workspace()
        g = Grid2D.create(ws, origin=[0.0, 0.0, 0.0], u_cell_size=1.0, v_cell_size=1.0, u_count=nu, v_count=nv)
        patch.detach(ws, g)
        first = g.centroids
        cx.prove(first is not None and shape(first)[0] == g.n_cells == nu * nv, "number of centres == number of cells",
                 "count")
        with self.engine(cx) as X:
            su, sv = cx.real("su"), cx.real("sv")
            o = [cx.real(f"o{a}") for a in "xyz"]
            rot, dip = cx.real("rot"), cx.real("dip")
            cx.assume(Not(eq(dip, 90)) if cx.mode == "sym" else dip != 90)
            g.u_cell_size = su
            g.v_cell_size = sv
            g.origin = list(o)
            g.rotation = rot
            g.dip = dip
            cen = g.centroids
            ce = elems(cen)
            cx.prove(shape(cen) == (nu * nv, 3), "number of centres == number of cells", "count")
            c, s = _cs(X, rot)
            cd, sd = _cs(X, dip)
            for i, j in itertools.product(range(nu), range(nv)):
                idx = i + j * nu
                u, v = (i + 0.5) * su, (j + 0.5) * sv
                # Rz * Rx(dip) * (u, v, 0)
                x1, y1, z1 = u, cd * v, sd * v
                exp = (o[0] + c * x1 - s * y1, o[1] + s * x1 + c * y1, o[2] + z1)
                cx.prove(And([eq(ce[idx * 3 + a], exp[a]) for a in range(3)]),
                         f"cell ({i},{j}) at index i+j*nU = origin + Rz Rx(dip) (u,v,0)", "grid centre formula")
            cx.observe("~centroids", ce)   # depends on uninterpreted cos/sin
            return "ok"


class OctreeCentroids(Scenario):
    pid = "C17"
    builtins_for = ("geoh5py.objects.octree",)

    def body(self, cx):
        from geoh5py.workspace import Workspace
        from geoh5py.objects import Octree
        nu, nv, nw = self.params["counts"]
        with_origin = self.params.get("origin", True)
        ncell = self.params.get("ncell", 0)       # 0: default (base_refine) cells
        ws = Workspace()
        kw = {"origin": [0.0, 0.0, 0.0]} if with_origin else {}
        oc = Octree.create(ws, u_count=nu, v_count=nv, w_count=nw, u_cell_size=1.0, v_cell_size=1.0, w_cell_size=1.0,
                           **kw)
        patch.detach(ws, oc)
        cells = oc.octree_cells
        recs = [tuple(int(x) for x in r) for r in cells.tolist()]
        # default octree tiles the base grid exactly once
        covered = {}
        inside = True
        for (i, j, k, n) in recs:
            for a, b, c in itertools.product(range(i, i + n), range(j, j + n), range(k, k + n)):
                covered[(a, b, c)] = covered.get((a, b, c), 0) + 1
                inside = inside and a < nu and b < nv and c < nw and min(a, b, c) >= 0
        cx.prove(inside and len(covered) == nu * nv * nw and all(v == 1 for v in covered.values()),
                 "default octree tiles the base grid exactly once", "default tiling")
        cx.prove(oc.n_cells == len(recs), "n_cells == number of octree records", "count")
        try:
            first = oc.centroids
        except Exception as e:  # noqa: BLE001
            cx.prove(False, f"centroids raised {type(e).__name__} (origin given: {with_origin})", "centroids available")
            return f"raised {type(e).__name__}"
        cx.prove(shape(first)[0] == oc.n_cells, "number of centres == number of cells", "count")
        with self.engine(cx) as X:
            su, sv, sw = cx.real("su"), cx.real("sv"), cx.real("sw")
            rot = cx.real("rot")
            o = [0.0, 0.0, 0.0]
            if ncell:
                I = [[cx.int(f"r{q}_{a}", 0, 8) for a in range(3)] + [cx.int(f"r{q}_n", 1, 5)] for q in range(ncell)]
                oc.octree_cells = mk_array(X, [x for r in I for x in r], (ncell, 4), "int32")
            else:
                I = [list(r) for r in recs]
                oc.octree_cells = mk_array(X, [x for r in I for x in r], (len(I), 4), "int32")
            oc.u_cell_size, oc.v_cell_size, oc.w_cell_size = su, sv, sw
            if with_origin:
                o = [cx.real(f"o{a}") for a in "xyz"]
                oc.origin = list(o)
            oc.rotation = rot
            cen = oc.centroids
            ce = elems(cen)
            cx.prove(shape(cen) == (len(I), 3) and oc.n_cells == len(I), "number of centres == number of cells", "count")
            c, s = _cs(X, rot)
            for q, (i, j, k, n) in enumerate(I):
                u, v, w = (i + n / 2) * su, (j + n / 2) * sv, (k + n / 2) * sw
                exp = (o[0] + c * u - s * v, o[1] + s * u + c * v, o[2] + w)
                cx.prove(And([eq(ce[q * 3 + a], exp[a]) for a in range(3)]),
                         f"octree cell {q}: centre = origin + Rz((I+N/2)du, (J+N/2)dv, (K+N/2)dw)", "octree centre formula")
            cx.observe("~centroids", ce)   # depends on uninterpreted cos/sin
            return "ok"


class OctreeRecordsAtCreation(Scenario):
    """an octree created with its (I, J, K, size) records among the creation arguments, in any argument order: the records
    given are the cells, and the centres are theirs"""
    pid = "C17"
    builtins_for = ("geoh5py.objects.octree",)

    def body(self, cx):
        from geoh5py.workspace import Workspace
        from geoh5py.objects import Octree
        recs = [(0, 0, 0, 2), (2, 0, 0, 1), (3, 0, 0, 1), (2, 1, 0, 1), (0, 2, 0, 2)]
        arr = real_np.core.records.fromarrays(real_np.array(recs, dtype="int32").T, names="I, J, K, NCells",
                                               formats="<i4, <i4, <i4, <i4")
        order = int(cx.int("argument_order", 0, 3))
        counts = {"u_count": 4, "v_count": 4, "w_count": 2}
        sizes = {"u_cell_size": 1.0, "v_cell_size": 1.0, "w_cell_size": 1.0}
        if order == 0:
            kw = {"octree_cells": arr, **counts, **sizes}
        elif order == 1:
            kw = {**counts, "octree_cells": arr, **sizes}
        else:
            kw = {**sizes, **counts, "octree_cells": arr}
        ws = Workspace()
        oc = Octree.create(ws, origin=[0.0, 0.0, 0.0], **kw)
        got = [tuple(int(x) for x in r) for r in oc.octree_cells.tolist()]
        cx.prove(got == recs, f"the records given at creation are the cells of the octree (argument order {order}: {len(got)} cells)",
                 "octree records kept")
        cx.prove(oc.n_cells == len(recs) and shape(oc.centroids)[0] == len(recs), "number of centres == number of records", "count")
        uid = oc.uid
        ws.close()
        ws2 = Workspace(ws.h5file)
        o2 = ws2.get_entity(uid)[0]
        back = [tuple(int(x) for x in r) for r in o2.octree_cells.tolist()]
        cx.prove(back == recs, "the stored octree holds the records given at creation", "octree records kept")
        ce = [float(v) for v in real_np.asarray(o2.centroids).ravel()]
        exp = [c for (i, j, k, n) in recs for c in (i + n / 2, j + n / 2, k + n / 2)]
        cx.prove(ce == exp, "the centres are those of the records (unit cells, no rotation)", "octree centre formula")
        return "ok"


class GridVertical(Scenario):
    """switching a grid to vertical after its centres were read: the centres follow (dip becomes 90)"""
    pid = "C17"
    builtins_for = ("geoh5py.objects.grid2d",)

    def body(self, cx):
        from geoh5py.workspace import Workspace
        from geoh5py.objects import Grid2D
        nu, nv = self.params["shape"]
        ws = Workspace()
        g = Grid2D.create(ws, origin=[0.0, 0.0, 0.0], u_cell_size=1.0, v_cell_size=1.0, u_count=nu, v_count=nv, dip=30.0)
        patch.detach(ws, g)
        with self.engine(cx) as X:
            su, sv = cx.real("su"), cx.real("sv")
            o = [cx.real(f"o{a}") for a in "xyz"]
            g.u_cell_size, g.v_cell_size = su, sv
            g.origin = list(o)
            _ = g.centroids                      # warm cache at dip 30
            truthy = [True, 1, real_np.bool_(True), real_np.int8(1)][self.params.get("truthy", 0)]
            g.vertical = truthy                  # the setter accepts any of these as "vertical"
            cx.prove(g.dip == 90, "a vertical grid reports dip 90", "vertical")
            ce = elems(g.centroids)
            cd, sd = _cs(X, 90.0)
            for i, j in itertools.product(range(nu), range(nv)):
                idx = i + j * nu
                u, v = (i + 0.5) * su, (j + 0.5) * sv
                exp = (o[0] + u, o[1] + cd * v, o[2] + sd * v)
                cx.prove(And([eq(ce[idx * 3 + a], exp[a]) for a in range(3)]),
                         f"cell ({i},{j}) of the now vertical grid stands at dip 90", "grid centre formula")
            return "ok"


class PartsAfterRemoval(Scenario):
    """part labels read, a segment removed, part labels read again: they agree with the new connectivity"""
    pid = "C17"

    def body(self, cx):
        from geoh5py.workspace import Workspace
        from geoh5py.objects import Curve
        n = self.params["n"]
        ws = Workspace()
        cv = Curve.create(ws, vertices=real_np.c_[real_np.arange(n), real_np.zeros(n), real_np.zeros(n)].astype(float))
        patch.detach(ws, cv)
        with self.engine(cx) as X:
            before = elems(cv.parts)
            cx.prove(len(set(before)) == 1, "a chain is one part", "derived parts")
            i = cx.int("i", 0, n - 1)
            cv.remove_cells([i])
            cells = elems(cv.cells)
            de = elems(cv.parts)
            m = shape(cv.cells)[0]
            cx.prove(m == n - 2 and shape(cv.parts) == (n,), "one segment less, one label per vertex", "derived parts")
            ii = int(i)
            for q in range(n):
                for t in range(q + 1, n):
                    same_run = (q <= ii and t <= ii) or (q > ii and t > ii)
                    used = (lambda v: any(cells[2 * r] == v or cells[2 * r + 1] == v for r in range(m)))
                    if used(q) and used(t):
                        cx.prove((de[q] == de[t]) == same_run, f"labels of vertices {q},{t} agree with the connectivity after the removal",
                                 "derived parts agree with connectivity")
            return "ok"


class CurveParts(Scenario):
    """parts -> cells -> parts on a curve with n vertices and symbolic part labels"""
    pid = "C17"

    def body(self, cx):
        from geoh5py.workspace import Workspace
        from geoh5py.objects import Curve
        n, nlab = self.params["n"], self.params["labels"]
        ws = Workspace()
        cv = Curve.create(ws, vertices=real_np.c_[real_np.arange(n), real_np.zeros(n), real_np.zeros(n)].astype(float))
        patch.detach(ws, cv)
        with self.engine(cx) as X:
            L = [cx.int(f"p{i}", 0, nlab) for i in range(n)]
            cv.parts = mk_array(X, L, (n,), "int32")
            cells = cv.cells
            m = shape(cells)[0]
            ce = elems(cells)
            pairs = [(ce[2 * r], ce[2 * r + 1]) for r in range(m)]
            same = lambda a, b: eq(select(L, a), select(L, b))       # noqa: E731
            for r, (a, b) in enumerate(pairs):
                between = Or([And(a < q, q < b, eq(L[q], select(L, a))) for q in range(n)])
                cx.prove(And(a >= 0, b < n, a < b, same(a, b), Not(between)),
                         f"segment {r} joins consecutive vertices of the same part", "segments join consecutive same-part vertices")
            # completeness: every vertex that has a later vertex of the same part starts exactly one segment
            for q in range(n):
                later = [And(eq(L[q], L[t]), And([Not(eq(L[q], L[u])) for u in range(q + 1, t)])) for t in range(q + 1, n)]
                for t, cond in zip(range(q + 1, n), later):
                    cx.prove(Implies(cond, Sum([And(eq(a, q), eq(b, t)) for a, b in pairs]) == 1),
                             f"consecutive same-part vertices {q},{t} are joined exactly once", "every consecutive pair joined once")
            cx.prove(eq(m, Sum([Or([eq(L[q], L[t]) for t in range(q + 1, n)]) for q in range(n)])),
                     "number of segments == n - number of parts", "segment count")
            derived = cv.parts
            de = elems(derived)
            cx.prove(shape(derived) == (n,), "one part label per vertex", "derived parts")
            used = [Or([Or(eq(a, q), eq(b, q)) for a, b in pairs]) for q in range(n)]
            for q in range(n):
                for t in range(q + 1, n):
                    cx.prove(Implies(And(used[q], used[t]), eq(eq(L[q], L[t]), eq(de[q], de[t])) if cx.mode != "sym"
                                     else _iff(eq(L[q], L[t]), eq(de[q], de[t]))),
                             f"derived labels of vertices {q},{t} agree with connectivity", "derived parts agree with connectivity")
            cx.observe("cells", ce)
            cx.observe("parts", de)
            return "ok"


def _iff(a, b):
    from symx.core import Iff
    return Iff(a, b)


def scenarios(tier, seed):
    S = []
    if tier == "quick":
        S += [BlockCentroids(shape=(2, 3, 2)), BlockCentroids(shape=(1, 1, 1), origin=False),
              GridCentroids(shape=(3, 2)), GridCentroids(shape=(1, 1)),
              OctreeCentroids(counts=(4, 4, 4), ncell=3), GridVertical(shape=(2, 2)), GridVertical(shape=(2, 1), truthy=1), GridVertical(shape=(1, 2), truthy=2),
              GridVertical(shape=(1, 1), truthy=3), OctreeRecordsAtCreation(), PartsAfterRemoval(n=5),
              CurveParts(n=4, labels=3), CurveParts(n=3, labels=2)]
        for cnt in itertools.product((1, 2, 4), repeat=3):       # every axis gets to be the strictly shortest one
            S.append(OctreeCentroids(counts=cnt, origin=(sum(cnt) % 2 == 0)))
    else:
        for shp in ((2, 3, 2), (3, 3, 3), (1, 4, 2), (4, 1, 1), (4, 3, 2), (2, 2, 5), (5, 2, 2)):
            S.append(BlockCentroids(shape=shp))
        S.append(BlockCentroids(shape=(2, 1, 2), origin=False))
        for shp in ((3, 2), (4, 4), (1, 5), (5, 1), (6, 3), (2, 7)):
            S.append(GridCentroids(shape=shp))
        for cnt in itertools.product((1, 2, 4, 8), repeat=3):
            if max(cnt) / min(cnt) <= 4 or cnt in ((8, 1, 1), (1, 8, 2)):
                S.append(OctreeCentroids(counts=cnt, origin=(sum(cnt) % 2 == 0)))
        S += [OctreeCentroids(counts=(4, 4, 4), ncell=4), OctreeCentroids(counts=(8, 4, 2), ncell=2, origin=False)]
        S += [GridVertical(shape=(3, 2)), PartsAfterRemoval(n=6), PartsAfterRemoval(n=3), OctreeRecordsAtCreation()]
        S += [GridVertical(shape=(2, 2), truthy=t) for t in (1, 2, 3)]
        S += [CurveParts(n=5, labels=3), CurveParts(n=4, labels=4), CurveParts(n=6, labels=2), CurveParts(n=2, labels=2),
              CurveParts(n=6, labels=3), CurveParts(n=7, labels=2)]
    return S


def main(tier, seed):
    return run_property(
        "C17", scenarios(tier, seed), tier, seed,
        assumptions=[
            "A-REAL: floats are mathematical reals; cos/sin of an angle in degrees are uninterpreted functions "
            "(the oracle uses the same symbols), so the identities hold for arbitrary rotation/dip",
            "block-model delimiters: first delimiter is 0 (the format's requirement); the others are arbitrary reals (negative allowed)",
            "seam A: real in-memory Workspace, save_entity no-op on the instance",
            "injected float/int stand-ins in geoh5py.objects.grid2d so that isinstance(value, (float, int)) accepts symbolic reals",
            "the 'tiles exactly once' part for default octrees is evaluated concretely per (power-of-two) dimension triple",
        ],
        outside=["DrapeModel centroids", "vertical grids (dip == 90 switches the vertical flag)", "float rounding",
                 "grids/octrees larger than the bounds", "singleton parts when comparing derived labels (vertices in no segment)"],
        bounds={"quick": "block model 2x3x2, grid 3x2, octree counts (2,2,2),(4,2,1),(2,1,2) + 3 symbolic user cells, curves n<=4 with <=3 labels",
                "thorough": "block models up to 3x3x3, grids up to 4x4, octree counts in {1,2,4,8}^3 (ratio<=4), curves n<=6"}[tier],
        expected_outcomes={"BlockCentroids": {"ok"}, "GridCentroids": {"ok"}, "OctreeCentroids": {"ok"}, "CurveParts": {"ok"}, "GridVertical": {"ok"}, "OctreeRecordsAtCreation": {"ok"},
                           "PartsAfterRemoval": {"ok"}},
    )
