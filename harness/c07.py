"""C07 -- data stay aligned with the geometry they are attached to (symx, seam A)."""
from __future__ import annotations

import numpy as real_np

from symx import patch
from symx.core import And, Or, Not, Implies, Sum, select, eq, ite, is_nan
from symx import h5shim
from .common import Scenario, elems, shape, mk_array, run_property

FLOAT_MODS = ()


def _mk_object(kind, n, m):
    from geoh5py.workspace import Workspace
    from geoh5py.objects import Curve, Surface, Points
    ws = Workspace()
    verts = real_np.zeros((n, 3))
    if kind == "points":
        obj = Points.create(ws, vertices=verts)
    elif kind == "curve":
        obj = Curve.create(ws, vertices=verts, cells=real_np.zeros((m, 2), dtype="int32"))
    else:
        obj = Surface.create(ws, vertices=verts, cells=real_np.zeros((m, 3), dtype="int32"))
    vd = obj.add_data({"vd": {"values": real_np.zeros(n), "association": "VERTEX"}})
    cd = None
    if kind != "points" and m > 0:
        cd = obj.add_data({"cd": {"values": real_np.zeros(m), "association": "CELL"}})
    patch.detach(ws, obj, vd, *([cd] if cd is not None else []))
    return ws, obj, vd, cd


def _add_extras(obj, n, m, with_cells):
    """children of the other data kinds (concrete, pairwise distinct values so that any shift is visible)"""
    ex = []
    ex.append(("VERTEX", obj.add_data({"tv": {"values": real_np.array([f"v\u00e9rt{i}" for i in range(n)]), "type": "text",
                                              "association": "VERTEX"}})))
    ex.append(("VERTEX", obj.add_data({"iv": {"values": (real_np.arange(n) * 7 + 100).astype("int32"), "type": "integer",
                                              "association": "VERTEX"}})))
    if with_cells and m:
        ex.append(("CELL", obj.add_data({"tc": {"values": real_np.array([f"cell{i}" for i in range(m)]), "type": "text",
                                                "association": "CELL"}})))
        ex.append(("CELL", obj.add_data({"bc": {"values": (real_np.arange(m) % 2 == 0), "type": "boolean",
                                                "association": "CELL"}})))
    return [(assoc, d, [x.item() if hasattr(x, "item") else x for x in list(d.values)]) for assoc, d in ex]


def _check_extras(cx, extras, assoc, n_new, cond):
    """cond(j, p): old element j is new element p.  Every child of every kind keeps one entry per element and its value."""
    for a, d, old in extras:
        if a != assoc:
            continue
        new = elems(d.values)
        cx.prove(len(new) == n_new, f"{d.name} ({type(d).__name__}) has one entry per {assoc.lower()}", "other data kinds stay aligned")
        if len(new) != n_new:
            continue
        for j in range(len(old)):
            for p in range(n_new):
                same = new[p] == old[j] or (isinstance(new[p], bytes) and new[p].decode() == old[j])
                if not same:
                    cx.prove(Not(cond(j, p)), f"{d.name}: element {j}->{p} keeps its value", "other data kinds stay aligned")


def _sym_geometry(cx, X, obj, vd, cd, kind, n, m):
    w = {"points": 0, "curve": 2, "surface": 3}[kind]
    V = [[cx.real(f"v{i}{a}") for a in "xyz"] for i in range(n)]
    C = [[cx.int(f"c{i}_{a}", 0, n) for a in range(w)] for i in range(m)] if w else []
    D = [cx.real(f"d{i}") for i in range(n)]
    CD = [cx.real(f"e{i}") for i in range(m)] if cd is not None else []
    obj.vertices = mk_array(X, [x for r in V for x in r], (n, 3), "float64")
    if w:
        obj.cells = mk_array(X, [x for r in C for x in r], (m, w), "int32")
    vd.values = mk_array(X, D, (n,), "float64")
    if cd is not None:
        cd.values = mk_array(X, CD, (m,), "float64")
    return V, C, D, CD, w


def _consistent(cx, obj, vd, cd, w, tag):
    """geometry and data mutually consistent (used after a failed operation)"""
    nv = shape(obj.vertices)[0]
    cx.prove(shape(vd.values)[0] == nv, f"{tag}: vertex data length == n_vertices", "after-failure consistency")
    if w:
        cells = obj.cells
        nc = shape(cells)[0]
        if cd is not None:
            cx.prove(shape(cd.values)[0] == nc, f"{tag}: cell data length == n_cells", "after-failure consistency")
        ce = elems(cells)
        cx.prove(And([And(c >= 0, c < nv) for c in ce]), f"{tag}: cells reference existing vertices",
                 "after-failure consistency")


class RemoveVertices(Scenario):
    """obj.remove_vertices(indices) on points / curve / surface with one vertex-data and one cell-data child"""
    pid = "C07"

    def body(self, cx):
        kind, n, m, k = (self.params[x] for x in ("kind", "n", "m", "k"))
        ws, obj, vd, cd = _mk_object(kind, n, m)
        extras = _add_extras(obj, n, m, kind != "points") if self.params.get("extras", True) else []
        for _, d_, _o in extras:
            d_.on_file = False
        with self.engine(cx) as X:
            V, C, D, CD, w = _sym_geometry(cx, X, obj, vd, cd, kind, n, m)
            neg = bool(self.params.get("negative"))
            I = [cx.int(f"i{t}", -n if neg else 0, n) for t in range(k)]       # negative: numpy-style indices from the end
            if self.params.get("as_array"):
                arg = mk_array(X, I, (k,), "int64")
            else:
                arg = list(I)
            removed = [Or([Or(i == j, i == j - n) for i in I]) for j in range(n)]
            if w:
                touches = Or([select(removed, C[c][a]) for c in range(m) for a in range(w)])
                self.known_class(cx, "removed_vertices_touch_no_cell", Not(touches))
            try:
                obj.remove_vertices(arg)
            except Exception as e:  # noqa: BLE001
                _consistent(cx, obj, vd, cd, w, "after failed remove_vertices")
                return f"raised {type(e).__name__}"
            verts = obj.vertices
            nv2 = shape(verts)[0]
            ve = elems(verts)
            vals = vd.values
            de = elems(vals)
            cx.prove(eq(nv2, n - Sum(removed)), "vertex count == n - #distinct removed", "counts")
            cx.prove(shape(vals)[0] == nv2, "vertex data has one entry per vertex", "counts")
            below = [Sum(removed[:j]) for j in range(n)]
            for j in range(n):
                for p in range(nv2):
                    cond = And(Not(removed[j]), eq(below[j], j - p))
                    cx.prove(Implies(cond, And([eq(ve[p * 3 + a], V[j][a]) for a in range(3)] + [eq(de[p], D[j])])),
                             f"survivor {j}->{p} keeps coordinates and value", "survivors keep coordinates and value")
            _check_extras(cx, extras, "VERTEX", nv2, lambda j, p: And(Not(removed[j]), eq(below[j], j - p)))
            if w:
                cells = obj.cells
                nc2 = shape(cells)[0]
                ce = elems(cells)
                surv = [And([Not(select(removed, C[c][a])) for a in range(w)]) for c in range(m)]
                cx.prove(eq(nc2, Sum(surv)), "cell count == #cells with all vertices surviving", "counts")
                cx.prove(And([And(c >= 0, c < nv2) for c in ce]), "cells reference existing vertices", "cells in range")
                gone = [Sum([Not(s) for s in surv[:c]]) for c in range(m)]
                cde = elems(cd.values) if cd is not None else None
                _check_extras(cx, extras, "CELL", nc2, lambda c_, r_: And(surv[c_], eq(gone[c_], c_ - r_)))
                if cd is not None:
                    cx.prove(shape(cd.values)[0] == nc2, "cell data has one entry per cell", "counts")
                for c in range(m):
                    for r in range(nc2):
                        cond = And(surv[c], eq(gone[c], c - r))
                        same = []
                        for a in range(w):
                            ni = ce[r * w + a]
                            for ax in range(3):
                                newc = select([ve[q * 3 + ax] for q in range(nv2)], ni) if nv2 else 0
                                oldc = select([V[q][ax] for q in range(n)], C[c][a])
                                same.append(eq(newc, oldc))
                        if cde is not None:
                            same.append(eq(cde[r], CD[c]))
                        cx.prove(Implies(cond, And(same)), f"cell {c}->{r} connects the same coordinates, keeps value",
                                 "surviving cells connect same coordinates")
            cx.observe("vertices", ve)
            cx.observe("vdata", de)
            if w:
                cx.observe("cells", ce)
            return "ok"


class RemoveCells(Scenario):
    pid = "C07"

    def body(self, cx):
        kind, n, m, k = (self.params[x] for x in ("kind", "n", "m", "k"))
        ws, obj, vd, cd = _mk_object(kind, n, m)
        extras = _add_extras(obj, n, m, True)
        for _, d_, _o in extras:
            d_.on_file = False
        with self.engine(cx) as X:
            V, C, D, CD, w = _sym_geometry(cx, X, obj, vd, cd, kind, n, m)
            I = [cx.int(f"i{t}", 0, m) for t in range(k)]
            try:
                obj.remove_cells(list(I))
            except Exception as e:  # noqa: BLE001
                _consistent(cx, obj, vd, cd, w, "after failed remove_cells")
                return f"raised {type(e).__name__}"
            removed = [Or([i == j for i in I]) for j in range(m)]
            cells = obj.cells
            nc2 = shape(cells)[0]
            ce = elems(cells)
            cde = elems(cd.values)
            cx.prove(eq(nc2, m - Sum(removed)), "cell count == m - #distinct removed", "counts")
            cx.prove(shape(cd.values)[0] == nc2, "cell data has one entry per cell", "counts")
            cx.prove(shape(vd.values)[0] == n and shape(obj.vertices)[0] == n, "vertices and vertex data untouched",
                     "counts")
            ve = elems(obj.vertices)
            cx.prove(And([eq(ve[j * 3 + a], V[j][a]) for j in range(n) for a in range(3)]
                         + [eq(x, y) for x, y in zip(elems(vd.values), D)]), "vertices / vertex data unchanged",
                     "frame")
            below = [Sum(removed[:j]) for j in range(m)]
            _check_extras(cx, extras, "CELL", nc2, lambda c_, r_: And(Not(removed[c_]), eq(below[c_], c_ - r_)))
            _check_extras(cx, extras, "VERTEX", n, lambda j, p: j == p)
            for c in range(m):
                for r in range(nc2):
                    cond = And(Not(removed[c]), eq(below[c], c - r))
                    cx.prove(Implies(cond, And([eq(ce[r * w + a], C[c][a]) for a in range(w)] + [eq(cde[r], CD[c])])),
                             f"cell {c}->{r} keeps its vertices and value", "surviving cells keep vertices and value")
            cx.observe("cells", ce)
            cx.observe("cdata", cde)
            return "ok"


class RemoveAndReopen(Scenario):
    """the same removals on a *stored* object (seam B): a fresh Workspace on the same file must read the geometry and data
    the live object shows (re-opens are part of the property's quantifier)"""
    pid = "C07"
    include_io = True

    def run(self, cx):
        if self.backend == "real":
            return super().run(cx)
        with h5shim.h5_on():
            return super().run(cx)

    def body(self, cx):
        from geoh5py.workspace import Workspace
        from geoh5py.objects import Curve, Surface, Points
        kind, n, m, k, op = (self.params[x] for x in ("kind", "n", "m", "k", "op"))
        h5shim.reset()
        patch.STUBS_USED.add("h5py -> symx.h5shim proxy over the real in-memory HDF5 file (seam B, A-H5)")
        if self.params.get("clear_cache"):      # cache clearing is a no-op for in-memory workspaces: use a file on disk
            import os, shutil, uuid as _uuid
            from .common import HERE
            work = os.path.join(HERE, ".work", f"c07_{os.getpid()}_{_uuid.uuid4().hex[:8]}")
            os.makedirs(work, exist_ok=True)
            cx.on_exit(lambda: shutil.rmtree(work, ignore_errors=True))
            ws = Workspace.create(os.path.join(work, "ws.geoh5"))
        else:
            ws = Workspace()
        verts = real_np.zeros((n, 3))
        if kind == "points":
            obj = Points.create(ws, vertices=verts)
        elif kind == "curve":
            obj = Curve.create(ws, vertices=verts, cells=real_np.zeros((m, 2), dtype="int32"))
        else:
            obj = Surface.create(ws, vertices=verts, cells=real_np.zeros((m, 3), dtype="int32"))
        vd = obj.add_data({"vd": {"values": real_np.zeros(n), "association": "VERTEX"}})
        cd = obj.add_data({"cd": {"values": real_np.zeros(m), "association": "CELL"}}) if kind != "points" and m else None
        with self.engine(cx) as X:
            V, C, D, CD, w = _sym_geometry(cx, X, obj, vd, cd, kind, n, m)
            for v in list(D) + list(CD):        # the documented exception: a float equal to the float no-data sentinel
                cx.assume(Not(eq(v, 1.17549435e-38)) if cx.mode == "sym" else v != 1.17549435e-38)
            if self.params.get("infinities"):       # infinite values are values too: they follow their vertex / cell into the file
                D = [float("inf")] + list(D[1:-1]) + [float("-inf")] if len(D) > 1 else [float("inf")]
                vd.values = mk_array(X, D, (n,), "float64")
            if kind == "curve":
                _ = obj.parts           # derived cache that the operation must not leave stale
            I = [cx.int(f"i{t}", 0, n if op == "vertices" else m) for t in range(k)]
            try:
                if op == "vertices":
                    obj.remove_vertices(list(I))
                else:
                    obj.remove_cells(list(I))
            except Exception as e:  # noqa: BLE001
                return f"raised {type(e).__name__}"
            live = {"vertices": (shape(obj.vertices), elems(obj.vertices)), "vd": (shape(vd.values), elems(vd.values))}
            if w:
                live["cells"] = (shape(obj.cells), elems(obj.cells))
                if cd is not None:
                    live["cd"] = (shape(cd.values), elems(cd.values))
            if self.params.get("clear_cache"):
                # public way to drop the array caches of the live object: a copy with clear_cache=True; the getters must
                # then re-read (or re-derive) exactly what they showed before
                obj.copy(clear_cache=True)
                again = {"vertices": (shape(obj.vertices), elems(obj.vertices))}
                if w:
                    again["cells"] = (shape(obj.cells), elems(obj.cells))
                for key, (shp, vals) in again.items():
                    cx.prove(shp == live[key][0] and And([eq(x, y) for x, y in zip(vals, live[key][1])]),
                             f"{key} unchanged after the caches were cleared", "cache clear")
            uid = obj.uid
            ws.close()
            ws2 = Workspace(ws.h5file)
            o2 = ws2.get_entity(uid)[0]
            cx.prove(o2 is not None, "object found again in the file", "re-open")
            if o2 is None:
                return "lost"
            back = {"vertices": (shape(o2.vertices), elems(o2.vertices))}
            kids = {c.name: c for c in o2.children if hasattr(c, "values")}
            back["vd"] = (shape(kids["vd"].values), elems(kids["vd"].values)) if "vd" in kids else None
            if w:
                back["cells"] = (shape(o2.cells), elems(o2.cells))
                if cd is not None:
                    back["cd"] = (shape(kids["cd"].values), elems(kids["cd"].values)) if "cd" in kids else None
            for key, (shp, vals) in live.items():
                b = back.get(key)
                cx.prove(b is not None and b[0] == shp and And([eq(x, y) for x, y in zip(b[1], vals)]),
                         f"re-opened {key} == in-memory {key}", "re-open")
            nv2 = back["vertices"][0][0]
            cx.prove(back["vd"] is not None and back["vd"][0] == (nv2,), "re-opened vertex data: one entry per vertex", "re-open")
            if w:
                nc2 = back["cells"][0][0]
                cx.prove(And([And(c >= 0, c < nv2) for c in back["cells"][1]]), "re-opened cells reference existing vertices",
                         "re-open")
                if cd is not None:
                    cx.prove(back["cd"] is not None and back["cd"][0] == (nc2,), "re-opened cell data: one entry per cell",
                             "re-open")
            ws2.close()
            return "ok"


class MaskedCopy(Scenario):
    """masked copies: obj.copy(mask=...) keeps exactly the masked vertices (cells whose vertices all survive) with their
    data; data.copy(parent=<same-size object>, mask=...) keeps masked entries on their positions and blanks the others"""
    pid = "C07"

    def body(self, cx):
        from geoh5py.objects import Points
        kind, n, m = (self.params[x] for x in ("kind", "n", "m"))
        ws, obj, vd, cd = _mk_object(kind, n, m)
        twin = Points.create(ws, vertices=real_np.zeros((n, 3)), name="twin") if kind == "points" else None
        if twin is not None:
            twin.on_file = False
        with self.engine(cx) as X:
            V, C, D, CD, w = _sym_geometry(cx, X, obj, vd, cd, kind, n, m)
            M = [cx.bool(f"m{i}") for i in range(n)]
            mask = mk_array(X, M, (n,), "bool")
            new = obj.copy(mask=mask)
            nv2 = shape(new.vertices)[0]
            ve = elems(new.vertices)
            cx.prove(eq(nv2, Sum(M)), "masked copy has exactly the masked vertices", "masked copy")
            nd_ = [c for c in new.children if getattr(c, "name", None) == "vd"]
            cx.prove(len(nd_) == 1 and shape(nd_[0].values) == (nv2,), "copied vertex data: one entry per vertex", "masked copy")
            below = [Sum(M[:j]) for j in range(n)]
            nde = elems(nd_[0].values) if len(nd_) == 1 else None
            for j in range(n):
                for p in range(nv2):
                    cond = And(M[j], eq(below[j], p))
                    same = [eq(ve[p * 3 + a], V[j][a]) for a in range(3)]
                    if nde is not None and len(nde) == nv2:
                        same.append(eq(nde[p], D[j]))
                    cx.prove(Implies(cond, And(same)), f"masked vertex {j}->{p} keeps coordinates and value", "masked copy")
            if w:
                ce = elems(new.cells)
                nc2 = shape(new.cells)[0]
                keep = [And([select(M, C[c][a]) for a in range(w)]) for c in range(m)]
                cx.prove(eq(nc2, Sum(keep)) and And([And(c_ >= 0, c_ < nv2) for c_ in ce]),
                         "masked copy keeps the cells whose vertices all survive, re-indexed in range", "masked copy")
                ncd = [c for c in new.children if getattr(c, "name", None) == "cd"]
                ncde = elems(ncd[0].values) if (cd is not None and len(ncd) == 1) else None
                cb = [Sum(keep[:c]) for c in range(m)]
                for c in range(m):
                    for r in range(nc2):
                        cond = And(keep[c], eq(cb[c], r))
                        same = []
                        for a in range(w):
                            for ax in range(3):
                                same.append(eq(select([ve[q * 3 + ax] for q in range(nv2)], ce[r * w + a]),
                                               select([V[q][ax] for q in range(n)], C[c][a])))
                        if ncde is not None and len(ncde) == nc2:
                            same.append(eq(ncde[r], CD[c]))
                        cx.prove(Implies(cond, And(same)), f"cell {c}->{r} connects the same coordinates, keeps value", "masked copy")
            if twin is not None:
                cp = vd.copy(parent=twin, mask=mask)
                cv = elems(cp.values)
                cx.prove(len(cv) == n, "data copied onto a same-size object has one entry per vertex", "masked data copy")
                if len(cv) == n:
                    for i in range(n):
                        if is_nan(cv[i]):
                            cx.prove(Not(M[i]), f"entry {i} blanked only when masked out", "masked data copy")
                        else:
                            cx.prove(And(M[i], eq(cv[i], D[i])), f"entry {i} stays on its vertex iff masked in", "masked data copy")
            cx.prove(And([eq(a, b) for a, b in zip(elems(obj.vertices), [x for r in V for x in r])])
                     and And([eq(a, b) for a, b in zip(elems(vd.values), D)]), "source unchanged", "masked copy")
            return "ok"


class AssignValues(Scenario):
    """data.values = array of length L on an object with n vertices: pad / accept / refuse"""
    pid = "C07"

    def body(self, cx):
        kind, n, L, dk = (self.params[x] for x in ("kind", "n", "L", "dkind"))
        from geoh5py.workspace import Workspace
        from geoh5py.objects import Points
        ws = Workspace()
        if kind == "points":
            obj = Points.create(ws, vertices=real_np.zeros((n, 3)))
            assoc = "VERTEX"
        else:       # n counts the cells: the data are attached to the cells of a curve / surface
            from geoh5py.objects import Curve, Surface
            w = 2 if kind == "curve" else 3
            cls = Curve if kind == "curve" else Surface
            obj = cls.create(ws, vertices=real_np.zeros((n + w, 3)),
                             cells=real_np.c_[[real_np.arange(n) + a for a in range(w)]].T.astype("int32"))
            assoc = "CELL"
        if dk == "float":
            d = obj.add_data({"d": {"values": real_np.zeros(n), "association": assoc}})
        else:
            d = obj.add_data({"d": {"values": real_np.zeros(n, dtype="int32"), "association": assoc,
                                    "type": "integer"}})
        patch.detach(ws, obj, d)
        with self.engine(cx) as X:
            if dk == "float":
                vals = [cx.real(f"x{i}") for i in range(L)]
                arr = mk_array(X, vals, (L,), "float64")
            else:
                vals = [cx.int(f"x{i}", -1000, 1000) for i in range(L)]
                arr = mk_array(X, vals, (L,), "int32")
            try:
                d.values = arr
            except Exception as e:  # noqa: BLE001
                cx.prove(shape(d.values)[0] == n, "after refusal the stored values still have one entry per vertex",
                         "after-failure consistency")
                return f"raised {type(e).__name__}"
            cx.prove(L <= n, "longer arrays must be refused", "refusal")
            out = d.values
            oe = elems(out)
            cx.prove(shape(out)[0] == n, "one entry per vertex", "counts")
            cx.prove(And([eq(oe[i], vals[i]) for i in range(L)]), "given values kept in place", "values kept")
            if dk == "float":
                cx.prove(all(is_nan(oe[i]) for i in range(L, n)), "padding is NaN at the tail", "padding")
            else:
                cx.prove(And([eq(oe[i], d.ndv) for i in range(L, n)]), "padding is the integer no-data value",
                         "padding")
            cx.observe("values", [x for x in oe[:L]])
            return "ok"


def scenarios(tier, seed):
    S = []
    if tier == "quick":
        S += [RemoveVertices(kind="points", n=4, m=0, k=2),
              RemoveVertices(kind="points", n=3, m=0, k=2, negative=True),
              RemoveVertices(kind="curve", n=3, m=2, k=2, negative=True),
              RemoveVertices(kind="curve", n=4, m=3, k=2),
              RemoveVertices(kind="curve", n=3, m=2, k=1, as_array=True),
              RemoveVertices(kind="surface", n=4, m=2, k=1),
              RemoveCells(kind="curve", n=3, m=3, k=2),
              RemoveCells(kind="surface", n=3, m=2, k=1)]
        for L in (0, 2, 3, 4):
            S.append(AssignValues(kind="points", n=3, L=L, dkind="float"))
            S.append(AssignValues(kind="points", n=3, L=L, dkind="int"))
        S += [MaskedCopy(kind="points", n=3, m=0), MaskedCopy(kind="curve", n=3, m=2)]
        S += [RemoveAndReopen(kind="curve", n=4, m=3, k=1, op="cells", clear_cache=True),
              RemoveAndReopen(kind="curve", n=4, m=3, k=1, op="cells"), RemoveAndReopen(kind="curve", n=4, m=3, k=1, op="vertices"),
              RemoveAndReopen(kind="surface", n=4, m=2, k=1, op="cells"), RemoveAndReopen(kind="points", n=3, m=0, k=2, op="vertices"),
              RemoveAndReopen(kind="points", n=3, m=0, k=1, op="vertices", infinities=True),
              RemoveAndReopen(kind="curve", n=4, m=3, k=1, op="cells", infinities=True)]
        for L in (1, 2, 3):
            S.append(AssignValues(kind="curve", n=2, L=L, dkind="float"))
        S.append(AssignValues(kind="surface", n=2, L=3, dkind="int"))
    else:
        S += [RemoveVertices(kind=kd, n=nn, m=mm, k=2, negative=True) for kd, nn, mm in (("points", 4, 0), ("curve", 4, 3), ("surface", 4, 2))]
        S += [RemoveVertices(kind="points", n=5, m=0, k=3),
              RemoveVertices(kind="points", n=3, m=0, k=2, as_array=True),
              RemoveVertices(kind="curve", n=4, m=3, k=2),
              RemoveVertices(kind="curve", n=5, m=3, k=2),
              RemoveVertices(kind="curve", n=4, m=4, k=3),
              RemoveVertices(kind="curve", n=4, m=2, k=2, as_array=True),
              RemoveVertices(kind="surface", n=4, m=2, k=2),
              RemoveVertices(kind="surface", n=5, m=3, k=1),
              RemoveCells(kind="curve", n=4, m=4, k=3),
              RemoveCells(kind="surface", n=4, m=3, k=2)]
        for n in (1, 3, 4):
            for L in range(0, n + 2):
                S.append(AssignValues(kind="points", n=n, L=L, dkind="float"))
                S.append(AssignValues(kind="points", n=n, L=L, dkind="int"))
        S += [MaskedCopy(kind="points", n=4, m=0), MaskedCopy(kind="curve", n=4, m=3), MaskedCopy(kind="surface", n=4, m=2)]
        for kind, n, m in (("curve", 4, 3), ("surface", 4, 3), ("points", 4, 0)):
            for op in (("vertices", "cells") if m else ("vertices",)):
                for k in (1, 2):
                    S.append(RemoveAndReopen(kind=kind, n=n, m=m, k=k, op=op))
                S.append(RemoveAndReopen(kind=kind, n=n, m=m, k=1, op=op, clear_cache=True))
        for kind in ("curve", "surface"):
            for n in (1, 3):
                for L in range(0, n + 2):
                    S.append(AssignValues(kind=kind, n=n, L=L, dkind="float"))
                    S.append(AssignValues(kind=kind, n=n, L=L, dkind="int"))
    return S


def main(tier, seed):
    return run_property(
        "C07", scenarios(tier, seed), tier, seed,
        assumptions=[
            "A-REAL: float64 values are modelled as mathematical reals (rounding outside the claim); NaN/inf only concrete",
            "seam A: real in-memory Workspace with save_entity overridden by a no-op on the instance and on_file=False",
            "numpy is replaced by the symx model (validated per path against real numpy on a model of the path condition)",
            "array shapes (n vertices, m cells, k removal indices, L values) are concrete per scenario",
        ],
        outside=["drillhole sort_depths", "shapes larger than the listed ones",
                 "extent-driven copies are checked under C13"],
        bounds={"quick": "n<=4 vertices, m<=3 cells, k<=2 removal indices (any order, repeats allowed); value arrays L in 0..n+1, n=3",
                "thorough": "n<=5, m<=4, k<=3; value arrays n in {1,3,4}"}[tier],
        expected_outcomes={"RemoveVertices": {"ok"}, "RemoveCells": {"ok"}, "AssignValues": {"ok"}, "RemoveAndReopen": {"ok"}, "MaskedCopy": {"ok"}},
    )
