"""C12 -- a copy equals its source and never disturbs it (symx, seam B; value-level part of the property).

The source entity carries symbolic geometry / attribute / data values; the real ``copy`` runs on them; z3 decides that
every array and attribute of the copy (and of its copied children) equals the source's term by term, that the source
(live and re-read from its file) still shows its own values after the copy and after the copy was edited, and that the
edited copy (live and re-read) shows the edits.  Object-graph questions (which classes exist, options of survey
classes) are enumerated by the scenario list, not solved."""
from __future__ import annotations

import uuid

import numpy as real_np

from symx import patch, h5shim
from symx.core import And, Or, Not, eq, is_sym, is_nan
from .common import Scenario, elems, shape, mk_array, run_property, assume_not_ndv
from .c03 import _norm, _same

G2 = ("geoh5py.objects.grid2d",)
OC = ("geoh5py.objects.octree",)
DH = ("geoh5py.objects.drillhole:float,int",)


# ----------------------------------------------------------------------------------------------------------
# sources: factory (real numpy) + symbolic state assignment, one per object class
# ----------------------------------------------------------------------------------------------------------
def _arr(cx, X, tag, shp, dtype="float64", lo=None, hi=None):
    n = 1
    for s in shp:
        n *= s
    if dtype.startswith("int"):
        vals = [cx.int(f"{tag}{i}", lo, hi) for i in range(n)]
    else:
        vals = [cx.real(f"{tag}{i}") for i in range(n)]
    return mk_array(X, vals, shp, dtype)


def f_points(ws):
    from geoh5py.objects import Points
    return Points.create(ws, vertices=real_np.arange(9.0).reshape(3, 3), name="src"), "VERTEX", 3


def s_points(cx, X, e):
    e.vertices = _arr(cx, X, "v", (3, 3))


def f_curve(ws):
    from geoh5py.objects import Curve
    return Curve.create(ws, vertices=real_np.arange(9.0).reshape(3, 3), cells=real_np.array([[0, 1], [1, 2]], dtype="int32"),
                        name="src"), "VERTEX", 3


def s_curve(cx, X, e):
    e.vertices = _arr(cx, X, "v", (3, 3))
    e.cells = _arr(cx, X, "c", (2, 2), "int32", 0, 3)


def f_surface(ws):
    from geoh5py.objects import Surface
    return Surface.create(ws, vertices=real_np.arange(12.0).reshape(4, 3),
                          cells=real_np.array([[0, 1, 2], [1, 2, 3]], dtype="int32"), name="src"), "CELL", 2


def s_surface(cx, X, e):
    e.vertices = _arr(cx, X, "v", (4, 3))
    e.cells = _arr(cx, X, "c", (2, 3), "int32", 0, 4)


def f_grid(ws):
    from geoh5py.objects import Grid2D
    return Grid2D.create(ws, origin=[1.0, 2.0, 3.0], u_cell_size=1.0, v_cell_size=2.0, u_count=2, v_count=3, rotation=10.0,
                         dip=20.0, name="src"), "CELL", 6


def s_grid(cx, X, e):
    e.origin = [cx.real("o0"), cx.real("o1"), cx.real("o2")]
    e.u_cell_size = cx.real("us")
    e.v_cell_size = cx.real("vs")
    e.rotation = cx.real("rot")
    e.dip = cx.real("dip")


def f_block(ws):
    from geoh5py.objects import BlockModel
    return BlockModel.create(ws, origin=[1.0, 2.0, 3.0], u_cell_delimiters=real_np.array([0.0, 1.0, 2.0]),
                             v_cell_delimiters=real_np.array([0.0, 1.0]), z_cell_delimiters=real_np.array([0.0, -1.0, -2.0]),
                             rotation=5.0, name="src"), "CELL", 4


def s_block(cx, X, e):
    e.origin = [cx.real("o0"), cx.real("o1"), cx.real("o2")]
    e.rotation = cx.real("rot")
    e.u_cell_delimiters = _arr(cx, X, "ud", (3,))
    e.v_cell_delimiters = _arr(cx, X, "vd", (2,))
    e.z_cell_delimiters = _arr(cx, X, "zd", (3,))


def f_octree(ws):
    from geoh5py.objects import Octree
    o = Octree.create(ws, origin=[1.0, 2.0, 3.0], u_count=2, v_count=2, w_count=2, u_cell_size=1.0, v_cell_size=1.0,
                      w_cell_size=1.0, rotation=5.0, name="src")
    return o, "CELL", None


def s_octree(cx, X, e):
    e.origin = [cx.real("o0"), cx.real("o1"), cx.real("o2")]
    e.rotation = cx.real("rot")
    e.u_cell_size = cx.real("us")
    e.v_cell_size = cx.real("vs")
    e.w_cell_size = cx.real("wz")
    e.octree_cells = _arr(cx, X, "q", (shape(e.octree_cells)[0], 4), "int32", 0, 4)


def f_drape(ws):
    from geoh5py.objects import DrapeModel
    layers = real_np.array([[0, 0, -1.0], [0, 1, -2.0], [1, 0, -1.5], [1, 1, -2.5]])
    prisms = real_np.array([[0.0, 0.0, 0.0, 0, 2], [1.0, 0.0, 0.5, 2, 2]])
    return DrapeModel.create(ws, layers=layers, prisms=prisms, name="src"), "CELL", 4


def s_drape(cx, X, e):
    z = [cx.real(f"z{i}") for i in range(4)]
    p = [cx.real(f"p{i}") for i in range(6)]
    e.layers = mk_array(X, [0.0, 0.0, z[0], 0.0, 1.0, z[1], 1.0, 0.0, z[2], 1.0, 1.0, z[3]], (4, 3), "float64")
    e.prisms = mk_array(X, [p[0], p[1], p[2], 0.0, 2.0, p[3], p[4], p[5], 2.0, 2.0], (2, 5), "float64")


def f_drillhole(ws):
    from geoh5py.objects import Drillhole
    return Drillhole.create(ws, collar=[1.0, 2.0, 3.0], surveys=real_np.c_[[0.0, 10.0], [0.0, 10.0], [-90.0, -80.0]],
                            name="src"), None, None


def s_drillhole(cx, X, e):
    e.collar = [cx.real("o0"), cx.real("o1"), cx.real("o2")]
    d0, d1 = cx.real("d0"), cx.real("d1")
    cx.assume(d0 >= 0)
    cx.assume(d0 <= d1)
    e.surveys = mk_array(X, [d0, cx.real("a0"), cx.real("p0"), d1, cx.real("a1"), cx.real("p1")], (2, 3), "float64")
    e.cost = cx.real("cost")
    e.end_of_hole = cx.real("eoh")


SOURCES = {
    "Points": (f_points, s_points, ()),
    "Curve": (f_curve, s_curve, ()),
    "Surface": (f_surface, s_surface, ()),
    "Grid2D": (f_grid, s_grid, G2),
    "BlockModel": (f_block, s_block, ()),
    "Octree": (f_octree, s_octree, OC),
    "DrapeModel": (f_drape, s_drape, ()),
    "Drillhole": (f_drillhole, s_drillhole, DH),
}

ARRAYS = ("vertices", "cells", "parts", "values", "surveys", "collar", "layers", "prisms", "octree_cells", "u_cell_delimiters",
          "v_cell_delimiters", "z_cell_delimiters", "metadata", "origin")
SKIP = ("uid", "on_file", "parent", "entity_type", "concatenated_attributes", "property_groups", "clipping_ids",
        "concatenated_object_ids")


def _attr_names(ent):
    amap = getattr(ent, "attribute_map", None) or getattr(ent, "_attribute_map", None) or {}
    names = {v.split(":")[0].strip() for v in amap.values()} | {a for a in ARRAYS if hasattr(type(ent), a)}
    return sorted(n for n in names if n not in SKIP)


def _snapshot(ent):
    snap = {}
    for name in _attr_names(ent):
        try:
            v = _norm(getattr(ent, name))
        except Exception:  # noqa: BLE001
            continue
        if isinstance(v, str) and v.startswith("<"):
            continue
        snap[name] = v
    return snap


def _children_snapshot(ent):
    out = {}
    for c in getattr(ent, "children", []):
        if not hasattr(c, "values"):
            continue
        try:
            vals = _norm(c.values)
        except Exception:  # noqa: BLE001
            vals = "<unreadable>"
        vm = getattr(c, "value_map", None)
        out[c.name] = {"class": type(c).__name__, "values": vals, "association": getattr(c.association, "name", None),
                       "type_name": c.entity_type.name, "primitive": getattr(c.entity_type.primitive_type, "name", None),
                       "value_map": _norm(vm) if vm is not None else None}
    return out


def _pg_snapshot(ent):
    """property groups by name: type and the NAMES of the data they list (identifiers differ between source and copy)"""
    out = {}
    by_uid = {c.uid: c.name for c in getattr(ent, "children", [])}
    for pg in (getattr(ent, "property_groups", None) or []):
        props = [by_uid.get(u, f"<not a child: {u}>") for u in (pg.properties or [])]
        out[pg.name] = {"type": str(getattr(pg.property_group_type, "value", pg.property_group_type)), "properties": props,
                        "association": getattr(pg.association, "name", None)}
    return out


def _prove_same(cx, got, exp, what, family):
    """got / exp: snapshots (dict name -> normalised value)"""
    cx.prove(set(got) == set(exp), f"{what}: same set of entries ({sorted(set(got) ^ set(exp))})", family)
    for k in exp:
        if k in got:
            cx.prove(_same(got[k], exp[k]), f"{what}: '{k}' equal", family)


def _reread(ws, uid):
    from geoh5py.workspace import Workspace
    ws.close()
    ws2 = Workspace(ws.h5file)
    return ws2, ws2.get_entity(uid)[0]


class _H5Scenario(Scenario):
    include_io = True

    def run(self, cx):
        if self.backend == "real":
            return super().run(cx)
        with h5shim.h5_on():
            return super().run(cx)


def _add_text(obj, assoc):
    """text data is created on real numpy before the engine is switched on (string arrays are not modelled)"""
    if assoc is not None:
        obj.add_data({"tx": {"values": "some text", "type": "text", "association": "OBJECT"}})


def _add_children(cx, X, obj, assoc, n):
    """float data with symbolic values, integer and referenced data with concrete values, a property group"""
    if assoc is None:       # drillhole: depth logs
        D = [cx.real(f"x{i}") for i in range(2)]
        assume_not_ndv(cx, D)
        obj.add_data({"fd": {"depth": mk_array(X, [1.0, 2.0], (2,), "float64"), "values": mk_array(X, D, (2,), "float64")}})
        obj.add_data({"iv": {"depth": mk_array(X, [1.0, 2.0], (2,), "float64"), "values": mk_array(X, [7, 9], (2,), "int32"),
                             "type": "integer"}})
        return D
    if n is None:
        n = int(obj.n_cells if assoc == "CELL" else obj.n_vertices)
    D = [cx.real(f"x{i}") for i in range(n)]
    assume_not_ndv(cx, D)
    fd = obj.add_data({"fd": {"values": mk_array(X, D, (n,), "float64"), "association": assoc}})
    iv = obj.add_data({"iv": {"values": mk_array(X, [i * 7 + 100 for i in range(n)], (n,), "int32"), "type": "integer",
                              "association": assoc}})
    obj.add_data({"rd": {"values": mk_array(X, [i % 2 + 1 for i in range(n)], (n,), "int32"), "type": "referenced",
                         "value_map": {1: "one", 2: "two"}, "association": assoc}})
    obj.find_or_create_property_group(name="pg", properties=[iv.uid, fd.uid])      # not the order of creation
    return D


class CopyObject(_H5Scenario):
    """copy one object (symbolic geometry, attributes and float data; integer / referenced / text children; a property
    group; metadata) to the same parent, another group or another workspace, with or without children; then edit the copy"""
    pid = "C12"

    def __init__(self, **params):
        super().__init__(**params)
        self.builtins_for = tuple(SOURCES[params["cls"]][2])

    def body(self, cx):
        from geoh5py.workspace import Workspace
        from geoh5py.groups import ContainerGroup
        cls, target, with_children = self.params["cls"], self.params["target"], self.params["children"]
        h5shim.reset()
        patch.STUBS_USED.add("h5py -> symx.h5shim proxy over the real in-memory HDF5 files (seam B, A-H5)")
        factory, setstate, _ = SOURCES[cls]
        ws = Workspace()
        src, assoc, n = factory(ws)
        src.metadata = {"k": {"a": 1, "b": "x"}}
        other = None
        if target == "same":
            parent = None
        elif target == "group":
            parent = ContainerGroup.create(ws, name="target group")
        else:
            other = Workspace()
            parent = other
        _add_text(src, assoc)
        if self.params.get("visual"):       # visual parameters: an XML child holding (among others) the colour of the object
            src.add_default_visual_parameters()
            src.visual_parameters.colour = [10, 20, 30]
        with self.engine(cx) as X:
            setstate(cx, X, src)
            _add_children(cx, X, src, assoc, n)
            if self.params.get("reopen_first"):
                # the copy is taken in a later session: the source is loaded lazily from its file
                suid, puid = src.uid, (parent.uid if (parent is not None and other is None) else None)
                ws.close()
                ws = Workspace(ws.h5file)
                src = ws.get_entity(suid)[0]
                if puid is not None:
                    parent = ws.get_entity(puid)[0]
            before = _snapshot(src)
            kids_before = _children_snapshot(src)
            pgs_before = _pg_snapshot(src)
            try:
                cp = src.copy(parent=parent, copy_children=with_children)
            except Exception as e:  # noqa: BLE001
                cx.prove(False, f"copy of a valid {cls} is produced (raised {type(e).__name__}: {e})", "copy equals source")
                return "copy raised"
            cx.prove(type(cp) is type(src), "the copy has the class of the source", "copy equals source")
            cx.prove(cp is not src and (other is not None or cp.uid != src.uid), "the copy is a distinct entity", "copy equals source")
            exp_parent = src.parent if parent is None else (other.root if other is not None else parent)
            cx.prove(cp.parent is exp_parent or getattr(cp.parent, "uid", 0) == getattr(exp_parent, "uid", 1),
                     "the copy hangs under the requested parent", "copy equals source")
            _prove_same(cx, _snapshot(cp), before, "copy vs source", "copy equals source")
            kids = _children_snapshot(cp)
            if with_children:
                _prove_same(cx, kids, kids_before, "copied children vs source children", "children copied")
                _prove_same(cx, _pg_snapshot(cp), pgs_before, "property groups of the copy (by data name)", "children copied")
                src_ids = {c.uid for c in src.children}
                if other is None:
                    cx.prove(not ({c.uid for c in cp.children} & src_ids), "copied children are new entities", "children copied")
                for pg in (cp.property_groups or []):
                    mine = {c.uid for c in cp.children}
                    cx.prove(all(u in mine for u in pg.properties), f"property group '{pg.name}' of the copy lists the copy's own children",
                             "children copied")
            else:
                cx.prove(not kids, "no data copied when copy_children is off", "children copied")
            # the source, right after the copy
            _prove_same(cx, _snapshot(src), before, "source after the copy", "source undisturbed")
            _prove_same(cx, _children_snapshot(src), kids_before, "source children after the copy", "source undisturbed")
            _prove_same(cx, _pg_snapshot(src), pgs_before, "source property groups after the copy", "source undisturbed")
            # edit the copy: geometry / attributes moved by concrete amounts, data overwritten
            edits = {}
            for name, val in list(before.items()):
                if isinstance(val, tuple) and val and val[0] == "array" and name in ("vertices", "layers", "u_cell_delimiters"):
                    new = [i * 3.0 + 1000.0 for i in range(len(val[2]))]
                    if name == "layers":
                        new = [0.0, 0.0, -7.0, 0.0, 1.0, -8.0, 1.0, 0.0, -9.5, 1.0, 1.0, -10.5]
                    setattr(cp, name, mk_array(X, new, tuple(val[1]), "float64"))
                    edits[name] = _norm(getattr(cp, name))
            if "origin" in before and cls != "Drillhole":
                cp.origin = [-5.0, -6.0, -7.0]
                edits["origin"] = _norm(cp.origin)
            if cls == "Drillhole":
                cp.collar = [-5.0, -6.0, -7.0]
                edits["collar"] = _norm(cp.collar)
            if self.params.get("visual"):
                cx.prove(src.visual_parameters is not None and src.visual_parameters.colour == [10, 20, 30], "the source keeps its colour", "source undisturbed")
                vp = cp.visual_parameters
                if with_children:
                    cx.prove(vp is not None and vp is not src.visual_parameters and vp.colour == [10, 20, 30],
                             "the copy has visual parameters of its own with the source's colour", "children copied")
                if vp is not None:
                    vp.colour = [200, 100, 50]       # an edit of the copy's appearance
                    cx.prove(src.visual_parameters.colour == [10, 20, 30], "colouring the copy does not colour the source",
                             "edits do not show through")
            cp.name = "edited copy"
            md = cp.metadata
            if isinstance(md, dict) and isinstance(md.get("k"), dict):
                md["k"]["a"] = 99           # an edit inside the dictionary the copy hands out
            cp.metadata = {"other": 1}
            fd2 = [c for c in cp.children if c.name == "fd"]
            if fd2:
                k = len(elems(fd2[0].values))
                fd2[0].values = mk_array(X, [i + 500.0 for i in range(k)], (k,), "float64")
            _prove_same(cx, _snapshot(src), before, "source after the copy was edited", "edits do not show through")
            _prove_same(cx, _children_snapshot(src), kids_before, "source children after the copy was edited", "edits do not show through")
            live_cp = _snapshot(cp)
            live_cp_kids = _children_snapshot(cp)
            for name, val in edits.items():
                cx.prove(_same(live_cp.get(name), val), f"the edited copy shows its new '{name}'", "edits do not show through")
            # fresh readers
            cp_uid, src_uid = cp.uid, src.uid
            if other is not None:
                other2, cp2 = _reread(other, cp_uid)
                ws2, src2 = _reread(ws, src_uid)
            else:
                ws2, src2 = _reread(ws, src_uid)
                other2, cp2 = None, ws2.get_entity(cp_uid)[0]
            cx.prove(src2 is not None and cp2 is not None, "source and copy are found again in their files", "stored")
            if src2 is not None:
                _prove_same(cx, _snapshot(src2), before, "source re-read from its file", "stored")
                _prove_same(cx, _children_snapshot(src2), kids_before, "source children re-read", "stored")
                _prove_same(cx, _pg_snapshot(src2), pgs_before, "source property groups re-read", "stored")
            if cp2 is not None:
                _prove_same(cx, _snapshot(cp2), live_cp, "edited copy re-read from its file", "stored")
                _prove_same(cx, _children_snapshot(cp2), live_cp_kids, "children of the copy re-read", "stored")
                if with_children:
                    _prove_same(cx, _pg_snapshot(cp2), pgs_before, "property groups of the copy re-read", "stored")
            ws2.close()
            if other2 is not None:
                other2.close()
            return "ok"


class CopyData(_H5Scenario):
    """copy one data entity (symbolic float values / integer / referenced with value map) onto another object of the
    same size, in the same or another workspace; then overwrite the copy"""
    pid = "C12"

    def body(self, cx):
        from geoh5py.workspace import Workspace
        from geoh5py.objects import Points
        kind, cross = self.params["kind"], self.params["cross"]
        h5shim.reset()
        patch.STUBS_USED.add("h5py -> symx.h5shim proxy over the real in-memory HDF5 files (seam B, A-H5)")
        ws = Workspace()
        src_obj = Points.create(ws, vertices=real_np.arange(9.0).reshape(3, 3), name="a")
        tws = Workspace() if cross else ws
        dst_obj = Points.create(tws, vertices=real_np.arange(9.0).reshape(3, 3) + 1.0, name="b")
        with self.engine(cx) as X:
            if kind == "float":
                D = [cx.real(f"x{i}") for i in range(3)]
                assume_not_ndv(cx, D)
                d = src_obj.add_data({"d": {"values": mk_array(X, D, (3,), "float64")}})
            elif kind == "integer":
                D = [cx.int(f"x{i}", -1000, 1000) for i in range(3)]
                d = src_obj.add_data({"d": {"values": mk_array(X, D, (3,), "int32"), "type": "integer"}})
            else:
                D = [cx.int(f"x{i}", 1, 3) for i in range(3)]
                d = src_obj.add_data({"d": {"values": mk_array(X, D, (3,), "int32"), "type": "referenced",
                                            "value_map": {1: "one", 2: "two"}}})
            before = _children_snapshot(src_obj)
            cp = d.copy(parent=dst_obj)
            cx.prove(type(cp) is type(d) and cp is not d and cp.parent is dst_obj, "the copy is a distinct data entity of the same class "
                     "under the requested object", "copy equals source")
            got = _children_snapshot(dst_obj)
            _prove_same(cx, got, before, "copied data vs source data", "copy equals source")
            cp.values = (mk_array(X, [11.0, 12.0, 13.0], (3,), "float64") if kind == "float" else
                         mk_array(X, [11, 12, 13] if kind == "integer" else [2, 2, 2], (3,), "int32"))
            if kind == "referenced" and cross:      # inside one workspace source and copy share their data type by design
                cp.entity_type.value_map = {1: "uno", 2: "dos", 3: "tres"}
            _prove_same(cx, _children_snapshot(src_obj), before, "source data after the copy was edited", "edits do not show through")
            live = _children_snapshot(dst_obj)
            uid_s, uid_d = src_obj.uid, dst_obj.uid
            if cross:
                t2, dst2 = _reread(tws, uid_d)
                w2, src2 = _reread(ws, uid_s)
            else:
                w2, src2 = _reread(ws, uid_s)
                t2, dst2 = None, w2.get_entity(uid_d)[0]
            _prove_same(cx, _children_snapshot(src2), before, "source data re-read from its file", "stored")
            _prove_same(cx, _children_snapshot(dst2), live, "edited copy re-read from its file", "stored")
            w2.close()
            if t2 is not None:
                t2.close()
            return "ok"


class CopyGroup(_H5Scenario):
    """copy a group with a two-level subtree (object with data, nested group with a curve and data): the whole subtree is
    reproduced with equal arrays; the source subtree is undisturbed"""
    pid = "C12"

    def body(self, cx):
        from geoh5py.workspace import Workspace
        from geoh5py.groups import ContainerGroup
        from geoh5py.objects import Points, Curve
        cross = self.params["cross"]
        h5shim.reset()
        patch.STUBS_USED.add("h5py -> symx.h5shim proxy over the real in-memory HDF5 files (seam B, A-H5)")
        ws = Workspace()
        g = ContainerGroup.create(ws, name="top")
        p = Points.create(ws, vertices=real_np.arange(6.0).reshape(2, 3), name="pts", parent=g)
        h = ContainerGroup.create(ws, name="nested", parent=g)
        c = Curve.create(ws, vertices=real_np.arange(9.0).reshape(3, 3), cells=real_np.array([[0, 1], [1, 2]], dtype="int32"),
                         name="crv", parent=h)
        tws = Workspace() if cross else ws

        def tree(grp):
            out = {}
            for ch in grp.children:
                if hasattr(ch, "children") and not hasattr(ch, "vertices"):
                    out["group:" + ch.name] = tree(ch)
                else:
                    out["object:" + ch.name] = {"class": type(ch).__name__, "state": _snapshot(ch), "data": _children_snapshot(ch)}
            return out

        def flat(t, prefix=""):
            out = {}
            for k, v in t.items():
                if k.startswith("group:"):
                    out[prefix + k] = "group"
                    out.update(flat(v, prefix + k + "/"))
                else:
                    out[prefix + k + ".class"] = v["class"]
                    for a, x in v["state"].items():
                        out[prefix + k + "." + a] = x
                    for dn, dv in v["data"].items():
                        for a, x in dv.items():
                            out[prefix + k + "/" + dn + "." + a] = x
            return out
        with self.engine(cx) as X:
            p.vertices = _arr(cx, X, "v", (2, 3))
            c.vertices = _arr(cx, X, "w", (3, 3))
            c.cells = _arr(cx, X, "c", (2, 2), "int32", 0, 3)
            D = [cx.real(f"x{i}") for i in range(2)]
            E = [cx.real(f"y{i}") for i in range(2)]
            assume_not_ndv(cx, D + E)
            p.add_data({"pd": {"values": mk_array(X, D, (2,), "float64")}})
            c.add_data({"cd": {"values": mk_array(X, E, (2,), "float64"), "association": "CELL"}})
            before = flat(tree(g))
            g2 = g.copy(parent=tws if cross else None, copy_children=True)
            cx.prove(type(g2) is type(g) and g2 is not g and g2.name == g.name, "the copy is a distinct group of the same class and name",
                     "subtree reproduced")
            _prove_same(cx, flat(tree(g2)), before, "copied subtree vs source subtree", "subtree reproduced")
            if not cross:
                ids = lambda grp: {x.uid for x in ws.fetch_children(grp, recursively=True)} if False else set()  # noqa: E731
            # edit inside the copy
            p2 = [x for x in g2.children if x.name == "pts"][0]
            p2.vertices = mk_array(X, [i + 100.0 for i in range(6)], (2, 3), "float64")
            [d for d in p2.children if d.name == "pd"][0].values = mk_array(X, [5.0, 6.0], (2,), "float64")
            _prove_same(cx, flat(tree(g)), before, "source subtree after the copy was edited", "edits do not show through")
            live2 = flat(tree(g2))
            copy_before = dict(before)
            if self.params.get("edit_copy"):
                # the copy grows: a new hole with a log of its own is added to the COPY only
                from geoh5py.objects import Drillhole

                def attr_names(grp):
                    return sorted(str(a.get("Name")) for a in (grp.concatenated_attributes or {}).get("Attributes", []))
                names_before = attr_names(g)
                nh = Drillhole.create(g2.workspace, parent=g2, name="extra", collar=mk_array(X, [1.0, 2.0, 3.0], (3,), "float64"),
                                      surveys=mk_array(X, [0.0, 0.0, -90.0, 10.0, 0.0, -90.0], (2, 3), "float64"))
                nh.add_data({"other": {"depth": mk_array(X, [1.0, 2.0], (2,), "float64"),
                                       "values": mk_array(X, [41.0, 42.0], (2,), "float64")}})
                cx.prove(attr_names(g) == names_before,
                         f"the source group's concatenated attributes list the same entities after the copy gained a hole "
                         f"({len(names_before)} before, {len(attr_names(g))} after)", "edits do not show through")
                _prove_same(cx, flat(holes_of(g)), before, "source holes after the copy gained a hole", "edits do not show through")
                copy_before = flat(holes_of(g2))
                cx.prove(any(k.startswith("extra") for k in copy_before), "the copy shows its new hole", "edits do not show through")
            ug, ug2 = g.uid, g2.uid
            if cross:
                t2, gg2 = _reread(tws, ug2)
                w2, gg = _reread(ws, ug)
            else:
                w2, gg = _reread(ws, ug)
                t2, gg2 = None, w2.get_entity(ug2)[0]
            _prove_same(cx, flat(tree(gg)), before, "source subtree re-read from its file", "stored")
            _prove_same(cx, flat(tree(gg2)), live2, "edited copy of the subtree re-read from its file", "stored")
            w2.close()
            if t2 is not None:
                t2.close()
            return "ok"


class CopyDrillholeGroup(_H5Scenario):
    """copy a drillhole group (concatenated storage): every hole with its data is reproduced (symbolic values on one
    hole), so are the group's ordinary children (comments); the source group, live and re-read, is undisturbed"""
    pid = "C12"
    builtins_for = DH

    def body(self, cx):
        from geoh5py.workspace import Workspace
        from .c04 import _build_group
        cross, sizes, target = self.params["cross"], self.params["sizes"], self.params["target"]
        h5shim.reset()
        patch.STUBS_USED.add("h5py -> symx.h5shim proxy over the real in-memory HDF5 files (seam B, A-H5)")
        ws, g, holes, depth_d, val_d = _build_group(sizes)
        g.add_comment("logged by crew B", author="geologist")
        tws = Workspace() if cross else ws

        def holes_of(grp):
            out = {}
            for h in grp.children:
                if not hasattr(h, "collar"):
                    continue
                out[h.name] = {"collar": _norm(h.collar), "surveys": _norm(h.surveys), "end_of_hole": _norm(h.end_of_hole),
                               # concatenated children are loaded on demand: list them by name
                               "data": {n_: _norm(h.get_data(n_)[0].values) for n_ in h.get_data_list() if h.get_data(n_)}}
            return out

        def extras_of(grp):
            out = {}
            for c in grp.children:
                if hasattr(c, "collar"):
                    continue
                out[f"{type(c).__name__}:{c.name}"] = _norm(getattr(c, "values", None))
            return out

        def flat(hs):
            return {f"{hn}.{k}" if k != "data" else f"{hn}/{dn}": (v if k != "data" else dv)
                    for hn, rec in hs.items() for k, v in rec.items() for dn, dv in (v.items() if k == "data" else [(None, None)])}
        ws.close()
        with self.engine(cx) as X:
            # a later session: every array is read through the model (nothing cached from the construction above)
            ws = Workspace(ws.h5file)
            g = [x for x in ws.groups if x.name == "DH"][0]
            n = sizes[target]
            newv = [cx.real(f"x{i}") for i in range(n)]
            assume_not_ndv(cx, newv)
            hole = [h for h in g.children if getattr(h, "name", None) == f"h{target}"][0]
            hole.get_data("lbl")[0].values = mk_array(X, newv, (n,), "float64")
            before, extras_before = flat(holes_of(g)), extras_of(g)
            g2 = g.copy(parent=tws if cross else None)
            # concatenator classes are built per entity (type("Concatenator" + name, ...)): compare name and bases
            cx.prove(type(g2).__name__ == type(g).__name__ and type(g2).__bases__ == type(g).__bases__ and g2 is not g
                     and g2.name == g.name, "the copy is a distinct drillhole group of the same class and name", "holes reproduced")
            _prove_same(cx, flat(holes_of(g2)), before, "holes of the copy vs holes of the source", "holes reproduced")
            _prove_same(cx, extras_of(g2), extras_before, "ordinary children of the group (comments)", "holes reproduced")
            _prove_same(cx, flat(holes_of(g)), before, "source holes after the copy", "source undisturbed")
            copy_before = dict(before)
            if self.params.get("edit_copy"):
                # the copy grows: a new hole with a log of its own is added to the COPY only
                from geoh5py.objects import Drillhole

                def attr_names(grp):
                    return sorted(str(a.get("Name")) for a in (grp.concatenated_attributes or {}).get("Attributes", []))
                names_before = attr_names(g)
                nh = Drillhole.create(g2.workspace, parent=g2, name="extra", collar=mk_array(X, [1.0, 2.0, 3.0], (3,), "float64"),
                                      surveys=mk_array(X, [0.0, 0.0, -90.0, 10.0, 0.0, -90.0], (2, 3), "float64"))
                nh.add_data({"other": {"depth": mk_array(X, [1.0, 2.0], (2,), "float64"),
                                       "values": mk_array(X, [41.0, 42.0], (2,), "float64")}})
                cx.prove(attr_names(g) == names_before,
                         f"the source group's concatenated attributes list the same entities after the copy gained a hole "
                         f"({len(names_before)} before, {len(attr_names(g))} after)", "edits do not show through")
                _prove_same(cx, flat(holes_of(g)), before, "source holes after the copy gained a hole", "edits do not show through")
                copy_before = flat(holes_of(g2))
                cx.prove(any(k.startswith("extra") for k in copy_before), "the copy shows its new hole", "edits do not show through")
            ug, ug2 = g.uid, g2.uid
            if cross:
                t2, gg2 = _reread(tws, ug2)
                w2, gg = _reread(ws, ug)
            else:
                w2, gg = _reread(ws, ug)
                t2, gg2 = None, w2.get_entity(ug2)[0]
            cx.prove(gg is not None and gg2 is not None, "both groups found again in their files", "stored")
            if gg is not None:
                _prove_same(cx, flat(holes_of(gg)), before, "source holes re-read from the file", "stored")
                _prove_same(cx, extras_of(gg), extras_before, "source comments re-read", "stored")
            if gg2 is not None:
                _prove_same(cx, flat(holes_of(gg2)), copy_before, "holes of the copy re-read from its file", "stored")
                _prove_same(cx, extras_of(gg2), extras_before, "comments of the copy re-read", "stored")
            w2.close()
            if t2 is not None:
                t2.close()
            return "ok"


class CopySurvey(_H5Scenario):
    """copy the receivers of an airborne time-domain EM survey (symbolic vertices and component values; channels, unit, loop
    radius and one data component in the EM metadata) to the same or another workspace, with or without children; then add a
    second component to the COPY: the source's EM metadata, property groups and data stay what they were, live and re-read."""
    pid = "C12"

    @staticmethod
    def _em(ent):
        import copy as pycopy
        import uuid
        md = (ent.metadata or {}).get("EM Dataset", {})
        return {k: pycopy.deepcopy(v) for k, v in md.items() if not isinstance(v, (uuid.UUID, type(None)))}

    def body(self, cx):
        import warnings
        from geoh5py.workspace import Workspace
        from geoh5py.objects import AirborneTEMReceivers, AirborneTEMTransmitters
        cross, with_children = self.params["cross"], self.params["children"]
        h5shim.reset()
        patch.STUBS_USED.add("h5py -> symx.h5shim proxy over the real in-memory HDF5 files (seam B, A-H5)")
        n = 3
        ws = Workspace()
        rx = AirborneTEMReceivers.create(ws, vertices=real_np.c_[real_np.arange(n) * 10.0, real_np.zeros(n), real_np.ones(n)], name="rx")
        tx = AirborneTEMTransmitters.create(ws, vertices=real_np.c_[real_np.arange(n) * 10.0, real_np.zeros(n), real_np.ones(n)] + 5.0, name="tx")
        rx.transmitters = tx
        rx.channels = [1.0, 2.0]
        rx.unit = "Microseconds (us)"
        rx.loop_radius = 12.5
        other = Workspace() if cross else None
        warnings.simplefilter("ignore")
        with self.engine(cx) as X:
            V = [cx.real(f"v{i}{a}") for i in range(n) for a in "xyz"]
            rx.vertices = mk_array(X, V, (n, 3), "float64")
            tx.vertices = mk_array(X, [float(10 * i + 5 if a == 0 else 5 + (a == 2)) for i in range(n) for a in range(3)], (n, 3), "float64")
            for ent in (rx, tx):
                ent.cells = mk_array(X, [0, 1, 1, 2], (2, 2), "uint32")
            D = [[cx.real(f"d{c}_{i}") for i in range(n)] for c in range(2)]
            for row in D:
                assume_not_ndv(cx, row)
            rx.add_components_data({"dBdt": {f"ch{c}": {"values": mk_array(X, D[c], (n,), "float64")} for c in range(2)}})
            if self.params.get("reopen_first"):
                ruid = rx.uid
                ws.close()
                ws = Workspace(ws.h5file)
                rx = ws.get_entity(ruid)[0]
            tx = rx.transmitters
            before, kids_before, pgs_before, em_before = _snapshot(rx), _children_snapshot(rx), _pg_snapshot(rx), self._em(rx)
            em_tx_before = self._em(tx)
            cx.prove(em_before.get("Property groups") == ["dBdt"] and em_before.get("Channels") == [1.0, 2.0],
                     "the source lists its component and channels (scenario sanity)", "copy equals source")
            try:
                cp = rx.copy(parent=other, copy_children=with_children)
            except Exception as e:  # noqa: BLE001
                cx.prove(False, f"copy of a valid survey is produced (raised {type(e).__name__}: {e})", "copy equals source")
                return "copy raised"
            cx.prove(type(cp) is type(rx) and cp is not rx, "the copy is a distinct entity of the source's class", "copy equals source")
            snap_cp = _snapshot(cp)
            for k in ("vertices", "name"):
                cx.prove(_same(snap_cp.get(k), before.get(k)), f"copy vs source: '{k}' equal", "copy equals source")
            em_cp = self._em(cp)
            for k, v in em_before.items():
                if k == "Property groups" and not with_children:
                    cx.prove(em_cp.get(k, []) == [], "a copy without children lists no data component", "children copied")
                else:
                    cx.prove(em_cp.get(k) == v, f"copy vs source: EM metadata '{k}' equal", "copy equals source")
            if with_children:
                _prove_same(cx, _children_snapshot(cp), kids_before, "copied children vs source children", "children copied")
                _prove_same(cx, _pg_snapshot(cp), pgs_before, "property groups of the copy (by data name)", "children copied")
            else:
                cx.prove(not _children_snapshot(cp), "no data copied when copy_children is off", "children copied")
            _prove_same(cx, _snapshot(rx), before, "source after the copy", "source undisturbed")
            cx.prove(self._em(rx) == em_before, "source EM metadata after the copy", "source undisturbed")
            # edit the copy: a second component, other channels values stay, new loop radius
            E = [[float(100 + 10 * c + i) for i in range(n)] for c in range(2)]
            cp.add_components_data({"dBdz": {f"z{c}": {"values": mk_array(X, E[c], (n,), "float64")} for c in range(2)}})
            cp.loop_radius = 99.0
            cx.prove(self._em(rx) == em_before, "source EM metadata after the copy gained a component", "edits do not show through")
            cx.prove(self._em(rx.transmitters) == em_tx_before, "source transmitters' EM metadata after the copy gained a component",
                     "edits do not show through")
            _prove_same(cx, _pg_snapshot(rx), pgs_before, "source property groups after the copy was edited", "edits do not show through")
            _prove_same(cx, _children_snapshot(rx), kids_before, "source children after the copy was edited", "edits do not show through")
            rx.unit = "Milliseconds (ms)"      # the source's metadata is written again
            em_exp = dict(em_before, Unit="Milliseconds (ms)")
            cx.prove(self._em(rx) == em_exp, "source EM metadata after its own later edit", "edits do not show through")
            cx.prove("dBdz" in self._em(cp).get("Property groups", []) and self._em(cp).get("Loop radius") == 99.0,
                     "the edited copy shows its new component and loop radius", "edits do not show through")
            ruid = rx.uid
            ws2, rx2 = _reread(ws, ruid)
            cx.prove(rx2 is not None, "source found again in its file", "stored")
            if rx2 is not None:
                cx.prove(self._em(rx2) == em_exp, f"source EM metadata re-read ({self._em(rx2)})", "stored")
                _prove_same(cx, _pg_snapshot(rx2), pgs_before, "source property groups re-read", "stored")
                _prove_same(cx, _children_snapshot(rx2), kids_before, "source children re-read", "stored")
            ws2.close()
            return "ok"


def scenarios(tier, seed):
    S = []
    targets = ["same", "group", "other"]
    for cls in SOURCES:
        for t in targets:
            for ch in (True, False):
                if tier == "quick" and not ch and t != "other":
                    continue
                S.append(CopyObject(cls=cls, target=t, children=ch))
                if ch and (tier != "quick" or t == "other"):
                    S.append(CopyObject(cls=cls, target=t, children=ch, reopen_first=True))
                if cls in ("Points", "Curve") and (tier != "quick" or t != "group"):
                    S.append(CopyObject(cls=cls, target=t, children=ch, visual=True))
    for kind in ("float", "integer", "referenced"):
        for cross in (False, True):
            S.append(CopyData(kind=kind, cross=cross))
    S += [CopyGroup(cross=False), CopyGroup(cross=True)]
    for cross in (False, True):
        for ch in (True, False):
            S.append(CopySurvey(cross=cross, children=ch))
    if tier != "quick":
        S += [CopySurvey(cross=c_, children=True, reopen_first=True) for c_ in (False, True)]
    S += [CopyDrillholeGroup(cross=True, sizes=[2, 1], target=0), CopyDrillholeGroup(cross=False, sizes=[1, 2], target=1),
          CopyDrillholeGroup(cross=True, sizes=[2, 1], target=1, edit_copy=True), CopyDrillholeGroup(cross=False, sizes=[1, 1], target=0, edit_copy=True)]
    return S


def main(tier, seed):
    return run_property(
        "C12", scenarios(tier, seed), tier, seed,
        assumptions=["symbolic: vertices, cells (in range), origins, cell sizes, rotation, dip, delimiters, octree cells, layers, "
                     "prisms, collar, surveys, cost, end of hole, float / integer data values; concrete: names, flags, metadata, "
                     "text data, value maps, property-group membership",
                     "A-H5: symbolic payloads are kept beside the real HDF5 files by a proxy and handed back unchanged",
                     "float data values differ from the float no-data sentinel (documented exception)"],
        outside=["survey classes other than airborne time-domain EM receivers (CopySurvey); partner links of surveys (C20)",
                 "editing the copy of a drillhole group other than adding one hole with one log to it (value edits are decided under C04, CopyGroupThenEdit)",
                 "masked copies and copies by extent (C07 MaskedCopy, C13)", "geo-images, file-name data, visual parameters",
                 "copy options other than parent / copy_children (clear_cache is exercised under C07)"],
        bounds="one object per class {Points, Curve, Surface, Grid2D 2x3, BlockModel 2x1x2, Octree, DrapeModel, Drillhole} with 2-6 "
               "data values x targets {same parent, another group, another workspace} x children {copied, not copied}; data copies of "
               "3 values x {float, integer, referenced} x {same, other workspace}; one two-level group subtree x {same, other workspace}",
        expected_outcomes={"CopyObject": {"ok"}, "CopyData": {"ok"}, "CopyGroup": {"ok"}, "CopyDrillholeGroup": {"ok"}, "CopySurvey": {"ok"}},
    )
