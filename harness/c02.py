"""C02 -- every file the library writes is a structurally valid geoh5 file (symx path exploration + structural validator).

The operation sequences of C01 (operation at each step chosen symbolically, numeric payloads symbolic) are re-used; after
the close the HDF5 file is opened with real h5py and the layout rules of the statement are checked on it.  The solver's
part here is the choice of the sequence (every sequence of the bounded length is one explored path) and the symbolic
indices of removals; the structural rules themselves are evaluated on the concrete file."""
from __future__ import annotations

import numpy as real_np

from symx import patch, h5shim
from .common import Scenario, run_property
from .c01 import OpSequence, OPS


def validate_structure(h5file):
    """-> {rule: [problems]} for the rules of the C02 statement"""
    import h5py
    if hasattr(h5file, "seek"):
        h5file.seek(0)
    P = {r: [] for r in ("layout", "identifier", "type link", "child links", "single parent / reachable", "unique identifiers",
                         "property groups")}
    with h5py.File(h5file, "r") as f:
        tops = list(f.keys())
        if len(tops) != 1:
            P["layout"].append(f"{len(tops)} project groups")
            return P
        root = f[tops[0]]
        for cont in ("Data", "Groups", "Objects", "Types", "Root"):
            if cont not in root:
                P["layout"].append(f"missing {cont}")
        if P["layout"]:
            return P
        flat = {}
        for cont in ("Data", "Groups", "Objects"):
            for key in root[cont].keys():
                if key in flat:
                    P["unique identifiers"].append(f"{key} in {flat[key][0]} and {cont}")
                flat[key] = (cont, root[cont][key])
        types = {}
        for tc in ("Data types", "Group types", "Object types"):
            if tc in root["Types"]:
                for key in root["Types"][tc].keys():
                    if key in types:
                        P["unique identifiers"].append(f"type {key} twice")
                    types[key] = root["Types"][tc][key]
        root_node = root["Root"]
        root_key = [k for k, (c, n) in flat.items() if n == root_node]
        if len(root_key) != 1:
            P["layout"].append("the Root link is not one of the stored groups")
        parents = {k: [] for k in flat}
        for key, (cont, node) in flat.items():
            ident = node.attrs.get("ID")
            ident = ident.decode() if isinstance(ident, bytes) else ident
            if ident != key:
                P["identifier"].append(f"{cont}/{key} has ID {ident}")
            if "Type" not in node:
                P["type link"].append(f"{cont}/{key} has no Type")
            else:
                t = node["Type"]
                tid = t.attrs.get("ID")
                tid = tid.decode() if isinstance(tid, bytes) else tid
                if tid not in types or types[tid] != t:
                    P["type link"].append(f"{cont}/{key}: Type is not the shared node under Types ({tid})")
            for sub in ("Data", "Groups", "Objects"):
                if sub in node and isinstance(node[sub], h5py.Group):
                    for ck in node[sub].keys():
                        link = node[sub].get(ck, getlink=True)
                        if not isinstance(link, h5py.HardLink):
                            P["child links"].append(f"{key}/{sub}/{ck} is a {type(link).__name__}")
                        if ck not in flat or flat[ck][0] != sub or flat[ck][1] != node[sub][ck]:
                            P["child links"].append(f"{key}/{sub}/{ck} is not the node stored under {sub}")
                        else:
                            parents[ck].append(key)
            if "PropertyGroups" in node:
                own = set(node["Data"].keys()) if "Data" in node else set()
                for pk in node["PropertyGroups"].keys():
                    props = node["PropertyGroups"][pk].attrs.get("Properties")
                    props = [] if props is None else [x.decode() if isinstance(x, bytes) else str(x) for x in real_np.atleast_1d(props)]
                    for u in props:
                        if u not in own:
                            P["property groups"].append(f"{key}: group {pk} lists {u} which is not a child of the object")
        # one parent each, all reachable from Root
        for key, ps in parents.items():
            if root_key and key == root_key[0]:
                continue
            if len(ps) != 1:
                P["single parent / reachable"].append(f"{flat[key][0]}/{key} has {len(ps)} parents")
        if root_key:
            reach, todo = set(), [root_key[0]]
            while todo:
                k = todo.pop()
                if k in reach:
                    continue
                reach.add(k)
                todo += [c for c, ps in parents.items() if k in ps]
            for key in flat:
                if key not in reach:
                    P["single parent / reachable"].append(f"{flat[key][0]}/{key} is not reachable from Root")
    return P


def _prove_structure(cx, h5file, what):
    try:
        P = validate_structure(h5file)
    except Exception as e:  # noqa: BLE001
        cx.prove(False, f"{what}: the file can be opened and walked ({type(e).__name__}: {e})", "layout")
        return
    for rule, problems in P.items():
        import re as _re
        kinds = sorted({_re.sub(r"\{?[0-9a-f]{8}-[0-9a-f-]{27}\}?", "{..}", pr) for pr in problems})
        cx.prove(not problems, f"{what}: {rule} holds ({len(problems)} problems: {kinds[:2]})", rule)


class StructureAfterSequence(OpSequence):
    pid = "C02"
    compare_tree = False
    # detaching through the parent leaves the nodes of the detached entities in the file until a listing purges them: open
    # finding F-C05-2 (recorded under C05, where `DetachThenClose` re-confirms it); the structural check leaves the call out
    skip_ops = ("detach_all_from_group",)

    def after_close(self, cx, h5file, seq):
        _prove_structure(cx, h5file, f"[{seq}]")


class StructureOther(Scenario):
    """cross-workspace copies and drillhole groups: both files are validated after each step (choices symbolic)"""
    pid = "C02"

    def body(self, cx):
        from geoh5py.workspace import Workspace
        from geoh5py.groups import ContainerGroup
        from geoh5py.objects import Points
        from .c04 import _build_group
        what = ["copy object across", "copy group across", "drillhole group: remove hole", "drillhole group: remove data",
                "drillhole group: copy across", "copy back and forth", "copy survey with its cell-id data in a property group"][int(cx.int("case", 0, 7))]
        reopen = bool(cx.bool("re-open before the step"))
        other = Workspace()
        if what.startswith("drillhole"):
            ws, g, holes, depth_d, val_d = _build_group([2, 1, 2])
            g.add_comment("note", author="me")
            if reopen:
                ws.close()
                ws = Workspace(ws.h5file)
                g = [x for x in ws.groups if x.name == "DH"][0]
                holes = sorted([h for h in g.children if hasattr(h, "collar")], key=lambda h: h.name)
            if what.endswith("remove hole"):
                ws.remove_entity(holes[1])
            elif what.endswith("remove data"):
                ws.remove_entity(holes[0].get_data("lbl")[0])
            else:
                g.copy(parent=other)
        elif what.startswith("copy survey"):
            from geoh5py.objects import CurrentElectrode
            ws = Workspace()
            verts = real_np.c_[real_np.arange(4.0), real_np.zeros(4), real_np.zeros(4)]
            ce = CurrentElectrode.create(ws, vertices=verts, parts=real_np.array([0, 0, 1, 1], dtype="int32"), name="currents")
            ce.add_default_ab_cell_id()
            extra = ce.add_data({"d": {"values": real_np.arange(ce.n_cells, dtype=float), "association": "CELL"}})
            ce.find_or_create_property_group(name="ids", properties=[ce.ab_cell_id.uid, extra.uid])
            if reopen:
                ws.close()
                ws = Workspace(ws.h5file)
                ce = ws.get_entity("currents")[0]
            try:
                ce.copy(parent=other if bool(cx.bool("to the other workspace")) else None)
            except KeyError:
                pass        # the unchanged library refuses this copy (the cell-id data is not copied as an ordinary child)
        else:
            ws = Workspace()
            grp = ContainerGroup.create(ws, name="G")
            o = Points.create(ws, vertices=real_np.zeros((3, 3)), name="O", parent=grp)
            d = o.add_data({"D1": {"values": real_np.arange(3.0)}})
            o.add_data({"D2": {"values": real_np.arange(3.0) + 1}})
            o.find_or_create_property_group(name="PG", properties=[d.uid])
            if reopen:
                ws.close()
                ws = Workspace(ws.h5file)
                grp, o = ws.get_entity("G")[0], ws.get_entity("O")[0]
            if what == "copy object across":
                o.copy(parent=other)
            elif what == "copy group across":
                grp.copy(parent=other)
            else:
                cp = o.copy(parent=other)
                cp.copy(parent=ws)          # back: identifiers are taken there, the copy gets fresh ones
                cp.copy(parent=grp)
        ws.close()
        other.close()
        _prove_structure(cx, ws.h5file, f"[{what}] source file")
        _prove_structure(cx, other.h5file, f"[{what}] target file")
        return "ok"


def scenarios(tier, seed):
    S = []
    length = 2 if tier == "quick" else 3
    for kind in ("points", "curve"):
        for first in OPS:
            if first in ("set_cells", "remove_cells") and kind == "points":
                continue
            if tier == "quick" and kind == "curve" and first not in ("remove_vertices", "remove_cells", "copy", "move"):
                continue
            S.append(StructureAfterSequence(kind=kind, first=first, length=length))
    S.append(StructureOther())
    return S


def main(tier, seed):
    return run_property(
        "C02", scenarios(tier, seed), tier, seed,
        assumptions=["the structural rules (containers, ID attributes, shared Type nodes, hard links to the flat containers, one parent, "
                     "reachability from Root, unique identifiers, property groups listing own children) are evaluated with real h5py on the "
                     "file each explored sequence leaves behind; the sequence itself (operation per step, removal indices) is symbolic",
                     "A-H5: datasets with symbolic content are real placeholder nodes in the file (their payload is irrelevant to the layout)",
                     "references to removed / detached entities are not held by the harness (open finding F-C05-2 concerns nodes left by a "
                     "detach through the parent; the sequences here remove through the workspace)"],
        outside=["surveys, grids, images, files attached; sequences longer than the bound; crash points", "files written by other versions",
                 "dataset contents and attribute values other than ID (C03 / C08)"],
        bounds={"quick": "all sequences of 2 operations from the C01 alphabet (15) on a points tree, 4 first operations on a curve tree; "
                         "6 cross-workspace / drillhole-group cases x re-open on/off",
                "thorough": "all sequences of 3 operations, points and curve; the same 12 other cases"}[tier],
        expected_outcomes={"StructureAfterSequence": {"ok"}, "StructureOther": {"ok"}},
    )
