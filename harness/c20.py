"""C20 -- linked surveys stay mutually consistent (symx path exploration; weak use of the technique).

The survey class pair, the side the link is made from, the side and kind of a later parameter edit, the kind of copy and a
re-open are symbolic choices (one explored path per combination) on the real library and a real file.  Shared parameters
are stored as JSON text in the entities' metadata, which nothing symbolic can pass through: values are concrete."""
from __future__ import annotations

import numpy as real_np

from .common import Scenario, run_property

PAIRS = ["AirborneTEM", "AirborneFEM", "MovingLoopGroundTEM", "MovingLoopGroundFEM", "LargeLoopGroundTEM", "LargeLoopGroundFEM",
         "Tipper", "DirectCurrent"]
EDITS = ["none", "channels", "unit", "input_type", "both sides in turn"]
COPIES = ["none", "plain", "other workspace", "masked"]


def _classes(pair):
    from geoh5py.objects import surveys  # noqa: F401
    import geoh5py.objects as O
    if pair == "Tipper":
        return O.TipperReceivers, O.TipperBaseStations, "base_stations", "receivers"
    if pair == "DirectCurrent":
        return O.PotentialElectrode, O.CurrentElectrode, "current_electrodes", "potential_electrodes"
    return getattr(O, pair + "Receivers"), getattr(O, pair + "Transmitters"), "transmitters", "receivers"


def _meta_ids(ent):
    """identifiers recorded in the entity's metadata block, by role"""
    md = ent.metadata or {}
    block = md.get("EM Dataset", md)
    out = {}
    for k, v in block.items():
        if k in ("Receivers", "Transmitters", "Base stations", "Current Electrodes", "Potential Electrodes"):
            out[k] = str(v).strip("{}")
    return out


def _shared(ent):
    md = ent.metadata or {}
    block = dict(md.get("EM Dataset", {}))
    for k in ("Receivers", "Transmitters", "Base stations", "Property groups", "Tx ID property"):
        block.pop(k, None)
    return block


class Relink(Scenario):
    """a partner is linked elsewhere from its own side and the link is then restored from the other side (optionally in a later
    session): both entities record and resolve each other again"""
    pid = "C20"

    def body(self, cx):
        from geoh5py.workspace import Workspace
        pair = self.params["pair"]
        RX, TX, rx_to_tx, tx_to_rx = _classes(pair)
        reopen = bool(cx.bool("reopened_after_the_first_link"))
        restore_sym = cx.bool("restored_from_the_receiver_side")
        em = pair in ("AirborneTEM", "AirborneFEM", "MovingLoopGroundTEM", "MovingLoopGroundFEM", "Tipper")
        self.known_class(cx, "link_restored_from_the_receiver_side_after_relinking", restore_sym if em else False)
        restore_from_rx = bool(restore_sym)
        if pair.startswith("LargeLoop"):
            return "not built for large loops"
        ws = Workspace()
        verts = real_np.c_[real_np.arange(4, dtype=float), real_np.zeros(4), real_np.zeros(4)]
        if pair == "DirectCurrent":
            tx = TX.create(ws, vertices=verts, parts=real_np.array([0, 0, 1, 1], dtype="int32"), name="tx")
            tx.add_default_ab_cell_id()
            mk = lambda nm: RX.create(ws, vertices=verts + 0.5, parts=real_np.array([0, 0, 1, 1], dtype="int32"), name=nm)   # noqa: E731
        else:
            tx = TX.create(ws, vertices=verts + 0.5, name="tx")
            mk = lambda nm: RX.create(ws, vertices=verts, name=nm)      # noqa: E731
        rx, rx_b = mk("rx"), mk("rx_b")
        if pair == "DirectCurrent":
            rx.ab_cell_id = real_np.array([1, 2], dtype="int32")
            rx_b.ab_cell_id = real_np.array([1, 2], dtype="int32")
        setattr(rx, rx_to_tx, tx)
        if reopen:
            u = (rx.uid, rx_b.uid, tx.uid)
            ws.close()
            ws = Workspace(ws.h5file)
            rx, rx_b, tx = (ws.get_entity(x)[0] for x in u)
        try:
            setattr(tx, tx_to_rx, rx_b)         # the partner is linked elsewhere from its own side
            if restore_from_rx:
                setattr(rx, rx_to_tx, tx)
            else:
                setattr(tx, tx_to_rx, rx)
        except AttributeError as e:
            if "cannot be set" in str(e):
                return "this side cannot make the link"
            raise
        what = f"[{pair}, relinked, restored from {'rx' if restore_from_rx else 'tx'}]"
        u = (rx.uid, tx.uid)
        ws.close()
        ws2 = Workspace(ws.h5file)
        rx2, tx2 = ws2.get_entity(u[0])[0], ws2.get_entity(u[1])[0]
        for a_rx, a_tx, tag in ((rx, tx, "live"), (rx2, tx2, "after re-opening")):
            p_of_rx, p_of_tx = getattr(a_rx, rx_to_tx, None), getattr(a_tx, tx_to_rx, None)
            cx.prove(p_of_rx is not None and p_of_rx.uid == u[1], f"{what} {tag}: the receivers resolve the restored partner", "partners resolve")
            cx.prove(p_of_tx is not None and p_of_tx.uid == u[0], f"{what} {tag}: the partner resolves the receivers it was restored to",
                     "partners resolve")
            ir, it = _meta_ids(a_rx), _meta_ids(a_tx)
            cx.prove(ir == it and str(u[0]) in ir.values() and str(u[1]) in ir.values(),
                     f"{what} {tag}: both identifiers are recorded on both entities", "both ids on both")
        ws2.close()
        return "ok"


class LinkedPair(Scenario):
    pid = "C20"

    def body(self, cx):
        from geoh5py.workspace import Workspace
        pair = self.params["pair"]
        from_rx = bool(cx.bool("linked_from_the_receiver_side"))
        edit = EDITS[int(cx.int("edit", 0, len(EDITS)))]
        edit_rx = bool(cx.bool("edited_through_the_receiver_side"))
        copy_kind = self.params["copy"]
        inspected = bool(cx.bool("partners_inspected_before_the_edit"))
        later_session = bool(cx.bool("edit_made_in_a_later_session"))
        copy_rx = bool(cx.bool("copied_side_is_the_receivers"))
        reopen = bool(cx.bool("reopened_before_the_checks"))
        RX, TX, rx_to_tx, tx_to_rx = _classes(pair)
        ws = Workspace()
        n = 4
        verts = real_np.c_[real_np.arange(n, dtype=float), real_np.zeros(n), real_np.zeros(n)]
        kw = {}
        if pair == "DirectCurrent":
            tx = TX.create(ws, vertices=verts, parts=real_np.array([0, 0, 1, 1], dtype="int32"), name="tx")
            tx.add_default_ab_cell_id()
            rx = RX.create(ws, vertices=verts + 0.5, parts=real_np.array([0, 0, 1, 1], dtype="int32"), name="rx")
            rx.ab_cell_id = real_np.array([1, 2], dtype="int32")
        elif pair.startswith("LargeLoop"):
            # two closed loops of four corners, two receiver lines of three stations (one per loop), as in the library's own example
            rxv, txv, txc, txid = [], [], [], []
            for ind in range(3):                # three loops; the middle one has no receiver line
                off = 500.0 * ind
                if ind != 1:
                    rxv.append(real_np.c_[real_np.linspace(-10, 10, 3), real_np.zeros(3) + off, real_np.zeros(3)])
                    txid.append(real_np.ones(3) * (ind + 1))
                txv.append(real_np.c_[[-100.0, -100.0, 100.0, 100.0], real_np.array([-100.0, 100.0, 100.0, -100.0]) + off, real_np.zeros(4)])
                c0 = 4 * ind
                txc += [[c0, c0 + 1], [c0 + 1, c0 + 2], [c0 + 2, c0 + 3], [c0 + 3, c0]]
            rx = RX.create(ws, vertices=real_np.vstack(rxv), name="rx")
            tx = TX.create(ws, vertices=real_np.vstack(txv), cells=real_np.array(txc, dtype="int32"), name="tx")
            tx.tx_id_property = tx.parts + 1
            rx.tx_id_property = real_np.hstack(txid)
        else:
            rx = RX.create(ws, vertices=verts, name="rx", **kw)
            tx = TX.create(ws, vertices=verts + 0.5, name="tx", **kw)
        # link from one side
        try:
            if from_rx:
                setattr(rx, rx_to_tx, tx)
            else:
                setattr(tx, tx_to_rx, rx)
        except AttributeError as e:
            if "cannot be set" in str(e):
                return "this side cannot make the link"
            raise
        what = f"[{pair}, linked from {'rx' if from_rx else 'tx'}"

        def check_link(a_rx, a_tx, tag):
            cx.prove(getattr(a_rx, rx_to_tx, None) is not None and getattr(a_rx, rx_to_tx).uid == a_tx.uid,
                     f"{what}] {tag}: the receivers resolve their partner", "partners resolve")
            cx.prove(getattr(a_tx, tx_to_rx, None) is not None and getattr(a_tx, tx_to_rx).uid == a_rx.uid,
                     f"{what}] {tag}: the transmitters / base stations / currents resolve their partner", "partners resolve")
            ir, it = _meta_ids(a_rx), _meta_ids(a_tx)
            cx.prove(ir == it and str(a_rx.uid) in ir.values() and str(a_tx.uid) in ir.values(),
                     f"{what}] {tag}: both identifiers are recorded on both entities ({ir} / {it})", "both ids on both")
        if inspected:
            check_link(rx, tx, "after linking")
        if later_session:       # the entities are re-read: nothing is cached about the partner
            urx0, utx0 = rx.uid, tx.uid
            ws.close()
            ws = Workspace(ws.h5file)
            rx, tx = ws.get_entity(urx0)[0], ws.get_entity(utx0)[0]
        # edit shared parameters through one side
        side = rx if edit_rx else tx
        other = tx if edit_rx else rx
        try:
            if pair != "DirectCurrent" and edit != "none":
                if edit in ("channels", "both sides in turn"):
                    side.channels = [1.0, 2.5, 10.0]
                if edit == "unit":
                    side.unit = side.default_units[-1]
                if edit == "input_type" and side.default_input_types:
                    side.input_type = side.default_input_types[-1]
                if edit == "both sides in turn":
                    other.channels = [3.0, 4.0]
        except Exception as e:  # noqa: BLE001
            cx.prove(False, f"{what}, {edit} through {'rx' if edit_rx else 'tx'}] a valid edit of a shared parameter is accepted "
                            f"({type(e).__name__}: {str(e)[:70]})", "edits visible on both")
            return "edit raised"
        if pair != "DirectCurrent":
            cx.prove(_shared(rx) == _shared(tx), f"{what}, {edit} through {'rx' if edit_rx else 'tx'}] shared parameters are equal on both sides "
                                                f"(rx {_shared(rx)} / tx {_shared(tx)})", "edits visible on both")
            if edit in ("channels",):
                cx.prove(list(other.channels) == [1.0, 2.5, 10.0], f"{what}, {edit}] the edit is visible through the other side", "edits visible on both")
            if edit == "both sides in turn":
                cx.prove(list(rx.channels) == [3.0, 4.0] and list(tx.channels) == [3.0, 4.0], f"{what}, {edit}] the last edit wins on both sides",
                         "edits visible on both")
        shared_live = _shared(rx) if pair != "DirectCurrent" else None
        check_link(rx, tx, "after the edit")
        # copy one side
        cp = None
        other_ws = None
        if copy_kind != "none":
            src = rx if copy_rx else tx
            try:
                if copy_kind == "plain":
                    cp = src.copy()
                elif copy_kind == "other workspace":
                    other_ws = Workspace()
                    cp = src.copy(parent=other_ws)
                else:
                    mask = real_np.arange(src.n_vertices) < src.n_vertices // 2       # the first half (for large loops: the first loop / line)
                    cp = src.copy(mask=mask)
            except Exception as e:  # noqa: BLE001
                cx.prove(False, f"{what}] copying the {'receivers' if copy_rx else 'other side'} ({copy_kind}) succeeds ({type(e).__name__}: {str(e)[:60]})",
                         "copies")
                return "copy raised"
            if cp is None:
                return "masked copy selected nothing"
            comp = getattr(cp, rx_to_tx if copy_rx else tx_to_rx, None)
            orig_comp = tx if copy_rx else rx
            cx.prove(comp is not None, f"{what}] copying one side ({copy_kind}) also copies its partner", "copies")
            if comp is not None:
                cx.prove(comp is not orig_comp and (other_ws is not None or comp.uid != orig_comp.uid),
                         f"{what}] the copy ({copy_kind}) is linked to a copy of the partner, not to the original", "copies")
                back = getattr(comp, tx_to_rx if copy_rx else rx_to_tx, None)
                cx.prove(back is not None and back.uid == cp.uid, f"{what}] the copied partner ({copy_kind}) points back at the copy", "copies")
                ic, ip = _meta_ids(cp), _meta_ids(comp)
                cx.prove(ic == ip and str(cp.uid) in ic.values() and str(comp.uid) in ic.values(),
                         f"{what}] the copies ({copy_kind}) record each other's identifiers ({ic} / {ip})", "copies")
                if other_ws is None:
                    cx.prove(str(rx.uid) not in ic.values() or cp.uid == rx.uid, f"{what}] the copies do not refer to the originals", "copies")
            if pair.startswith("LargeLoop") and comp is not None and copy_kind in ("plain", "other workspace"):
                # every copied station refers to a copied loop with the geometry of the loop its original refers to
                c_rx, c_tx = (cp, comp) if copy_rx else (comp, cp)

                def loops(r, t):
                    ids_t = [int(v) for v in t.tx_id_property.values]
                    out = []
                    for sid in [int(v) for v in r.tx_id_property.values]:
                        out.append(sorted(tuple(float(x) for x in t.vertices[q]) for q in range(t.n_vertices) if ids_t[q] == sid))
                    return out
                try:
                    same_loops = loops(c_rx, c_tx) == loops(rx, tx)
                except Exception:  # noqa: BLE001
                    same_loops = False
                cx.prove(same_loops, f"{what}] after the {copy_kind} copy every copied station refers to a loop with the geometry of its "
                                     f"original's loop", "copies")
            check_link(rx, tx, f"after the {copy_kind} copy (originals)")
        # re-open
        if reopen:
            urx, utx = rx.uid, tx.uid
            ucp = cp.uid if cp is not None and other_ws is None else None
            ws.close()
            ws2 = Workspace(ws.h5file)
            rx2, tx2 = ws2.get_entity(urx)[0], ws2.get_entity(utx)[0]
            cx.prove(rx2 is not None and tx2 is not None, f"{what}] both entities are found after re-opening", "partners resolve")
            if rx2 is not None and tx2 is not None:
                check_link(rx2, tx2, "after re-opening")
                if shared_live is not None:
                    cx.prove(_shared(rx2) == shared_live and _shared(tx2) == shared_live,
                             f"{what}, {edit}] the shared parameters are stored (rx {_shared(rx2)} / expected {shared_live})", "edits stored")
            if ucp is not None:
                cp2 = ws2.get_entity(ucp)[0]
                comp2 = getattr(cp2, rx_to_tx if copy_rx else tx_to_rx, None) if cp2 is not None else None
                cx.prove(cp2 is not None and comp2 is not None and comp2.uid not in (urx, utx),
                         f"{what}] after re-opening the copy ({copy_kind}) still resolves its own partner", "copies")
            ws2.close()
        return "ok"


def scenarios(tier, seed):
    return [LinkedPair(pair=p, copy=c) for p in PAIRS for c in COPIES] + [Relink(pair=p) for p in PAIRS]


def main(tier, seed):
    return run_property(
        "C20", scenarios(tier, seed), tier, seed,
        assumptions=["symbolic choices only: linking side, edited parameter and side, copy kind and side, re-open; values concrete (shared "
                     "parameters are JSON text inside the metadata: no symbolic value survives json.dumps)",
                     "one pair of 4 stations per class pair; large-loop pairs carry a transmitter-identifier property (2 loops)"],
        outside=["data components and their property groups; waveform / timing tables; more than one receiver set per transmitter",
                 "sequences of more than one edit (except channels through both sides in turn) and more than one copy"],
        bounds="class pair (8: airborne / ground moving-loop / ground large-loop x time / frequency domain, tipper, direct current) x linking "
               "side x edit {none, channels, unit, input type, channels through both sides} x edited side x copy {none, plain, other "
               "workspace, masked} x copied side x re-open",
        expected_outcomes={"LinkedPair": {"ok"}, "Relink": {"ok"}}, validate_max=0,
    )
