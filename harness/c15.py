"""C15 -- ui.json validation accepts exactly the valid values, statelessly (xh: CrossHair on the real kernels)."""
from __future__ import annotations

from xh.runner import Cond, run_xh

PRELUDE = '''
from typing import Optional, Union, List, Tuple
from copy import deepcopy
from geoh5py.ui_json.utils import requires_value
from geoh5py.ui_json.validation import InputValidation
from geoh5py.ui_json.enforcers import EnforcerPool, TypeEnforcer, ValueEnforcer
from geoh5py.ui_json.parameters import (Parameter, StringParameter, IntegerParameter, BoolParameter,
                                         ValueRestrictedParameter, TypeRestrictedParameter,
                                         TypeUIDRestrictedParameter)
from geoh5py.ui_json.forms import StringFormParameter, BoolFormParameter, IntegerFormParameter
from geoh5py.shared.validators import TypeValidator, ValueValidator, OptionalValidator, RequiredValidator, ShapeValidator
from geoh5py.shared.exceptions import BaseValidationError

Val = Union[None, bool, int, str]


def _small(v):
    return (not isinstance(v, str) or len(v) <= 1) and (not isinstance(v, int) or isinstance(v, bool) or -1 <= v <= 2)


ALPHA = [None, True, 0, 1, 2, "", "a", "c"]


def _accepts(fn, *a):
    try:
        fn(*a)
        return True
    except BaseValidationError:
        return False
'''

CONDS = [
    Cond("requires_value_matches_reference", '''
def requires_value_matches_reference(opt: bool, en: bool, has_opt: bool, has_dep: bool, dep_opt_state: int, dep_en: bool,
                                     dep_val: bool, dtype_enabled: bool, has_group: bool, gopt: bool, gen: bool) -> bool:
    """
    pre: 0 <= dep_opt_state < 3
    post: _
    """
    dep_opt = dep_opt_state == 2          # 0: no 'optional' member, 1: explicit False, 2: True
    form = {"label": "a", "value": 1}
    if has_opt:
        form["optional"] = opt
        form["enabled"] = en
    dep = {"label": "d", "value": dep_val}
    if dep_opt_state:
        dep["optional"] = dep_opt
        dep["enabled"] = dep_en
    if has_dep:
        form["dependency"] = "d"
        form["dependencyType"] = "enabled" if dtype_enabled else "disabled"
    g = {"label": "g", "value": 1}
    if has_group:
        form["group"] = "G"
        g["group"] = "G"
        if gopt:
            g["groupOptional"] = True
            g["enabled"] = gen
    ui = {"p": form, "d": dep, "g": g}
    got = requires_value(ui, "p")
    # reference written from the documented hierarchy: groupOptional > dependency > optional
    if has_group and gopt and not gen:
        exp = False
    elif has_dep:
        key_val = dep_en if dep_opt else dep_val
        exp = key_val if dtype_enabled else (not key_val)
        if has_opt and exp:
            exp = en
    elif has_opt:
        exp = en
    else:
        exp = True
    return bool(got) == bool(exp)
''', "requires_value == reference hierarchy (groupOptional > dependency > optional) for every combination of the 11 switches (the dependency's 'optional' member absent / False / True)"),

    Cond("simple_form_accepts_iff_valid", '''
def simple_form_accepts_iff_valid(value: Val, form_value: Union[bool, int, str], has_optional: bool, optional: bool,
                                  enabled: bool) -> bool:
    """
    pre: _small(value) and _small(form_value)
    post: _
    """
    form = {"label": "x", "value": form_value}
    if has_optional:
        form["optional"] = optional
        form["enabled"] = enabled
    v = InputValidation(ui_json={"p": form})
    ok = _accepts(v.validate, "p", value)
    required = True if not has_optional else enabled
    exp = (value is None and not required) or isinstance(value, type(form_value))
    return ok == exp
''', "a value form accepts v iff isinstance(v, declared type) or (v is None and the form does not require a value)"),

    Cond("choice_form_accepts_iff_member", '''
def choice_form_accepts_iff_member(value: Val, c0: str, c1: str, has_optional: bool, enabled: bool) -> bool:
    """
    pre: _small(value) and len(c0) <= 2 and len(c1) <= 2
    post: _
    """
    form = {"label": "x", "value": c0, "choiceList": [c0, c1]}
    if has_optional:
        form["optional"] = True
        form["enabled"] = enabled
    v = InputValidation(ui_json={"p": form})
    ok = _accepts(v.validate, "p", value)
    required = True if not has_optional else enabled
    exp = (value is None and not required) or (isinstance(value, str) and value in (c0, c1))
    return ok == exp
''', "a choice form accepts v iff v is one of the listed strings, or None when no value is required"),

    Cond("enforcer_pool_stateless", '''
def enforcer_pool_stateless(i1: int, i2: int, i3: int) -> bool:
    """
    pre: 0 <= i1 < 8 and i2 == i1 and 0 <= i3 < 8
    post: _
    """
    v1, v2, v3 = ALPHA[i1], ALPHA[i2], ALPHA[i3]
    mk = lambda: EnforcerPool("p", [TypeEnforcer({str}), ValueEnforcer({"a", "b", None})])
    used = mk()
    _accepts(used.enforce, v1)
    _accepts(used.enforce, v2)
    return _accepts(used.enforce, v3) == _accepts(mk().enforce, v3)
''', "EnforcerPool verdict on a value does not depend on earlier enforce() calls", exclusions={}),

    Cond("parameter_string_stateless_and_rejection_keeps_value", '''
def parameter_string_stateless_and_rejection_keeps_value(v0: Val, v1: Val, v2: Val) -> bool:
    """
    pre: _small(v0) and _small(v1) and _small(v2)
    post: _
    """
    mk = lambda: StringParameter("s")
    p = mk()
    def assign(par, v):
        try:
            par.value = v
            return True
        except BaseValidationError:
            return False
    assign(p, v0)
    before = p.value
    ok1 = assign(p, v1)
    if not ok1 and not (p.value is before or p.value == before):
        return False                      # a rejected assignment changed the stored value
    fresh = mk()
    return assign(p, v2) == assign(fresh, v2)
''', "Parameter (string): a rejected assignment leaves the stored value unchanged and the verdict does not depend on history"),

    Cond("parameter_integer_stateless_and_rejection_keeps_value", '''
def parameter_integer_stateless_and_rejection_keeps_value(v0: Val, v1: Val, v2: Val) -> bool:
    """
    pre: _small(v0) and _small(v1) and _small(v2)
    post: _
    """
    mk = lambda: IntegerParameter("i")
    p = mk()
    def assign(par, v):
        try:
            par.value = v
            return True
        except BaseValidationError:
            return False
    assign(p, v0)
    before = p.value
    ok1 = assign(p, v1)
    if not ok1 and not (p.value is before or p.value == before):
        return False                      # a rejected assignment changed the stored value
    fresh = mk()
    return assign(p, v2) == assign(fresh, v2)
''', "Parameter (integer): a rejected assignment leaves the stored value unchanged and the verdict does not depend on history"),

    Cond("parameter_bool_stateless_and_rejection_keeps_value", '''
def parameter_bool_stateless_and_rejection_keeps_value(v0: Val, v1: Val, v2: Val) -> bool:
    """
    pre: _small(v0) and _small(v1) and _small(v2)
    post: _
    """
    mk = lambda: BoolParameter("b")
    p = mk()
    def assign(par, v):
        try:
            par.value = v
            return True
        except BaseValidationError:
            return False
    assign(p, v0)
    before = p.value
    ok1 = assign(p, v1)
    if not ok1 and not (p.value is before or p.value == before):
        return False                      # a rejected assignment changed the stored value
    fresh = mk()
    return assign(p, v2) == assign(fresh, v2)
''', "Parameter (bool): a rejected assignment leaves the stored value unchanged and the verdict does not depend on history"),

    Cond("parameter_restricted_stateless_and_rejection_keeps_value", '''
def parameter_restricted_stateless_and_rejection_keeps_value(i0: int, i1: int, i2: int) -> bool:
    """
    pre: 0 <= i0 < 8 and 0 <= i1 < 8 and i2 == i1
    post: _
    """
    v0, v1, v2 = ALPHA[i0], ALPHA[i1], ALPHA[i2]
    mk = lambda: ValueRestrictedParameter("v", ["a", "b", 1])
    p = mk()
    def assign(par, v):
        try:
            par.value = v
            return True
        except BaseValidationError:
            return False
    assign(p, v0)
    before = p.value
    ok1 = assign(p, v1)
    if not ok1 and not (p.value is before or p.value == before):
        return False                      # a rejected assignment changed the stored value
    fresh = mk()
    return assign(p, v2) == assign(fresh, v2)
''', "Parameter (restricted): a rejected assignment leaves the stored value unchanged and the verdict does not depend on history"),

    Cond("requires_value_blank_group_name", '''
def requires_value_blank_group_name(gsel: int, osel: int, gopt: bool, gen: bool, oopt: bool, oen: bool, has_opt: bool, en: bool) -> bool:
    """
    pre: 0 <= gsel < 4 and 0 <= osel < 3
    post: _
    """
    names = ["", "G", "0", None]                  # None: the parameter has no group member
    onames = ["H", "", "G"]
    form = {"label": "a", "value": 1}
    if has_opt:
        form["optional"] = True
        form["enabled"] = en
    mate = {"label": "m", "value": 1}
    gname = names[gsel]
    if gname is not None:
        form["group"] = gname
        mate["group"] = gname
        if gopt:
            mate["groupOptional"] = True
            mate["enabled"] = gen
    other = {"label": "o", "value": 1, "group": onames[osel]}
    if oopt:
        other["groupOptional"] = True
        other["enabled"] = oen
    ui = {"p": form, "m": mate, "o": other}
    got = requires_value(ui, "p")
    # the group of p is the set of forms whose group member EQUALS p's; a group is optional-and-disabled when one of its
    # members carries groupOptional and is not enabled
    exp_group_off = False
    if gname is not None:
        members = [f for f in (form, mate, other) if f.get("group", None) == gname]
        flagged = [f for f in members if f.get("groupOptional", False)]
        exp_group_off = bool(flagged) and not flagged[0].get("enabled", True)
    if exp_group_off:
        exp = False
    elif has_opt:
        exp = en
    else:
        exp = True
    return bool(got) == bool(exp)
''', "requires_value: group membership is equality of group names, also for blank / falsy names; another group's groupOptional "
     "switch never changes the verdict"),

    Cond("form_string_member_rejection_leaves_form_unchanged", '''
def form_string_member_rejection_leaves_form_unchanged(mi: int, i1: int, i2: int) -> bool:
    """
    pre: 0 <= mi < 6 and 0 <= i1 < 8 and i2 == i1
    post: _
    """
    kind = 0
    member = ["optional", "enabled", "group", "dependency", "tooltip", "main"][mi]
    mk = [lambda: StringFormParameter("p", value="x", label="l"), lambda: BoolFormParameter("p", value=True, label="l"),
          lambda: IntegerFormParameter("p", value=1, label="l")][kind]
    v1, v2 = ALPHA[i1], ALPHA[i2]
    def assign(f, v):
        try:
            setattr(f, member, v)
            return True
        except BaseValidationError:
            return False
    used = mk()
    before_form, before_active = dict(used.form()), list(used.active)
    ok1 = assign(used, v1)
    if not ok1 and (dict(used.form()) != before_form or list(used.active) != before_active):
        return False                      # a rejected member assignment changed the form
    if ok1 and not (member in used.active and used.form()[member] == v1):
        return False
    fresh = mk()
    return assign(used, v2) == assign(fresh, v2)
''', "FormParameter (string): a rejected member assignment leaves form() and the active members unchanged; accepted ones are stored; "
     "the verdict does not depend on earlier assignments", timeout=90),

    Cond("form_bool_member_rejection_leaves_form_unchanged", '''
def form_bool_member_rejection_leaves_form_unchanged(mi: int, i1: int, i2: int) -> bool:
    """
    pre: 0 <= mi < 6 and 0 <= i1 < 8 and i2 == i1
    post: _
    """
    kind = 1
    member = ["optional", "enabled", "group", "dependency", "tooltip", "main"][mi]
    mk = [lambda: StringFormParameter("p", value="x", label="l"), lambda: BoolFormParameter("p", value=True, label="l"),
          lambda: IntegerFormParameter("p", value=1, label="l")][kind]
    v1, v2 = ALPHA[i1], ALPHA[i2]
    def assign(f, v):
        try:
            setattr(f, member, v)
            return True
        except BaseValidationError:
            return False
    used = mk()
    before_form, before_active = dict(used.form()), list(used.active)
    ok1 = assign(used, v1)
    if not ok1 and (dict(used.form()) != before_form or list(used.active) != before_active):
        return False                      # a rejected member assignment changed the form
    if ok1 and not (member in used.active and used.form()[member] == v1):
        return False
    fresh = mk()
    return assign(used, v2) == assign(fresh, v2)
''', "FormParameter (bool): a rejected member assignment leaves form() and the active members unchanged; accepted ones are stored; "
     "the verdict does not depend on earlier assignments", timeout=90),

    Cond("form_integer_member_rejection_leaves_form_unchanged", '''
def form_integer_member_rejection_leaves_form_unchanged(mi: int, i1: int, i2: int) -> bool:
    """
    pre: 0 <= mi < 6 and 0 <= i1 < 8 and i2 == i1
    post: _
    """
    kind = 2
    member = ["optional", "enabled", "group", "dependency", "tooltip", "main"][mi]
    mk = [lambda: StringFormParameter("p", value="x", label="l"), lambda: BoolFormParameter("p", value=True, label="l"),
          lambda: IntegerFormParameter("p", value=1, label="l")][kind]
    v1, v2 = ALPHA[i1], ALPHA[i2]
    def assign(f, v):
        try:
            setattr(f, member, v)
            return True
        except BaseValidationError:
            return False
    used = mk()
    before_form, before_active = dict(used.form()), list(used.active)
    ok1 = assign(used, v1)
    if not ok1 and (dict(used.form()) != before_form or list(used.active) != before_active):
        return False                      # a rejected member assignment changed the form
    if ok1 and not (member in used.active and used.form()[member] == v1):
        return False
    fresh = mk()
    return assign(used, v2) == assign(fresh, v2)
''', "FormParameter (integer): a rejected member assignment leaves form() and the active members unchanged; accepted ones are stored; "
     "the verdict does not depend on earlier assignments", timeout=90),

    Cond("validate_data_stateless_one_of", '''
def validate_data_stateless_one_of(a1: Optional[int], b1: Optional[int], a2: Optional[int], b2: Optional[int]) -> bool:
    """
    pre: all(x is None or -2 <= x <= 2 for x in (a1, b1, a2, b2))
    post: _
    """
    ui = {"a": {"label": "a", "value": 1, "optional": True, "enabled": False},
          "b": {"label": "b", "value": 1, "optional": True, "enabled": False}}
    extra = {"a": {"one_of": "grp"}, "b": {"one_of": "grp"}}
    mk = lambda: InputValidation(ui_json=deepcopy(ui), validations=deepcopy(extra))
    used = mk()
    _accepts(used.validate_data, {"a": a1, "b": b1})
    got = _accepts(used.validate_data, {"a": a2, "b": b2})
    exp = _accepts(mk().validate_data, {"a": a2, "b": b2})
    return got == exp and exp == (a2 is not None or b2 is not None)
''', "InputValidation.validate_data: the at-least-one verdict is the same on a used and on a fresh validator and equals the rule"),

    Cond("type_validator_exact", '''
def type_validator_exact(value: Val, as_list: bool, tsel: int) -> bool:
    """
    pre: 0 <= tsel < 4 and _small(value)
    post: _
    """
    types = [[str], [int], [bool], [str, type(None)]][tsel]
    val = [value] if as_list else value
    return _accepts(TypeValidator.validate, "p", val, list(types)) == isinstance(value, tuple(types))
''', "TypeValidator accepts v (or [v]) iff isinstance(v, declared types)"),

    Cond("value_validator_exact", '''
def value_validator_exact(i: int, as_list: bool, j0: int, j1: int) -> bool:
    """
    pre: 0 <= i < 8 and 0 <= j0 < 8 and j1 == 6
    post: _
    """
    value, v0, v1 = ALPHA[i], ALPHA[j0], ALPHA[j1]
    val = [value] if as_list else value
    return _accepts(ValueValidator.validate, "p", val, [v0, v1]) == (value is None or value == v0 or value == v1)
''', "ValueValidator accepts v iff v is None or one of the listed values"),

    Cond("optional_required_shape_validators_exact", '''
def optional_required_shape_validators_exact(value: Val, as_list: bool, optional: bool, required: bool) -> bool:
    """
    pre: _small(value)
    post: _
    """
    val = [value] if as_list else value
    o_ok = _accepts(OptionalValidator.validate, "p", value, optional)
    r_ok = _accepts(RequiredValidator.validate, "p", value, required)
    s_ok = _accepts(ShapeValidator.validate, "p", val, (1,))
    return o_ok == (value is not None or optional) and r_ok == (value is not None or not required) and s_ok
''', "Optional/Required/Shape validators accept exactly what their flag admits"),
]

def _thorough_variants():
    out = []
    for c in CONDS:
        if c.name in ("enforcer_pool_stateless", "parameter_restricted_stateless_and_rejection_keeps_value", "value_validator_exact") \
                or c.name.endswith("member_rejection_leaves_form_unchanged"):
            src = c.src.replace("i2 == i1", "0 <= i2 < 8").replace("j1 == 6", "0 <= j1 < 8")
            src = src.replace(f"def {c.name}(", f"def {c.name}_full(")
            out.append(Cond(c.name + "_full", src, c.what + " (all triples of the alphabet)", timeout=400))
    return out


CONDS_THOROUGH = [
    Cond("enforcer_pool_stateless_long", '''
def enforcer_pool_stateless_long(vs: List[Val], v: Val) -> bool:
    """
    pre: len(vs) <= 4 and all(_small(x) for x in vs) and _small(v)
    post: _
    """
    mk = lambda: EnforcerPool("p", [TypeEnforcer({str, int}), ValueEnforcer({"a", 1, None})])
    used = mk()
    for x in vs:
        _accepts(used.enforce, x)
    return _accepts(used.enforce, v) == _accepts(mk().enforce, v)
''', "EnforcerPool verdict independent of histories of up to 4 earlier calls"),
]


# ---------------------------------------------------------------------------------------------------------------
# association / property-group-type validators need a workspace object graph: real in-memory Workspace driven by the symx
# explorer with a symbolic choice of the referenced parent and of the value
# ---------------------------------------------------------------------------------------------------------------
import numpy as _np

from .common import Scenario, run_property


class AssociationValidation(Scenario):
    pid = "C15"

    def body(self, cx):
        from geoh5py.workspace import Workspace
        from geoh5py.groups import ContainerGroup
        from geoh5py.objects import Points
        from geoh5py.shared.validators import AssociationValidator, PropertyGroupValidator
        from geoh5py.shared.exceptions import BaseValidationError
        ws = Workspace()
        top = ContainerGroup.create(ws, name="top")
        sub = ContainerGroup.create(ws, name="sub", parent=top)
        obj = Points.create(ws, vertices=_np.zeros((2, 3)), name="obj", parent=sub)
        dat = obj.add_data({"d": {"values": _np.zeros(2)}})
        pg = obj.find_or_create_property_group(name="pg", properties=[dat.uid], property_group_type="Multi-element")
        other = Points.create(ws, vertices=_np.zeros((2, 3)), name="other")
        odat = other.add_data({"od": {"values": _np.zeros(2)}})
        other_ws = Workspace()
        alien = Points.create(other_ws, vertices=_np.zeros((2, 3)), name="alien")
        parents = [ws, top, sub, obj, other]
        values = [top, sub, obj, dat, pg, other, odat, alien]
        pi, vi = int(cx.int("parent", 0, len(parents))), int(cx.int("value", 0, len(values)))
        as_uid = bool(cx.bool("value_given_as_identifier"))
        parent, value = parents[pi], values[vi]

        def below(p, v):
            if p is ws:
                return v is not alien
            node = v
            while True:
                node = getattr(node, "parent", None)
                if node is None or node is ws.root and p is not ws.root:
                    return False
                if node is p:
                    return True
        exp = below(parent, value)
        try:
            AssociationValidator.validate("p", value.uid if as_uid else value, parent)
            ok = True
        except BaseValidationError:
            ok = False
        cx.prove(ok == exp, f"value accepted iff it belongs to the referenced parent (parent={getattr(parent, 'name', 'workspace')}, "
                            f"value={value.name})", "association")
        # property-group type
        kind = ["Multi-element", "3D vector", "Strike & dip"][int(cx.int("pg_type", 0, 3))]
        try:
            PropertyGroupValidator.validate("p", pg, kind)
            ok2 = True
        except BaseValidationError:
            ok2 = False
        cx.prove(ok2 == (kind == "Multi-element"), "a property group is accepted iff it has the declared type", "property group type")
        return "ok"


class RejectionByAnyError(Scenario):
    """restricted parameters: a value refused with any error leaves the stored value unchanged; verdicts do not depend on history"""
    pid = "C15"

    def body(self, cx):
        import uuid as _uuid
        from geoh5py.ui_json.parameters import ValueRestrictedParameter, TypeUIDRestrictedParameter, TypeRestrictedParameter
        from geoh5py.objects import Points, Curve
        U1 = Points.default_type_uid()
        kind = int(cx.int("kind", 0, 3))
        if kind == 0:
            alpha = [None, "a", "b", 1, "q", {"a": 1}, ["a"]]
            mk = lambda: ValueRestrictedParameter("v", ["a", "b", 1])
            valid = lambda v: isinstance(v, (str, int)) and v in ["a", "b", 1]
        elif kind == 1:
            alpha = [None, Points, Curve, "a", 3, U1, ["a"]]
            mk = lambda: TypeUIDRestrictedParameter("o", [str(U1)])     # mesh_type members of a ui.json are text
            valid = lambda v: v is Points
        else:
            alpha = [None, "a", 1, 1.5, True, ["a"], ("a",)]
            mk = lambda: TypeRestrictedParameter("t", [str, int])
            valid = lambda v: isinstance(v, (str, int))
        n = len(alpha)
        i0, i1, i2 = int(cx.int("first", 0, n)), int(cx.int("second", 0, n)), int(cx.int("third", 0, n))
        v0, v1, v2 = alpha[i0], alpha[i1], alpha[i2]

        def assign(par, v):
            try:
                par.value = v
                return True
            except Exception:                     # refused with any error = rejected
                return False
        p = mk()
        assign(p, v0)
        before = p.value
        ok1 = assign(p, v1)
        if v1 is not None:                        # whether None is allowed is decided by the form-level rules, not here
            cx.prove(ok1 == valid(v1), f"value {v1!r} accepted iff it satisfies the restriction (kind {kind})", "acceptance")
        cx.prove(p.value is (v1 if ok1 else before), "a rejected value leaves the stored value unchanged, an accepted one is stored",
                 "rejection side effects")
        fresh = mk()
        cx.prove(assign(p, v2) == assign(fresh, v2), "the verdict does not depend on earlier calls", "history")
        return "ok"


class ObjectDataPairs(Scenario):
    """required_object_data: every declared (object, data) pair must be parent and child -- with two pairs and two parents
    every assignment of objects and data to the four parameters is one explored path"""
    pid = "C15"

    def body(self, cx):
        from geoh5py.workspace import Workspace
        from geoh5py.objects import Points
        from geoh5py.ui_json.enforcers import RequiredObjectDataEnforcer
        from geoh5py.shared.exceptions import BaseValidationError
        ws = Workspace()
        objs = [Points.create(ws, vertices=_np.zeros((2, 3)), name=f"o{i}") for i in range(2)]
        data = [objs[0].add_data({"a0": {"values": _np.zeros(2)}}), objs[0].add_data({"a1": {"values": _np.zeros(2)}}),
                objs[1].add_data({"b0": {"values": _np.zeros(2)}})]
        o1, o2 = int(cx.int("object_1", 0, 2)), int(cx.int("object_2", 0, 2))
        d1, d2 = int(cx.int("data_1", 0, 3)), int(cx.int("data_2", 0, 3))
        npairs = int(cx.int("pairs", 1, 3))
        value = {"obj1": {"value": objs[o1]}, "dat1": {"value": data[d1]}, "obj2": {"value": objs[o2]}, "dat2": {"value": data[d2]}}
        pairs = [("obj1", "dat1"), ("obj2", "dat2")][:npairs]
        exp = all(value[d]["value"].parent is value[o]["value"] for o, d in pairs)
        enf = RequiredObjectDataEnforcer(pairs)
        cx.prove(bool(enf.rule(value)) == exp, "rule: true iff every data is a child of its own declared object", "object-data pairs")
        try:
            enf.enforce("ui", value)
            ok = True
        except BaseValidationError:
            ok = False
        cx.prove(ok == exp, "accepted iff every data is a child of its own declared object", "object-data pairs")
        return "ok"


class FormRegister(Scenario):
    """FormParameter.register with standard members (valid or not) and free-form members: a refused call leaves the form
    exactly as it was; an accepted call shows every member given"""
    pid = "C15"

    def body(self, cx):
        from geoh5py.ui_json.forms import StringFormParameter
        from geoh5py.shared.exceptions import BaseValidationError
        std = [("label", "new label", 5), ("enabled", False, "no"), ("optional", True, "maybe"), ("tooltip", "tip", 3),
               ("dependency_type", "disabled", "sometimes")]
        i = int(cx.int("standard_member", 0, len(std)))
        valid = bool(cx.bool("standard_value_valid"))
        with_extra = bool(cx.bool("with_free_form_member"))
        j = int(cx.int("second_standard_member", 0, len(std) + 1))      # len(std): none
        second_valid = bool(cx.bool("second_value_valid"))
        form = StringFormParameter("p", label="old label", value="v", enabled=True, optional=False)
        before = dict(form.form())
        members = {std[i][0]: std[i][1] if valid else std[i][2]}
        if j < len(std) and j != i:
            members[std[j][0]] = std[j][1] if second_valid else std[j][2]
        else:
            second_valid = True
        if with_extra:
            members["units"] = "m"
        try:
            form.register(dict(members))
            ok = True
        except BaseValidationError:
            ok = False
        cx.prove(ok == (valid and second_valid), "register is accepted iff every standard member given is valid", "register")
        after = dict(form.form())
        if not ok:
            cx.prove(after == before, f"a refused register leaves the form unchanged (before {before}, after {after})", "register")
        else:
            cx.prove(all(after.get(k) == v for k, v in members.items()), "an accepted register shows every member given", "register")
        return "ok"


class InputFileReuse(Scenario):
    """one InputFile object serves a first ui.json (its validators get built), then is given a second ui.json with other
    parameters: values for the second form are accepted iff they satisfy the second form's constraints, exactly as on a fresh
    InputFile"""
    pid = "C15"

    def body(self, cx):
        from copy import deepcopy
        from geoh5py.workspace import Workspace
        from geoh5py.ui_json import InputFile
        from geoh5py.ui_json.constants import default_ui_json
        from geoh5py.shared.exceptions import BaseValidationError
        ws = Workspace()

        def first():
            ui = deepcopy(default_ui_json)
            ui["geoh5"] = ws
            ui["a"] = {"main": True, "label": "A", "value": 1}
            return ui

        def second():
            ui = deepcopy(default_ui_json)
            ui["geoh5"] = ws
            ui["count_b"] = {"main": True, "label": "C", "value": 1}
            ui["choice_b"] = {"main": True, "label": "Ch", "choiceList": ["a", "b"], "value": "a"}
            ui["req_b"] = {"main": True, "label": "R", "value": 2.0}
            ui["opt_b"] = {"main": True, "label": "O", "value": 3.0, "optional": True, "enabled": False}
            return ui
        cases = [("count_b", "text", False), ("count_b", 5, True), ("choice_b", "zz", False), ("choice_b", "b", True), ("req_b", None, False),
                 ("req_b", 4.5, True), ("opt_b", None, True), ("count_b", None, False)]
        key, value, valid = cases[int(cx.int("case", 0, len(cases)))]
        used_first = bool(cx.bool("validators_built_for_the_first_form"))
        reused = InputFile(ui_json=first())
        if used_first:
            _ = reused.data
            reused.data = dict(reused.data)
        reused.ui_json = second()
        fresh = InputFile(ui_json=second())
        base = dict(fresh.data)
        verdicts = []
        for f in (reused, fresh):
            d = dict(base)
            d[key] = value
            try:
                f.data = d
                verdicts.append(True)
            except BaseValidationError:
                verdicts.append(False)
        cx.prove(verdicts[1] == valid, f"fresh InputFile: {key} = {value!r} accepted iff valid", "reused validator")
        cx.prove(verdicts[0] == verdicts[1], f"an InputFile that served another form before gives the same verdict on {key} = {value!r}",
                 "reused validator")
        return "ok"


def main(tier, seed):
    rc1 = run_property(
        "C15", [AssociationValidation(), RejectionByAnyError(), ObjectDataPairs(), FormRegister(), InputFileReuse()], tier, seed,
        assumptions=["association / property-group validators: real in-memory Workspace with a three-level tree; the referenced "
                     "parent, the value (entity or identifier) and the declared group type are symbolic choices, one path each",
                     "restricted parameters (choice list, object type uid, type list): three assignments chosen symbolically from 7-value "
                     "alphabets that include values the enforcer cannot evaluate (unhashable, no default_type_uid)"],
        outside=["uuid enforcer on symbolic strings", "longer strings / larger integers / longer call histories"],
        bounds="parents {workspace, group, sub-group, object, other object} x values {groups, object, data, property group, "
               "unrelated object/data, entity of another workspace} x entity/identifier",
        expected_outcomes={"AssociationValidation": {"ok"}, "RejectionByAnyError": {"ok"}, "ObjectDataPairs": {"ok"}, "FormRegister": {"ok"}, "InputFileReuse": {"ok"}}, jobs=1, validate_max=0,
    )
    conds = CONDS + ((CONDS_THOROUGH + _thorough_variants()) if tier == "thorough" else [])
    rc2 = run_xh(
        "C15", PRELUDE, conds, tier, seed,
        assumptions=["CrossHair 0.0.110 / z3 decide each condition over all paths within the stated value bounds",
                     "values: None, bool, int in [-1,2], str of length <= 1; choice lists of 2 entries; histories of 2-4 calls",
                     "reference semantics for requires_value written from the function's own docstring hierarchy"],
        outside=[                 "uuid and type-uid enforcers (uuid parsing of symbolic strings does not terminate in CrossHair)",
                 "longer strings / larger integers / longer call histories"],
        bounds="all 2^11 switch combinations for requires_value; values None|bool|int[-1,2]|str(len<=1); sequences of <=3 (thorough: <=5) calls",
        functions=["geoh5py.ui_json.utils:requires_value (+ group/dependency/optional helpers)",
                   "geoh5py.ui_json.validation:InputValidation._validations_from_uijson / validate / validate_data",
                   "geoh5py.shared.validators:TypeValidator/ValueValidator/OptionalValidator/RequiredValidator/ShapeValidator/AtLeastOneValidator",
                   "geoh5py.ui_json.enforcers:EnforcerPool.enforce/_capture_error/_raise_errors, TypeEnforcer, ValueEnforcer",
                   "geoh5py.ui_json.parameters:Parameter.value / validate and subclasses",
                   "geoh5py.ui_json.forms:FormParameter member access (descriptors.FormValueAccess), form(), active"],
        merge_evidence=True,
    )
    return 1 if 1 in (rc1, rc2) else max(rc1, rc2)
