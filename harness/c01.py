"""C01 -- re-opening a file yields exactly the state built through the API (symx, seam B; bounded sequences).

A small tree (two groups, one object with symbolic geometry, float data with symbolic values, integer data, a property
group) lives in a real HDF5 file behind the proxy.  A sequence of public operations is chosen *symbolically* from an
alphabet (every sequence of the stated length is one explored path); numeric payloads (new vertices, new values, the
removed vertex index) are symbolic.  After the sequence the tree the live workspace shows is compared, term by term,
with the tree a fresh Workspace reads from the same file."""
from __future__ import annotations

import numpy as real_np

from symx import patch, h5shim
from symx.core import And, Or, Not, eq, is_sym, is_nan
from .common import Scenario, elems, shape, mk_array, run_property, assume_not_ndv
from .c03 import _norm, _same

OPS = ["set_vertices", "set_values", "rename", "move", "copy", "remove_vertices", "remove_data", "add_data", "reopen",
       "group_membership", "remove_object", "set_flags", "set_cells", "remove_cells", "modify_values", "modify_vertices", "empty_group",
       "create_deferred", "move_data", "foreign_membership", "readd_removed_data", "detach_all_from_group"]
FLAGS = ("public", "visible", "allow_delete", "allow_move", "allow_rename")


def tree_snapshot(ws):
    """uid -> record of everything C01 lists: class, parent, name, flags, geometry, values, property-group membership.
    Entities are reached from the root through the child lists (what the user sees), each counted."""
    out, seen = {}, {}

    def visit(ent, parent_uid):
        key = str(ent.uid)
        seen[key] = seen.get(key, 0) + 1
        rec = {"class": type(ent).__name__, "parent": str(parent_uid), "name": ent.name}
        for f in FLAGS:
            if hasattr(ent, f):
                rec[f] = bool(getattr(ent, f))
        for arr in ("vertices", "cells", "origin", "u_cell_size", "v_cell_size", "rotation", "u_cell_delimiters", "v_cell_delimiters",
                    "z_cell_delimiters"):
            if hasattr(type(ent), arr):
                try:
                    rec[arr] = _norm(getattr(ent, arr))
                except Exception as e:  # noqa: BLE001
                    rec[arr] = f"<unreadable {type(e).__name__}>"
        if hasattr(ent, "values") and hasattr(ent, "association"):
            try:
                rec["values"] = _norm(ent.values)
            except Exception as e:  # noqa: BLE001
                rec["values"] = f"<unreadable {type(e).__name__}>"
            rec["association"] = getattr(ent.association, "name", None)
        pgs = getattr(ent, "property_groups", None)
        if pgs:
            rec["property_groups"] = {pg.name: sorted(str(u) for u in (pg.properties or [])) for pg in pgs}
        if hasattr(ent, "get_data_list") and type(ent).__name__.startswith("Concatenated"):
            # data of a hole in a drillhole group are loaded on demand: list them by name with their values
            logs = {}
            for nm in ent.get_data_list():
                dd = ent.get_data(nm)
                if dd:
                    try:
                        logs[nm] = _norm(dd[0].values)
                    except Exception as e:  # noqa: BLE001
                        logs[nm] = f"<unreadable {type(e).__name__}>"
            rec["logs"] = logs
        out[key] = rec
        for ch in getattr(ent, "children", []) or []:
            if hasattr(ch, "uid") and type(ch).__name__ != "PropertyGroup":
                visit(ch, ent.uid)
    for ch in ws.root.children:
        visit(ch, ws.root.uid)
    out["#multiplicity"] = {k: v for k, v in seen.items() if v != 1}
    return out


class OpSequence(Scenario):
    """first operation fixed by the scenario (sharding), the following ones chosen symbolically from the alphabet"""
    pid = "C01"
    include_io = True
    compare_tree = True         # C02 re-uses the sequences with a structural validator instead (harness/c02.py)
    skip_ops = ()               # operations a re-using check leaves out

    def after_close(self, cx, h5file, seq):
        return None

    def run(self, cx):
        if self.backend == "real":
            return super().run(cx)
        with h5shim.h5_on():
            return super().run(cx)

    def body(self, cx):
        from geoh5py.workspace import Workspace
        from geoh5py.groups import ContainerGroup
        from geoh5py.objects import Points, Curve
        kind, first, length = self.params["kind"], self.params["first"], self.params["length"]
        h5shim.reset()
        patch.STUBS_USED.add("h5py -> symx.h5shim proxy over the real in-memory HDF5 file (seam B, A-H5)")
        ws = Workspace()
        g = ContainerGroup.create(ws, name="G")
        h = ContainerGroup.create(ws, name="H")
        n = 3
        if kind == "points":
            o = Points.create(ws, vertices=real_np.arange(9.0).reshape(3, 3), name="O", parent=g)
        else:
            o = Curve.create(ws, vertices=real_np.arange(9.0).reshape(3, 3), cells=real_np.array([[0, 1], [1, 2]], dtype="int32"),
                             name="O", parent=g)
        d1 = o.add_data({"D1": {"values": real_np.arange(3.0)}})
        d2 = o.add_data({"D2": {"values": real_np.array([7, 8, 9], dtype="int32"), "type": "integer"}})
        o.find_or_create_property_group(name="PG", properties=[d1.uid])
        ContainerGroup.create(ws, name="Sub", parent=g)
        g.add_comment("a comment on G", author="me")
        p = Points.create(ws, vertices=real_np.arange(9.0).reshape(3, 3) + 2, name="P", parent=h)
        s1 = p.add_data({"S1": {"values": real_np.arange(3.0) + 4}})
        uid = {"g": g.uid, "h": h.uid, "o": o.uid, "d1": d1.uid, "d2": d2.uid, "p": p.uid, "s1": s1.uid}
        ws.close()
        with self.engine(cx) as X:
            st = {"ws": Workspace(ws.h5file)}       # a later session: every array goes through the model

            def get(k):
                e = st["ws"].get_entity(uid[k])[0] if k in uid else None
                return e

            # symbolic initial state
            o = get("o")
            o.vertices = mk_array(X, [cx.real(f"v{i}") for i in range(9)], (3, 3), "float64")
            vals0 = [cx.real(f"x{i}") for i in range(3)]
            assume_not_ndv(cx, vals0)
            get("d1").values = mk_array(X, vals0, (3,), "float64")
            ops = [first] + [OPS[int(cx.int(f"op{t}", 0, len(OPS)))] for t in range(1, length)]
            done = []
            for t, op in enumerate(ops):
                # a removed object is not operated on again (a lookup may still find it until the collector has run)
                o = None if st.get("removed") else get("o")
                try:
                    if op in self.skip_ops:
                        done.append(f"{op}: left out")
                        continue
                    if op == "reopen":
                        st["ws"].close()
                        st["ws"] = Workspace(ws.h5file)
                    elif o is None:
                        done.append(f"{op}: object already removed")
                        continue
                    elif op == "set_vertices":
                        nv = shape(o.vertices)[0]
                        o.vertices = mk_array(X, [cx.real(f"s{t}v{i}") for i in range(nv * 3)], (nv, 3), "float64")
                    elif op == "set_values":
                        d = get("d1")
                        if d is not None:
                            nv = shape(o.vertices)[0]
                            newv = [cx.real(f"s{t}x{i}") for i in range(nv)]
                            assume_not_ndv(cx, newv)
                            d.values = mk_array(X, newv, (nv,), "float64")
                    elif op == "rename":
                        o.name = f"O renamed at {t}"
                        d = get("d1")
                        if d is not None:
                            d.name = f"D1 renamed at {t}"
                    elif op == "move":
                        o.parent = get("h") if o.parent.uid == uid["g"] else get("g")
                    elif op == "copy":
                        cp = o.copy(parent=get("h"))
                        uid[f"copy{t}"] = cp.uid
                    elif op == "remove_vertices":
                        nv = shape(o.vertices)[0]
                        if nv < 2:
                            done.append("remove_vertices: skipped (one vertex left)")
                            continue
                        o.remove_vertices([cx.int(f"s{t}i", 0, nv)])
                    elif op == "remove_data":
                        d = get("d2")
                        if d is not None:
                            st["ws"].remove_entity(d)
                    elif op == "add_data":
                        nv = shape(o.vertices)[0]
                        newv = [cx.real(f"s{t}y{i}") for i in range(nv)]
                        assume_not_ndv(cx, newv)
                        nd_ = o.add_data({f"D3 at {t}": {"values": mk_array(X, newv, (nv,), "float64")}})
                        uid[f"new{t}"] = nd_.uid
                    elif op == "group_membership":
                        d = get("d1")
                        pgs = [p for p in (o.property_groups or []) if p.name == "PG"]
                        if d is not None and pgs:
                            if d.uid in (pgs[0].properties or []):
                                pgs[0].remove_properties(d)
                            else:
                                pgs[0].add_properties(d)
                    elif op == "remove_object":
                        st["ws"].remove_entity(o)
                        st["removed"] = True
                    elif op == "set_flags":
                        o.visible = False
                        o.allow_rename = False
                        o.public = False
                    elif op == "remove_cells":
                        if kind == "curve":
                            nc = shape(o.cells)[0]
                            if nc < 1:
                                done.append("remove_cells: skipped (no cell left)")
                                continue
                            o.remove_cells([cx.int(f"s{t}k", 0, nc)])
                    elif op == "modify_values":         # read-modify-write through the array the getter hands out
                        d = get("d1")
                        if d is not None and d.values is not None and shape(d.values)[0] > 0:
                            arr = d.values
                            y = cx.real(f"s{t}m")
                            assume_not_ndv(cx, [y])
                            arr[0] = y
                            d.values = arr
                    elif op == "modify_vertices":       # read-modify-write of the geometry
                        arr = o.vertices
                        arr[0, 2] = cx.real(f"s{t}z")
                        o.vertices = arr
                    elif op == "empty_group":
                        o.find_or_create_property_group(name=f"empty at {t}")
                    elif op == "readd_removed_data":     # a removed data set is created again under its old identifier
                        d = get("d2")
                        if d is not None:
                            st["ws"].remove_entity(d)
                            del d
                        import gc as _gc
                        _gc.collect()
                        nv = shape(o.vertices)[0]
                        o.add_data({"D2 again": {"values": mk_array(X, [cx.int(f"s{t}r{i}", -50, 50) for i in range(nv)], (nv,), "int32"),
                                                 "type": "integer", "uid": uid["d2"]}})
                    elif op == "detach_all_from_group":  # children of several kinds detached from their group in one call
                        grp = get("g")
                        grp.remove_children(list(grp.children))
                        st["removed"] = st.get("removed") or (o.parent is not None and o.parent.uid == uid["g"])
                    elif op == "create_deferred":       # creation with the write deferred to the close
                        dgp = st["ws"].create_entity(ContainerGroup, save_on_creation=False, entity={"name": f"deferred group at {t}"})
                        Points.create(st["ws"], vertices=real_np.zeros((1, 3)) if False else mk_array(X, [0.0, 1.0, 2.0], (1, 3), "float64"),
                                      name=f"child of deferred group at {t}", parent=dgp)
                        st["ws"].create_entity(Points, save_on_creation=False,
                                               entity={"name": f"deferred points at {t}", "parent": get("h"),
                                                       "vertices": mk_array(X, [cx.real(f"s{t}q{i}") for i in range(6)], (2, 3), "float64")})
                    elif op == "move_data":
                        d = get("d2")
                        tgt = get("p")
                        if d is not None and tgt is not None and shape(tgt.vertices)[0] == shape(o.vertices)[0]:
                            d.parent = tgt if d.parent.uid == uid["o"] else o
                    elif op == "foreign_membership":    # a property group is asked to list another object's data
                        pgs = [q for q in (o.property_groups or []) if q.name == "PG"]
                        if pgs and get("s1") is not None:
                            pgs[0].add_properties(uid["s1"])
                    elif op == "set_cells":
                        if kind == "curve":
                            nv = shape(o.vertices)[0]
                            nc = shape(o.cells)[0]
                            o.cells = mk_array(X, [cx.int(f"s{t}c{i}", 0, nv) for i in range(nc * 2)], (nc, 2), "int32")
                    done.append(op)
                except Exception as e:  # noqa: BLE001 -- a refused operation ends the sequence (not what C01 is about)
                    return f"{op} raised {type(e).__name__}"
                del o
            live = tree_snapshot(st["ws"])
            st["ws"].close()
            seq = " -> ".join(ops)
            self.after_close(cx, ws.h5file, seq)
            if not self.compare_tree:
                return "ok"
            ws2 = Workspace(ws.h5file)
            back = tree_snapshot(ws2)
            cx.prove(not live["#multiplicity"] and not back["#multiplicity"], f"[{seq}] every entity is listed once under one parent",
                     "nothing duplicated")
            cx.prove(set(back) == set(live), f"[{seq}] the file holds exactly the entities the live workspace shows "
                                             f"(only live: {sorted(set(live) - set(back))[:2]}, only in file: {sorted(set(back) - set(live))[:2]})",
                     "nothing lost or resurrected")
            for key, rec in live.items():
                if key.startswith("#") or key not in back:
                    continue
                b = back[key]
                cx.prove(set(b) == set(rec), f"[{seq}] {rec['class']} '{rec['name']}': same fields ({sorted(set(b) ^ set(rec))})", "entity state")
                for fld, val in rec.items():
                    if fld in b:
                        cx.prove(_same(b[fld], val), f"[{seq}] {rec['class']} '{rec['name']}': {fld} re-read == live", "entity state")
            ws2.close()
            return "ok"


def scenarios(tier, seed):
    S = []
    length = 2 if tier == "quick" else 3
    for kind in ("points", "curve"):
        for first in OPS:
            if first in ("set_cells", "remove_cells") and kind == "points":
                continue
            if tier == "quick" and kind == "curve" and first not in ("remove_vertices", "set_cells", "remove_cells", "copy", "move", "reopen"):
                continue
            S.append(OpSequence(kind=kind, first=first, length=length))
    return S


def main(tier, seed):
    return run_property(
        "C01", scenarios(tier, seed), tier, seed,
        assumptions=["symbolic: initial vertices and float values, every newly assigned vertex / value array, the removed vertex index, new "
                     "cell indices (in range); concrete: names, flags, the tree shape (two groups, one object, two data, one property group)",
                     "A-H5: symbolic payloads are kept beside the real HDF5 file by a proxy and handed back unchanged",
                     "float data values differ from the float no-data sentinel (documented exception)",
                     "a sequence in which an operation raises is not compared (refusals are C07 / C11 matter)"],
        outside=["placement of garbage-collection points (weak-reference liveness): not modelled, the harness keeps no stale handles",
                 "drillhole groups, surveys, grids, text / referenced data in sequences (single operations on them: C03, C04, C08, C12)",
                 "sequences longer than the bound; more than one object", "project header attributes (open findings under C03)"],
        bounds={"quick": "all sequences of 2 operations from an alphabet of 22 {set vertices, set values, rename, move, copy, remove a vertex, "
                         "remove data, add data, close + re-open, property-group membership, remove object, set flags, set cells, remove a cell, "
                         "modify values / vertices in place and assign back, create an empty property group, create entities with deferred "
                         "write, move data to another object, ask a property group to list another object's data} on a "
                         "3-vertex point set (all first operations) and a 3-vertex curve (6 first operations)",
                "thorough": "all sequences of 3 operations, points and curve, every first operation"}[tier],
        expected_outcomes={"OpSequence": {"ok"}},
    )
