"""C03 -- no accepted attribute change is lost: write-through completeness (symx, seams B + C)."""
from __future__ import annotations

import os
import uuid

import numpy as real_np

from symx import patch, h5shim, nd, npshim
from symx.core import And, Or, Not, eq, is_sym, is_nan
from .common import Scenario, elems, shape, mk_array, run_property


# ----------------------------------------------------------------------------------------------------------
# entity factories (real numpy, stored in the in-memory file)
# ----------------------------------------------------------------------------------------------------------
def _points(ws):
    from geoh5py.objects import Points
    return Points.create(ws, vertices=real_np.arange(9.0).reshape(3, 3))


def _curve(ws):
    from geoh5py.objects import Curve
    return Curve.create(ws, vertices=real_np.arange(9.0).reshape(3, 3), cells=real_np.array([[0, 1], [1, 2]], dtype="int32"))


def _surface(ws):
    from geoh5py.objects import Surface
    return Surface.create(ws, vertices=real_np.arange(12.0).reshape(4, 3), cells=real_np.array([[0, 1, 2], [1, 2, 3]], dtype="int32"))


def _grid(ws):
    from geoh5py.objects import Grid2D
    return Grid2D.create(ws, origin=[1.0, 2.0, 3.0], u_cell_size=1.0, v_cell_size=2.0, u_count=2, v_count=3, rotation=10.0, dip=20.0)


def _block(ws):
    from geoh5py.objects import BlockModel
    return BlockModel.create(ws, origin=[1.0, 2.0, 3.0], u_cell_delimiters=real_np.array([0.0, 1.0, 2.0]),
                             v_cell_delimiters=real_np.array([0.0, 1.0]), z_cell_delimiters=real_np.array([0.0, -1.0, -2.0]),
                             rotation=5.0)


def _octree(ws):
    from geoh5py.objects import Octree
    return Octree.create(ws, origin=[1.0, 2.0, 3.0], u_count=2, v_count=2, w_count=2, u_cell_size=1.0, v_cell_size=1.0,
                         w_cell_size=1.0, rotation=5.0)


def _drape(ws):
    from geoh5py.objects import DrapeModel
    layers = real_np.array([[0, 0, -1.0], [0, 1, -2.0], [1, 0, -1.5], [1, 1, -2.5]])
    prisms = real_np.array([[0.0, 0.0, 0.0, 0, 2], [1.0, 0.0, 0.5, 2, 2]])
    return DrapeModel.create(ws, layers=layers, prisms=prisms)


def _drillhole(ws):
    from geoh5py.objects import Drillhole
    return Drillhole.create(ws, collar=[1.0, 2.0, 3.0], surveys=real_np.c_[[0.0, 10.0], [0.0, 10.0], [-90.0, -80.0]])


def _drillhole_int_cost(ws):
    from geoh5py.objects import Drillhole
    return Drillhole.create(ws, collar=[1.0, 2.0, 3.0], surveys=real_np.c_[[0.0, 10.0], [0.0, 10.0], [-90.0, -80.0]],
                            cost=100)


def _drillhole_int_eoh(ws):
    from geoh5py.objects import Drillhole
    dh = Drillhole.create(ws, collar=[1.0, 2.0, 3.0], surveys=real_np.c_[[0.0, 10.0], [0.0, 10.0], [-90.0, -80.0]])
    dh.end_of_hole = 250
    return dh


def _with(entity, attr, value):
    setattr(entity, attr, value)
    return entity


def _concat_hole(ws):
    from geoh5py.groups import DrillholeGroup
    from geoh5py.objects import Drillhole
    g = DrillholeGroup.create(ws, name="DHG")
    h = Drillhole.create(ws, parent=g, name="hole", collar=[1.0, 2.0, 3.0], surveys=real_np.c_[[0.0, 10.0], [0.0, 10.0], [-90.0, -80.0]])
    h.add_data({"log": {"depth": real_np.array([1.0, 2.0]), "values": real_np.array([5.0, 6.0])}})
    return h


def _concat_data(ws):
    return _concat_hole(ws).get_data("log")[0]


def _floatdata(ws):
    p = _points(ws)
    return p.add_data({"fd": {"values": real_np.array([1.0, 2.0, 3.0])}})


def _intdata(ws):
    p = _points(ws)
    return p.add_data({"idt": {"values": real_np.array([1, 2, 3], dtype="int32"), "type": "integer"}})


def _refdata(ws):
    p = _points(ws)
    return p.add_data({"rd": {"values": real_np.array([1, 2, 1], dtype="int32"), "type": "referenced",
                              "value_map": {1: "a", 2: "b"}}})


def _textdata(ws):
    p = _points(ws)
    return p.add_data({"td": {"values": "hello", "type": "text", "association": "OBJECT"}})


def _group(ws):
    from geoh5py.groups import ContainerGroup
    return ContainerGroup.create(ws, name="grp")


def _uigroup(ws):
    from geoh5py.groups import UIJsonGroup
    return UIJsonGroup.create(ws, name="ui")


def _datatype(ws):
    return _floatdata(ws).entity_type


def _objecttype(ws):
    return _points(ws).entity_type


# ----------------------------------------------------------------------------------------------------------
# value builders: (cx, X, entity) -> new value
# ----------------------------------------------------------------------------------------------------------
def v_real(name):
    return lambda cx, X, e: cx.real(name)


def v_real3(cx, X, e):
    return [cx.real("o0"), cx.real("o1"), cx.real("o2")]


def v_reals(shape_fn, tag="a"):
    def f(cx, X, e):
        shp = shape_fn(e)
        n = 1
        for s in shp:
            n *= s
        return mk_array(X, [cx.real(f"{tag}{i}") for i in range(n)], shp, "float64")
    return f


def v_float_values(cx, X, e):
    vals = [cx.real(f"x{i}") for i in range(3)]
    for v in vals:      # the documented exception: a float exactly equal to the float no-data sentinel
        cx.assume(Not(eq(v, 1.17549435e-38)) if cx.mode == "sym" else v != 1.17549435e-38)
    return mk_array(X, vals, (3,), "float64")


def v_float_inplace(cx, X, e):
    """read-modify-write: the array handed out by the getter is changed in place and assigned back"""
    vals = [cx.real(f"x{i}") for i in range(3)]
    y = cx.real("y0")
    for v in vals + [y]:
        cx.assume(Not(eq(v, 1.17549435e-38)) if cx.mode == "sym" else v != 1.17549435e-38)
    e.values = mk_array(X, vals, (3,), "float64")
    arr = e.values
    arr[0] = y
    return arr


def v_vertices_inplace(cx, X, e):
    e.vertices = mk_array(X, [cx.real(f"v{i}") for i in range(9)], (3, 3), "float64")
    arr = e.vertices
    arr[1, 2] = cx.real("w")
    return arr


def v_with_inf(cx, X):
    x1 = cx.real("x1")
    cx.assume(Not(eq(x1, 1.17549435e-38)) if cx.mode == "sym" else x1 != 1.17549435e-38)
    return mk_array(X, [float("inf"), x1, float("-inf")], (3,), "float64")


def v_cells(w):
    def f(cx, X, e):
        n = shape(e.vertices)[0]
        m = shape(e.cells)[0]
        return mk_array(X, [cx.int(f"c{i}", 0, n) for i in range(m * w)], (m, w), "int32")
    return f


def v_const(val):
    return lambda cx, X, e: val() if callable(val) else val


def v_int(name, lo, hi):
    return lambda cx, X, e: cx.int(name, lo, hi)


def v_surveys(cx, X, e):
    d0, d1 = cx.real("d0"), cx.real("d1")
    cx.assume(d0 >= 0)
    cx.assume(d0 <= d1)
    return mk_array(X, [d0, cx.real("a0"), cx.real("p0"), d1, cx.real("a1"), cx.real("p1")], (2, 3), "float64")


def v_octree_cells(cx, X, e):
    return mk_array(X, [cx.int(f"r{i}", 0, 4) for i in range(8)], (2, 4), "int32")


def v_layers(cx, X, e):
    z = [cx.real(f"z{i}") for i in range(4)]
    return mk_array(X, [0.0, 0.0, z[0], 0.0, 1.0, z[1], 1.0, 0.0, z[2], 1.0, 1.0, z[3]], (4, 3), "float64")


def v_prisms(cx, X, e):
    p = [cx.real(f"p{i}") for i in range(6)]
    return mk_array(X, [p[0], p[1], p[2], 0.0, 2.0, p[3], p[4], p[5], 2.0, 2.0], (2, 5), "float64")


def v_intvalues(cx, X, e):
    return mk_array(X, [cx.int(f"x{i}", -1000, 1000) for i in range(3)], (3,), "int32")


def v_colormap(cx, X, e):
    from geoh5py.data.color_map import ColorMap
    vals = real_np.c_[real_np.array([0.0, 1.0]), real_np.array([[10, 20, 30, 255], [40, 50, 60, 255]])]
    return ColorMap(values=vals.T if False else vals, name="cm") if False else _mk_colormap()


def _mk_colormap():
    from geoh5py.data.color_map import ColorMap
    rgba = real_np.core.records.fromarrays(
        [real_np.array([0.0, 1.0]), real_np.array([10, 40], dtype="u1"), real_np.array([20, 50], dtype="u1"),
         real_np.array([30, 60], dtype="u1"), real_np.array([255, 255], dtype="u1")],
        names=["Value", "Red", "Green", "Blue", "Alpha"])
    return ColorMap(values=rgba, name="cm")


# attribute table --------------------------------------------------------------------------------------------
# key: (factory, attribute, value builder, geoh5py modules needing float/int stand-ins, symbolic?)
G2 = ("geoh5py.objects.grid2d",)
OC = ("geoh5py.objects.octree",)
DH = ("geoh5py.objects.drillhole:float,int",)
CASES = {
    "Points.vertices": (_points, "vertices", v_reals(lambda e: (3, 3), "v"), ()),
    "Points.name": (_points, "name", v_const("renamed"), ()),
    "Points.visible": (_points, "visible", v_const(False), ()),
    "Points.public": (_points, "public", v_const(False), ()),
    "Points.allow_delete": (_points, "allow_delete", v_const(False), ()),
    "Points.allow_move": (_points, "allow_move", v_const(False), ()),
    "Points.allow_rename": (_points, "allow_rename", v_const(False), ()),
    "Points.partially_hidden": (_points, "partially_hidden", v_const(True), ()),
    "Points.metadata": (_points, "metadata", v_const(lambda: {"k": {"a": 1, "b": "x"}}), ()),
    "Curve.vertices": (_curve, "vertices", v_reals(lambda e: (3, 3), "v"), ()),
    "Curve.cells": (_curve, "cells", v_cells(2), ()),
    "Curve.parts": (_curve, "parts", lambda cx, X, e: mk_array(X, [cx.int(f"p{i}", 0, 3) for i in range(3)], (3,), "int32"), ()),
    "Points.metadata=None": (lambda ws: _with(_points(ws), "metadata", {"k": 1}), "metadata", v_const(None), ()),
    "ReferencedData.value_map=None": (lambda ws: _refdata(ws).entity_type, "value_map", v_const(None), ()),
    "DataType.color_map=None": (lambda ws: _with(_datatype(ws), "color_map", _mk_colormap()), "color_map", v_const(None), ()),
    "Surface.cells": (_surface, "cells", v_cells(3), ()),
    "Grid2D.origin": (_grid, "origin", v_real3, G2),
    "Grid2D.rotation": (_grid, "rotation", v_real("r"), G2),
    "Grid2D.dip": (_grid, "dip", v_real("r"), G2),
    "Grid2D.u_cell_size": (_grid, "u_cell_size", v_real("r"), G2),
    "Grid2D.v_cell_size": (_grid, "v_cell_size", v_real("r"), G2),
    "Grid2D.u_count": (_grid, "u_count", v_int("k", 1, 5), G2),
    "Grid2D.v_count": (_grid, "v_count", v_int("k", 1, 5), G2),
    "Grid2D.vertical": (_grid, "vertical", v_const(True), G2),
    "BlockModel.origin": (_block, "origin", v_real3, ()),
    "BlockModel.rotation": (_block, "rotation", v_real("r"), ()),
    "BlockModel.u_cell_delimiters": (_block, "u_cell_delimiters", v_reals(lambda e: (3,), "u"), ()),
    "BlockModel.v_cell_delimiters": (_block, "v_cell_delimiters", v_reals(lambda e: (2,), "u"), ()),
    "BlockModel.z_cell_delimiters": (_block, "z_cell_delimiters", v_reals(lambda e: (3,), "u"), ()),
    "Octree.origin": (_octree, "origin", v_real3, OC),
    "Octree.rotation": (_octree, "rotation", v_real("r"), OC),
    "Octree.u_cell_size": (_octree, "u_cell_size", v_real("r"), OC),
    "Octree.v_cell_size": (_octree, "v_cell_size", v_real("r"), OC),
    "Octree.w_cell_size": (_octree, "w_cell_size", v_real("r"), OC),
    "Octree.u_count": (_octree, "u_count", v_const(4), OC),
    "Octree.v_count": (_octree, "v_count", v_const(4), OC),
    "Octree.w_count": (_octree, "w_count", v_const(4), OC),
    "Octree.octree_cells": (_octree, "octree_cells", v_octree_cells, OC),
    "DrapeModel.layers": (_drape, "layers", v_layers, ()),
    "DrapeModel.prisms": (_drape, "prisms", v_prisms, ()),
    "Drillhole.collar": (_drillhole, "collar", v_real3, DH),
    "Drillhole.surveys": (_drillhole, "surveys", v_surveys, DH),
    "Drillhole.cost": (_drillhole, "cost", v_real("r"), DH),
    "Drillhole.end_of_hole": (_drillhole, "end_of_hole", v_real("r"), DH),
    "Drillhole.cost(int-created)": (_drillhole_int_cost, "cost", v_real("r"), DH),
    "Drillhole.end_of_hole(int-created)": (_drillhole_int_eoh, "end_of_hole", v_real("r"), DH),
    "Drillhole.planning": (_drillhole, "planning", v_const("Ongoing"), DH),
    "ConcatenatedDrillhole.name": (_concat_hole, "name", v_const("renamed hole"), DH),
    "ConcatenatedDrillhole.cost": (_concat_hole, "cost", v_const(12.5), DH),
    "ConcatenatedDrillhole.public": (_concat_hole, "public", v_const(False), DH),
    "ConcatenatedData.name": (_concat_data, "name", v_const("renamed log"), ()),
    "FloatData.values": (_floatdata, "values", v_float_values, ()),
    "FloatData.values(read-modify-write)": (_floatdata, "values", v_float_inplace, ()),
    "FloatData.values(with infinities)": (_floatdata, "values", lambda cx, X, e: v_with_inf(cx, X), ()),
    "Points.vertices(read-modify-write)": (_points, "vertices", v_vertices_inplace, ()),
    "FloatData.name": (_floatdata, "name", v_const("renamed"), ()),
    "FloatData.visible": (_floatdata, "visible", v_const(False), ()),
    "FloatData.allow_rename": (_floatdata, "allow_rename", v_const(False), ()),
    "FloatData.modifiable": (_floatdata, "modifiable", v_const(False), ()),
    "IntegerData.values": (_intdata, "values", v_intvalues, ()),
    "TextData.values": (_textdata, "values", v_const("other text"), ()),
    "ContainerGroup.name": (_group, "name", v_const("renamed"), ()),
    "ContainerGroup.public": (_group, "public", v_const(False), ()),
    "ContainerGroup.metadata": (_group, "metadata", v_const(lambda: {"m": 1}), ()),
    "UIJsonGroup.options": (_uigroup, "options", v_const(lambda: {"title": "t", "p": {"value": 1}}), ()),
    "DataType.name": (_datatype, "name", v_const("tname"), ()),
    "DataType.description": (_datatype, "description", v_const("tdesc"), ()),
    "DataType.units": (_datatype, "units", v_const("m/s"), ()),
    "DataType.mapping": (_datatype, "mapping", v_const("linear"), ()),
    "DataType.hidden": (_datatype, "hidden", v_const(True), ()),
    "DataType.number_of_bins": (_datatype, "number_of_bins", v_const(12), ()),
    "DataType.transparent_no_data": (_datatype, "transparent_no_data", v_const(False), ()),
    "DataType.color_map": (_datatype, "color_map", v_const(_mk_colormap), ()),
    "ReferencedData.value_map": (lambda ws: _refdata(ws).entity_type, "value_map", v_const(lambda: {1: "x", 2: "y", 3: "z"}), ()),
    "ObjectType.name": (_objecttype, "name", v_const("tname"), ()),
    "ObjectType.description": (_objecttype, "description", v_const("tdesc"), ()),
    "Workspace.distance_unit": (None, "distance_unit", v_const("feet"), ()),
    "Workspace.version": (None, "version", v_const(1.0), ()),
    "Workspace.ga_version": (None, "ga_version", v_const("9.9"), ()),
    "Workspace.contributors": (None, "contributors", v_const(lambda: real_np.array(["someone"], dtype=object)), ()),
}

ORDER_PAIRS = [("Grid2D.origin", "Grid2D.rotation"), ("Grid2D.u_cell_size", "Grid2D.dip"),
               ("BlockModel.origin", "BlockModel.u_cell_delimiters"), ("Octree.origin", "Octree.u_cell_size"),
               ("Drillhole.collar", "Drillhole.surveys"), ("Curve.vertices", "Curve.cells")]


def _norm(v):
    """comparable form of an attribute value"""
    if isinstance(v, real_np.generic):
        v = v.item()
    if v is None or isinstance(v, (str, bytes, bool, int, float, uuid.UUID)) or is_sym(v):
        return v
    if isinstance(v, dict):
        return {k: _norm(x) for k, x in v.items()}
    if type(v).__name__ == "ColorMap":
        return ("ColorMap", v.name, _norm(getattr(v, "values", None)))
    if type(v).__name__ == "ReferenceValueMap":
        return _norm(v.map)
    if hasattr(v, "name") and hasattr(v, "value") and type(type(v)).__name__ == "EnumMeta" or type(type(v)).__name__ == "EnumType":
        return v.name
    if isinstance(v, (list, tuple)):
        return [_norm(x) for x in v]
    if hasattr(v, "shape") and hasattr(v, "dtype"):
        try:
            return ("array", tuple(shape(v)), elems(v))
        except Exception:  # noqa: BLE001
            pass
    return "<" + type(v).__name__ + ">"


def _same(a, b):
    if isinstance(a, tuple) and isinstance(b, tuple) and a and b and a[0] == "array" and b[0] == "array":
        if a[1] != b[1] and not (len(a[2]) == len(b[2])):
            return False
        return And([_same(x, y) for x, y in zip(a[2], b[2])]) if len(a[2]) == len(b[2]) else False
    if isinstance(a, (list, tuple)) and isinstance(b, (list, tuple)):
        return And([_same(x, y) for x, y in zip(a, b)]) if len(a) == len(b) else False
    if isinstance(a, dict) and isinstance(b, dict):
        return And([_same(a[k], b[k]) for k in a]) if set(a) == set(b) else False
    if isinstance(a, bytes):
        a = a.decode()
    if isinstance(b, bytes):
        b = b.decode()
    if isinstance(a, (str, type(None), uuid.UUID)) or isinstance(b, (str, type(None), uuid.UUID)):
        return a == b
    if is_nan(a) and is_nan(b):
        return True
    return eq(a, b)


ASSIGNED_IS_SHOWN = ("Grid2D.origin", "Grid2D.rotation", "Grid2D.u_cell_size", "Grid2D.v_cell_size", "BlockModel.origin",
                     "BlockModel.rotation", "Octree.origin", "Octree.rotation", "Octree.u_cell_size", "Octree.v_cell_size",
                     "Octree.w_cell_size", "Drillhole.collar", "Drillhole.cost", "Drillhole.end_of_hole")


def _flat(v):
    """list of scalars of a number, a triple, a record or an array; None for anything else"""
    if isinstance(v, tuple) and v and v[0] == "array":
        return list(v[2])
    if isinstance(v, (list, tuple)):
        out = []
        for x in v:
            f = _flat(x)
            if f is None:
                return None
            out += f
        return out
    if is_sym(v) or isinstance(v, (int, float)) and not isinstance(v, bool):
        return [v]
    return None


class SetAttribute(Scenario):
    """assign one (or two, in a given order) attributes of a stored entity; compare live value, value at persist time and
    the value a fresh Workspace reads from the same file"""
    pid = "C03"
    include_io = True

    def __init__(self, **params):
        super().__init__(**params)
        mods = []
        for key in params["cases"]:
            mods += list(CASES[key][3])
        self.builtins_for = tuple(dict.fromkeys(mods))

    def run(self, cx):
        if self.backend == "real":
            return super().run(cx)
        with h5shim.h5_on():
            return super().run(cx)

    def body(self, cx):
        from geoh5py.workspace import Workspace
        from geoh5py.shared.entity_type import EntityType
        keys = self.params["cases"]
        h5shim.reset()
        patch.STUBS_USED.add("h5py (workspace.workspace, shared.utils, io.h5_reader, io.h5_writer) -> symx.h5shim proxy (A-H5)")
        patch.STUBS_USED.add("Workspace.update_attribute (instance) -> recording wrapper around the real method (seam C)")
        ws = Workspace()
        factory = CASES[keys[0]][0]
        ent = factory(ws) if factory is not None else ws
        if self.params.get("reopen_first") and ent is not ws:
            # the assignment happens in a later session: the entity is loaded lazily from the file
            uid0 = ent.uid
            was_type = isinstance(ent, EntityType)
            ws.close()
            ws = Workspace(ws.h5file)
            if was_type:
                ent = [t for t in ws.types if t.uid == uid0][0]
            else:
                ent = ws.get_entity(uid0)[0]
                if ent is None:     # concatenated children are reached through their group
                    for grp in ws.groups:
                        for ch in getattr(grp, "children", []):
                            for c2 in [ch] + list(getattr(ch, "children", [])):
                                if getattr(c2, "uid", None) == uid0:
                                    ent = c2
        calls = []
        real_update = ws.update_attribute

        def recorder(entity, attribute, channel=None, **kw):
            snap = {}
            for k in keys:
                a = CASES[k][1]
                try:
                    snap[a] = _norm(getattr(ent, a))
                except Exception:  # noqa: BLE001
                    snap[a] = "<unreadable>"
            calls.append((entity is ent, attribute, snap))
            return real_update(entity, attribute, channel, **kw)
        ws.update_attribute = recorder
        with self.engine(cx) as X:
            for key in keys:
                self.known_class(cx, key, True)
            accepted = []
            for key in keys:
                _, attr, build, _ = CASES[key]
                v = build(cx, X, ent)
                n0 = len(calls)
                given_value = v
                try:
                    setattr(ent, attr, v)
                except Exception as e:  # noqa: BLE001
                    if os.environ.get("VERIF_DEBUG"):
                        import traceback
                        traceback.print_exc()
                    if len(keys) == 1:
                        return f"rejected {type(e).__name__}"
                    continue
                accepted.append((key, attr, n0))
            if not accepted:
                return "rejected"
            live = {attr: _norm(getattr(ent, attr)) for _, attr, _ in accepted}
            # O0: an accepted assignment of a plain number / triple is what the getter shows afterwards (a setter that silently
            # ignores the value loses the change just as well as one that forgets to persist it)
            if len(keys) == 1 and keys[0] in ASSIGNED_IS_SHOWN:
                shown, given = _flat(live[accepted[0][1]]), _flat(_norm(given_value))
                if shown is not None and given is not None and len(shown) == len(given):
                    cx.prove(And([eq(a, b) for a, b in zip(shown, given)]),
                             f"{keys[0]}: after an accepted assignment the getter shows the value assigned", "assignment takes effect")
            # O1: persist-after-store -- at the last persistence call issued by the setter the entity already shows the new value
            for key, attr, n0 in accepted:
                mine = [c for c in calls[n0:] if c[0]]
                if mine and len(keys) == 1:
                    cx.prove(_same(mine[-1][2][attr], live[attr]),
                             f"{key}: value at the time of the persistence call == value after the setter returned",
                             "persist after store")
            # O2: stored == in-memory, through a fresh reader
            uid = getattr(ent, "uid", None)
            ws.close()
            try:
                ws2 = Workspace(ws.h5file)
            except Exception as e:  # noqa: BLE001
                cx.prove(False, f"{keys[0]}: value read by a fresh Workspace == in-memory value",
                         "stored == in-memory")
                return f"re-open raised {type(e).__name__}"
            if ent is ws:
                e2 = ws2
            elif isinstance(ent, EntityType):
                e2 = None
                for t in list(ws2.types):
                    if t.uid == uid:
                        e2 = t
            else:
                e2 = ws2.get_entity(uid)[0]
                if e2 is None:
                    for grp in ws2.groups:
                        for ch in getattr(grp, "children", []):
                            for c2 in [ch] + list(getattr(ch, "children", [])):
                                if getattr(c2, "uid", None) == uid:
                                    e2 = c2
            cx.prove(e2 is not None, f"{keys[0]}: entity found again in the file", "stored == in-memory")
            if e2 is not None:
                for key, attr, _ in accepted:
                    try:
                        back = _norm(getattr(e2, attr))
                    except Exception as e:  # noqa: BLE001
                        back = f"<unreadable {type(e).__name__}>"
                    cx.prove(_same(back, live[attr]), f"{key}: value read by a fresh Workspace == in-memory value",
                             "stored == in-memory")
                # the whole entity: every mapped attribute a fresh reader sees equals the in-memory one
                amap = getattr(ent, "attribute_map", None) or getattr(ent, "_attribute_map", None)
                if isinstance(amap, dict):
                    extra = [a for a in ("vertices", "cells", "parts", "values", "surveys", "collar", "layers", "prisms",
                                         "octree_cells", "u_cell_delimiters", "v_cell_delimiters", "z_cell_delimiters",
                                         "metadata", "value_map") if hasattr(type(ent), a)]
                    for name in sorted({v.split(":")[0].strip() for v in amap.values()} | set(extra)):
                        if name in ("uid", "on_file", "parent", "entity_type", "concatenated_attributes", "property_groups"):
                            continue
                        try:
                            lv, bv = _norm(getattr(ent, name)), _norm(getattr(e2, name))
                        except Exception:  # noqa: BLE001
                            continue
                        if isinstance(lv, str) and lv.startswith("<") or isinstance(bv, str) and bv.startswith("<"):
                            continue
                        cx.prove(_same(bv, lv), f"{keys[0]}: after the assignment, mapped attribute '{name}' read by a fresh "
                                                f"Workspace == in-memory value", "stored == in-memory (whole entity)")
            ws2.close()
            return "ok"


def discovered_pairs():
    """reflective inventory of assignable attributes (attribute maps + array fields) for the evidence file"""
    import inspect
    import geoh5py.objects as O
    import geoh5py.groups as G
    import geoh5py.data as D
    out = {}
    for mod in (O, G, D):
        for name, cls in inspect.getmembers(mod, inspect.isclass):
            amap = getattr(cls, "_attribute_map", None)
            attrs = set()
            if isinstance(amap, dict):
                attrs |= {v.split(":")[0] for v in amap.values()}
            for a, p in inspect.getmembers(cls, lambda x: isinstance(x, property)):
                if p.fset is not None:
                    attrs.add(a)
            out[name] = sorted(attrs)
    return out


REOPEN_QUICK = ["ConcatenatedDrillhole.name", "ConcatenatedDrillhole.cost", "ConcatenatedData.name", "Grid2D.rotation",
                "Curve.cells", "FloatData.values", "Points.name", "DataType.name", "Drillhole.collar", "BlockModel.z_cell_delimiters",
                "Octree.octree_cells", "Points.metadata"]


def scenarios(tier, seed):
    S = [SetAttribute(cases=[k]) for k in CASES]
    S += [SetAttribute(cases=[k], reopen_first=True) for k in (REOPEN_QUICK if tier == "quick" else CASES)
          # int-created drillholes cannot be re-read before the assignment (np.int64 fails the setters' isinstance: C01/C19
          # territory, not a setter losing data), so the later-session variant does not exist for them
          if not k.startswith("Workspace.") and "(int-created)" not in k]
    if tier == "thorough":
        for a, b in ORDER_PAIRS:
            S.append(SetAttribute(cases=[a, b]))
            S.append(SetAttribute(cases=[b, a]))
    else:
        S.append(SetAttribute(cases=list(ORDER_PAIRS[0])))
        S.append(SetAttribute(cases=list(reversed(ORDER_PAIRS[0]))))
    return S


def main(tier, seed):
    inv = discovered_pairs()
    covered = sorted(CASES)
    n_pairs = sum(len(v) for v in inv.values())
    return run_property(
        "C03", scenarios(tier, seed), tier, seed,
        assumptions=[
            "A-H5 (seam B): geoh5py runs on a proxy over the real in-memory HDF5 file; datasets/attributes with symbolic "
            "content are kept beside a real placeholder and handed back unchanged; concrete payloads go through real h5py",
            "seam C: Workspace.update_attribute is wrapped on the instance by a recorder that snapshots the getter value",
            "A-REAL: floats as mathematical reals; strings, flags, dictionaries, colour/value maps are concrete values "
            "(enumerated, evaluated directly -- no solver involved for those pairs)",
            "nothing is asserted after a rejected assignment",
        ],
        outside=["h5py's on-disk conversions of symbolic payloads", "attributes not named in the property statement",
                 "concatenated (drillhole-group) entities: persistence goes through C04's path",
                 "survey classes, GeoImage, VisualParameters", "(class, attribute) pairs discovered reflectively but without a "
                 "typed value builder in harness/c03.py CASES (listed in evidence: uncovered_pairs)"],
        bounds="one assignment per (class, attribute) pair of the table (arrays of 2-4 rows); attribute pairs in both orders "
               "(quick: 1 pair, thorough: 6 pairs)",
        expected_outcomes={"SetAttribute": {"ok"}},
        extra_evidence={"covered_pairs": covered, "reflective_inventory_size": n_pairs,
                        "reflective_inventory_classes": len(inv)},
    )
