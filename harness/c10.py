"""C10 -- read-only workspaces never change the file (symx path exploration; weak use of the technique).

A file written by the library is opened with mode 'r'; a sequence of API calls is chosen symbolically from an alphabet of
getters, setters, creations, removals, copies and helpers (one explored path per sequence); afterwards the bytes of the
file are compared with the bytes before, the handle's mode is inspected, and every call that would have had to write must
have failed with an error.  Nothing here is value-level: the solver only chooses the sequence."""
from __future__ import annotations

import io
import os
import shutil
import uuid as _uuid

import numpy as real_np

from .common import Scenario, run_property, HERE

WRITERS = ["set_vertices", "set_values", "rename", "move", "copy_inside", "remove_vertices", "remove_data", "add_data",
           "group_membership", "remove_object", "set_flags", "set_cells", "remove_cells", "modify_values", "empty_group",
           "move_data", "set_metadata", "create_group", "retype_data", "value_map", "hole_rename", "hole_collar", "hole_log_values"]
READERS = ["read_everything", "copy_to_other_workspace", "monitored_copy", "load_ui_json", "reopen_same_mode", "close_then_open"]
CALLS = WRITERS + READERS


class ReadOnlySequence(Scenario):
    pid = "C10"

    def body(self, cx):
        from geoh5py.workspace import Workspace
        from geoh5py.groups import ContainerGroup
        from geoh5py.objects import Points, Curve
        first, length, on_disk = self.params["first"], self.params["length"], self.params.get("on_disk", False)
        work = os.path.join(HERE, ".work", f"c10_{os.getpid()}_{_uuid.uuid4().hex[:8]}")
        os.makedirs(work, exist_ok=True)
        cx.on_exit(lambda: shutil.rmtree(work, ignore_errors=True))
        path = os.path.join(work, "ro.geoh5")
        ws = Workspace.create(path)
        g = ContainerGroup.create(ws, name="G")
        h = ContainerGroup.create(ws, name="H")
        o = Curve.create(ws, vertices=real_np.arange(9.0).reshape(3, 3), cells=real_np.array([[0, 1], [1, 2]], dtype="int32"), name="O",
                         parent=g)
        d1 = o.add_data({"D1": {"values": real_np.arange(3.0)}})
        d2 = o.add_data({"D2": {"values": real_np.array([1, 2, 1], dtype="int32"), "type": "referenced", "value_map": {1: "a", 2: "b"}}})
        o.find_or_create_property_group(name="PG", properties=[d1.uid])
        p = Points.create(ws, vertices=real_np.arange(9.0).reshape(3, 3) + 1, name="P", parent=h)
        s1 = p.add_data({"S1": {"values": real_np.arange(3.0)}})
        from geoh5py.groups import DrillholeGroup
        from geoh5py.objects import Drillhole
        dg = DrillholeGroup.create(ws, name="DH")
        hole = Drillhole.create(ws, parent=dg, name="hole", collar=[0.0, 0.0, 0.0], surveys=real_np.c_[[0.0, 10.0], [0.0, 0.0], [-90.0, -90.0]])
        hole.add_data({"log": {"depth": real_np.array([1.0, 2.0]), "values": real_np.array([5.0, 6.0])}})
        uid = {"g": g.uid, "h": h.uid, "o": o.uid, "d1": d1.uid, "d2": d2.uid, "p": p.uid, "s1": s1.uid}
        ws.close()
        del g, h, o, d1, d2, p, s1, dg, hole
        if self.params.get("no_root"):          # a file without the optional Root link (the reader then builds a root in memory)
            import h5py as _h
            with _h.File(path, "r+") as f:
                del f["GEOSCIENCE"]["Root"]
        with open(path, "rb") as fh:
            before = fh.read()
        mtime = os.stat(path).st_mtime_ns
        calls = [first] + [CALLS[int(cx.int(f"call{t}", 0, len(CALLS)))] for t in range(1, length)]
        ws = Workspace(path, mode="r")
        get = lambda k: ws.get_entity(uid[k])[0]      # noqa: E731

        def the_hole():
            grp = [x for x in ws.groups if x.name == "DH"][0]
            return [x for x in grp.children if getattr(x, "name", None) == "hole"][0]
        for t, call in enumerate(calls):
            raised = None
            try:
                o = get("o")
                if call == "set_vertices":
                    o.vertices = real_np.arange(9.0).reshape(3, 3) * 2
                elif call == "set_values":
                    get("d1").values = real_np.arange(3.0) + 5
                elif call == "rename":
                    o.name = "renamed"
                elif call == "move":
                    o.parent = get("h")
                elif call == "copy_inside":
                    o.copy(parent=get("h"))
                elif call == "remove_vertices":
                    o.remove_vertices([0])
                elif call == "remove_data":
                    ws.remove_entity(get("d1"))
                elif call == "add_data":
                    o.add_data({"new": {"values": real_np.arange(3.0)}})
                elif call == "group_membership":
                    o.property_groups[0].add_properties(get("d2"))
                elif call == "remove_object":
                    ws.remove_entity(o)
                elif call == "set_flags":
                    o.visible = False
                elif call == "set_cells":
                    o.cells = real_np.array([[0, 2], [2, 1]], dtype="int32")
                elif call == "remove_cells":
                    o.remove_cells([0])
                elif call == "modify_values":
                    d = get("d1")
                    arr = d.values
                    arr[0] = 42.0
                    d.values = arr
                elif call == "empty_group":
                    o.find_or_create_property_group(name="another")
                elif call == "move_data":
                    get("d1").parent = get("p")
                elif call == "set_metadata":
                    o.metadata = {"k": 1}
                elif call == "create_group":
                    ContainerGroup.create(ws, name="made in read-only mode")
                elif call == "retype_data":
                    get("d1").entity_type = get("s1").entity_type
                elif call == "value_map":
                    get("d2").entity_type.value_map = {1: "x", 2: "y"}
                elif call == "hole_rename":
                    the_hole().name = "renamed hole"
                elif call == "hole_collar":
                    the_hole().collar = [1.0, 2.0, 3.0]
                elif call == "hole_log_values":
                    the_hole().get_data("log")[0].values = real_np.array([7.0, 8.0])
                elif call == "close_then_open":
                    ws.close()
                    ws.open()
                elif call == "read_everything":
                    for e in list(ws.groups) + list(ws.objects) + list(ws.data):
                        for a in ("vertices", "cells", "values", "metadata", "property_groups", "children", "extent"):
                            if hasattr(e, a):
                                getattr(e, a)
                elif call == "copy_to_other_workspace":
                    other = Workspace()
                    o.copy(parent=other)
                    other.close()
                elif call == "monitored_copy":
                    from geoh5py.ui_json.utils import monitored_directory_copy
                    mon = os.path.join(work, f"monitor{t}")
                    os.makedirs(mon, exist_ok=True)
                    monitored_directory_copy(mon, o)
                elif call == "load_ui_json":
                    from geoh5py.ui_json import InputFile
                    from geoh5py.ui_json.constants import default_ui_json
                    from copy import deepcopy
                    ui = deepcopy(default_ui_json)
                    ui["geoh5"] = path
                    ui["title"] = "t"
                    ws.close()          # the helper opens the file named in the ui.json on the user's behalf: nobody else holds it
                    InputFile(ui_json=ui, validate=False).data      # noqa: B018
                    ws = Workspace(path, mode="r")
                elif call == "reopen_same_mode":
                    ws.close()
                    ws = Workspace(path, mode="r")
            except Exception as e:  # noqa: BLE001
                raised = type(e).__name__
            # a refused call may have changed the live objects already (later calls then start from a state that is not the file's):
            # the error / success verdict is asserted while every earlier call was a reader
            clean = all(c in READERS for c in calls[:t])
            if call in WRITERS and clean:
                cx.prove(raised is not None, f"'{call}' on a read-only workspace fails with an error", "writes fail")
            elif call in READERS and clean:
                cx.prove(raised is None, f"'{call}' works on a read-only workspace ({raised})", "reads work")
            cx.prove(ws.geoh5.mode == "r" if ws._geoh5 else True, f"after '{call}' the handle is still read-only", "mode unchanged")   # noqa: SLF001
        ws.close()
        with open(path, "rb") as fh:
            after = fh.read()
        seq = " -> ".join(calls)
        cx.prove(after == before, f"[{seq}] the bytes of the file are unchanged", "file unchanged")
        cx.prove(os.stat(path).st_mtime_ns == mtime, f"[{seq}] the file was not rewritten (modification time)", "file unchanged")
        return "ok"


def scenarios(tier, seed):
    length = 2 if tier == "quick" else 3
    S = [ReadOnlySequence(first=c, length=length) for c in CALLS]
    S += [ReadOnlySequence(first=c, length=2, no_root=True) for c in READERS + ["rename", "add_data"]]
    return S


def main(tier, seed):
    return run_property(
        "C10", scenarios(tier, seed), tier, seed,
        assumptions=["the sequence of calls is symbolic (one explored path per sequence); everything else is concrete: a file on disk "
                     "(two groups, a curve with float and referenced data and a property group, a point set with data) opened with mode 'r'",
                     "a call 'would have to write' if it is one of the 20 mutating calls of the alphabet; the 5 others (read every attribute, "
                     "copy to another workspace, copy to a monitoring directory, load a ui.json naming the file, re-open in the same mode) "
                     "must work"],
        outside=["that h5py itself honours mode 'r' (trusted)", "other entity classes, longer sequences, concurrent writers",
                 "processes holding the file open elsewhere"],
        bounds={"quick": "all sequences of 2 calls from an alphabet of 29", "thorough": "all sequences of 3 calls"}[tier],
        expected_outcomes={"ReadOnlySequence": {"ok"}}, validate_max=0,
    )
