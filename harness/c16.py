"""C16 -- merging preserves every input's geometry and data (symx, seam A)."""
from __future__ import annotations

import itertools

import numpy as real_np

from symx import patch
from symx.core import And, Or, Not, Implies, Sum, select, eq, ite, is_nan
from symx import h5shim
from .common import Scenario, elems, shape, mk_array, run_property, assume_not_ndv


class Merge(Scenario):
    """{Points,Curve,Surface}Merger.merge_objects on inputs with symbolic vertices, in-range cells and data on a subset"""
    pid = "C16"
    include_io = True

    def run(self, cx):
        if self.backend == "real" or not self.params.get("stored"):
            return super().run(cx)
        with h5shim.h5_on():
            return super().run(cx)

    def body(self, cx):
        from geoh5py.workspace import Workspace
        from geoh5py.objects import Curve, Surface, Points
        from geoh5py.shared.merging import CurveMerger, SurfaceMerger, PointsMerger
        stored = bool(self.params.get("stored"))
        if stored:
            h5shim.reset()
        kind = self.params["kind"]
        shapes = self.params["shapes"]            # [(n_i, m_i)]
        has_v = self.params.get("vdata", [False] * len(shapes))
        has_c = self.params.get("cdata", [False] * len(shapes))
        w = {"points": 0, "curve": 2, "surface": 3}[kind]
        cname = self.params.get("cell_data_name", "c")      # "d": same name as the vertex data, other association
        cls, merger = {"points": (Points, PointsMerger), "curve": (Curve, CurveMerger),
                       "surface": (Surface, SurfaceMerger)}[kind]
        ws = Workspace()
        ins, vds, cds, xds = [], [], [], []
        for e, (n, m) in enumerate(shapes):
            kw = {"vertices": real_np.zeros((n, 3)), "name": f"in{e}"}
            if w:
                kw["cells"] = real_np.zeros((m, w), dtype="int32")
            o = cls.create(ws, **kw)
            vd = o.add_data({"d": {"values": real_np.zeros(n), "association": "VERTEX"}}) if has_v[e] else None
            cd = o.add_data({cname: {"values": real_np.zeros(m), "association": "CELL"}}) if (w and has_c[e] and m) else None
            extras = self.params.get("extras", [()] * len(shapes))[e]
            if "referenced" in extras:
                xds.append(o.add_data({"r": {"values": (real_np.arange(n) % 2 + 1).astype("int32"), "type": "referenced",
                                             "value_map": {1: "x", 2: "y"}, "association": "VERTEX"}}))
            if "integer" in extras:
                xds.append(o.add_data({"i": {"values": (real_np.arange(n) + 10 * (e + 1)).astype("int32"), "type": "integer",
                                             "association": "VERTEX"}}))
            if "boolean" in extras:
                xds.append(o.add_data({"b": {"values": real_np.arange(n) % 2 == 0, "type": "boolean", "association": "VERTEX"}}))
            ins.append(o)
            vds.append(vd)
            cds.append(cd)
        if not stored:
            patch.detach(ws, *[x for x in ins + vds + cds + xds if x is not None])
        with self.engine(cx) as X:
            sym = []
            for e, (o, (n, m)) in enumerate(zip(ins, shapes)):
                V = [[cx.real(f"v{e}_{i}{a}") for a in "xyz"] for i in range(n)]
                C = [[cx.int(f"c{e}_{i}_{a}", 0, n) for a in range(w)] for i in range(m)] if w else []
                o.vertices = mk_array(X, [x for r in V for x in r], (n, 3), "float64")
                if w:
                    o.cells = mk_array(X, [x for r in C for x in r], (m, w), "int32")
                D = CD = None
                if vds[e] is not None:
                    D = [cx.real(f"d{e}_{i}") for i in range(n)]
                    if stored:
                        assume_not_ndv(cx, D)
                    vds[e].values = mk_array(X, D, (n,), "float64")
                if cds[e] is not None:
                    CD = [cx.real(f"e{e}_{i}") for i in range(m)]
                    if stored:
                        assume_not_ndv(cx, CD)
                    cds[e].values = mk_array(X, CD, (m,), "float64")
                sym.append((V, C, D, CD))
            if w:
                # known-finding class (fixed, kept for regression reporting): an input whose cells do not reach
                # its last vertex
                short = Or([Not(Or([C[c][a] == n - 1 for c in range(m) for a in range(w)])) if m else True
                            for (V, C, D, CD), (n, m) in list(zip(sym, shapes))[:-1]])
                self.known_class(cx, "input_cells_do_not_reach_last_vertex", short)
            try:
                out = merger.merge_objects(ws, list(ins), add_data=True)
            except Exception as e:  # noqa: BLE001
                cx.prove(False, f"merge raised {type(e).__name__}", "merge succeeds on valid same-class inputs")
                return f"raised {type(e).__name__}"
            ve = elems(out.vertices)
            tot = sum(n for n, _ in shapes)
            cx.prove(shape(out.vertices) == (tot, 3), "merged vertex count == sum of inputs", "vertices")
            allV = [v for (V, C, D, CD) in sym for v in V]
            cx.prove(And([eq(ve[i * 3 + a], allV[i][a]) for i in range(tot) for a in range(3)]),
                     "merged vertices are the inputs' vertices in order", "vertices")
            if w:
                ce = elems(out.cells)
                totc = sum(m for _, m in shapes)
                cx.prove(shape(out.cells) == (totc, w), "merged cell count == sum of inputs", "cells")
                cx.prove(And([And(c >= 0, c < tot) for c in ce]), "merged cells reference existing vertices", "cells")
                row = 0
                for e, ((V, C, D, CD), (n, m)) in enumerate(zip(sym, shapes)):
                    for r in range(m):
                        same = []
                        for a in range(w):
                            mi = ce[(row + r) * w + a]
                            for ax in range(3):
                                same.append(eq(select([allV[q][ax] for q in range(tot)], mi),
                                               select([V[q][ax] for q in range(n)], C[r][a])))
                        cx.prove(And(same), f"input {e} cell {r} connects the same coordinates", "cells connect same coordinates")
                    row += m
                cx.observe("cells", ce)
            # data
            for name, assoc, have, col in (("d", "VERTEX", has_v, 2), (cname, "CELL", has_c, 3)):
                if not any(h and (col == 2 or (w and shapes[i][1])) for i, h in enumerate(have)):
                    continue
                got = [c for c in out.children if getattr(c, "name", None) == name
                       and getattr(getattr(c, "association", None), "name", None) == assoc]
                cx.prove(len(got) == 1, f"exactly one merged data '{name}'", "data")
                if len(got) != 1:
                    continue
                vals = elems(got[0].values)
                exp_len = tot if assoc == "VERTEX" else sum(m for _, m in shapes)
                cx.prove(len(vals) == exp_len, f"merged '{name}' has one entry per {assoc.lower()}", "data")
                off = 0
                for e, ((V, C, D, CD), (n, m)) in enumerate(zip(sym, shapes)):
                    cnt = n if assoc == "VERTEX" else m
                    src = (D, CD)[col - 2]
                    if len(vals) == exp_len:
                        if src is not None:
                            cx.prove(And([eq(vals[off + i], src[i]) for i in range(cnt)]),
                                     f"'{name}' of input {e} lands at its offset", "data")
                        else:
                            cx.prove(all(is_nan(vals[off + i]) for i in range(cnt)),
                                     f"'{name}' is no-data where input {e} lacks it", "data")
                    off += cnt
                cx.observe(name + assoc, [v for v in vals if not is_nan(v)])
            # other data kinds (concrete values): one merged data set per name, inputs' values at their offsets, the kind's
            # own no-data code where an input lacks the data
            ex_all = self.params.get("extras", [()] * len(shapes))
            for nm, kindname, gen in (("r", "referenced", lambda e, n: [i % 2 + 1 for i in range(n)]),
                                      ("i", "integer", lambda e, n: [i + 10 * (e + 1) for i in range(n)]),
                                      ("b", "boolean", lambda e, n: [i % 2 == 0 for i in range(n)])):
                if not any(kindname in x for x in ex_all):
                    continue
                got = [c for c in out.children if getattr(c, "name", None) == nm]
                cx.prove(len(got) == 1, f"exactly one merged {kindname} data '{nm}'", "data (other kinds)")
                if len(got) != 1:
                    continue
                vals = [int(v) for v in elems(got[0].values)]
                blank = int(got[0].nan_value)
                exp = []
                for e, (n, m) in enumerate(shapes):
                    exp += [int(v) for v in gen(e, n)] if kindname in ex_all[e] else [blank] * n
                cx.prove(vals == exp, f"merged '{nm}': inputs' values at their offsets, no-data code {blank} where an input lacks it "
                                      f"(got {vals}, expected {exp})", "data (other kinds)")
                if kindname == "referenced":
                    vm = got[0].value_map.map if got[0].value_map is not None else {}
                    cx.prove(dict(vm).get(1) == "x" and dict(vm).get(2) == "y", "the merged referenced data keeps its value map",
                             "data (other kinds)")
            # inputs unchanged
            for e, (o, (V, C, D, CD), (n, m)) in enumerate(zip(ins, sym, shapes)):
                ie = elems(o.vertices)
                cx.prove(shape(o.vertices) == (n, 3) and And([eq(ie[i * 3 + a], V[i][a]) for i in range(n) for a in range(3)]),
                         f"input {e} vertices unchanged", "inputs unchanged")
                if w:
                    ic = elems(o.cells)
                    cx.prove(shape(o.cells) == (m, w) and And([eq(ic[i * w + a], C[i][a]) for i in range(m) for a in range(w)]),
                             f"input {e} cells unchanged", "inputs unchanged")
                if D is not None:
                    cx.prove(And([eq(x, y) for x, y in zip(elems(vds[e].values), D)]), f"input {e} data unchanged",
                             "inputs unchanged")
            cx.observe("vertices", ve)
            if stored:
                # the merged object as a fresh reader sees it
                live = {"vertices": elems(out.vertices)}
                if w:
                    live["cells"] = elems(out.cells)
                for c in out.children:
                    if hasattr(c, "values") and getattr(c, "name", None) in ("d", cname):
                        live["data:" + c.name + ":" + c.association.name] = elems(c.values)
                uid = out.uid
                ws.close()
                ws2 = Workspace(ws.h5file)
                o2 = ws2.get_entity(uid)[0]
                cx.prove(o2 is not None, "merged object found in the file", "re-open")
                if o2 is not None:
                    back = {"vertices": elems(o2.vertices)}
                    if w:
                        back["cells"] = elems(o2.cells)
                    for c in o2.children:
                        if hasattr(c, "values") and getattr(c, "name", None) in ("d", cname):
                            back["data:" + c.name + ":" + c.association.name] = elems(c.values)
                    for key, vals in live.items():
                        b = back.get(key)
                        ok = b is not None and len(b) == len(vals) and And([eq(x, y) or (is_nan(x) and is_nan(y)) for x, y in zip(b, vals)])
                        cx.prove(ok, f"re-opened {key} == merged {key}", "re-open")
                ws2.close()
            return "ok"


class DrapeMerge(Scenario):
    """DrapeModelMerger: every input cell (prism x, y, top and its layer bottoms) and its data value is found in the merged
    model; the inputs are unchanged.  Layout-agnostic: how many filler prisms sit between the inputs is not asserted."""
    pid = "C16"

    def body(self, cx):
        from geoh5py.workspace import Workspace
        from geoh5py.objects import DrapeModel
        from geoh5py.shared.merging import DrapeModelMerger
        shapes = self.params["shapes"]          # per input: list of layer counts per prism
        has_d = self.params.get("data", [True] * len(shapes))
        ws = Workspace()
        ins, dts = [], []
        for e, counts in enumerate(shapes):
            firsts = [sum(counts[:p]) for p in range(len(counts))]
            layers0 = real_np.array([[p, k, -1.0 - k] for p in range(len(counts)) for k in range(counts[p])], dtype=float)
            prisms0 = real_np.array([[float(p), float(e), 0.0, firsts[p], counts[p]] for p in range(len(counts))], dtype=float)
            dm = DrapeModel.create(ws, layers=layers0, prisms=prisms0, name=f"dm{e}")
            dt = dm.add_data({"d": {"values": real_np.zeros(sum(counts)), "association": "CELL"}}) if has_d[e] else None
            ins.append(dm)
            dts.append(dt)
        patch.detach(ws, *[x for x in ins + dts if x is not None])
        with self.engine(cx) as X:
            sym = []
            for e, (dm, counts) in enumerate(zip(ins, shapes)):
                firsts = [sum(counts[:p]) for p in range(len(counts))]
                P = [[cx.real(f"p{e}_{p}{a}") for a in "xyz"] for p in range(len(counts))]
                B = [cx.real(f"b{e}_{q}") for q in range(sum(counts))]
                lay, pri, q = [], [], 0
                for p in range(len(counts)):
                    pri += [P[p][0], P[p][1], P[p][2], float(firsts[p]), float(counts[p])]
                    for k in range(counts[p]):
                        lay += [float(p), float(k), B[q]]
                        q += 1
                dm.layers = mk_array(X, lay, (sum(counts), 3), "float64")
                dm.prisms = mk_array(X, pri, (len(counts), 5), "float64")
                D = None
                if dts[e] is not None:
                    D = [cx.real(f"d{e}_{q}") for q in range(sum(counts))]
                    dts[e].values = mk_array(X, D, (sum(counts),), "float64")
                sym.append((P, B, D, firsts))
            try:
                out = DrapeModelMerger.merge_objects(ws, list(ins), add_data=True)
            except Exception as e:  # noqa: BLE001
                cx.prove(False, f"merge raised {type(e).__name__}", "merge succeeds on valid same-class inputs")
                return f"raised {type(e).__name__}"
            mp, ml = out.prisms, out.layers
            npz, nl = shape(mp)[0], shape(ml)[0]
            pe, le = elems(mp), elems(ml)
            md = [c for c in out.children if getattr(c, "name", None) == "d"]
            mvals = elems(md[0].values) if md else None
            cx.prove(out.n_cells == nl and (mvals is None or len(mvals) == nl), "merged data has one entry per merged cell", "data")
            for e, ((P, B, D, firsts), counts) in enumerate(zip(sym, shapes)):
                for p in range(len(counts)):
                    alts = []
                    for j in range(npz):
                        fj, cj = pe[j * 5 + 3], pe[j * 5 + 4]
                        if is_sym_(fj) or is_sym_(cj) or int(cj) != counts[p]:
                            continue
                        fj = int(fj)
                        if fj < 0 or fj + counts[p] > nl:
                            continue
                        conj = [eq(pe[j * 5 + a], P[p][a]) for a in range(3)]
                        for k in range(counts[p]):
                            conj.append(eq(le[(fj + k) * 3 + 2], B[firsts[p] + k]))
                            # a layer row names the prism it belongs to and its rank in it: (I, K, bottom)
                            conj.append(eq(le[(fj + k) * 3 + 0], j))
                            conj.append(eq(le[(fj + k) * 3 + 1], k))
                            if D is not None and mvals is not None and len(mvals) == nl:
                                conj.append(eq(mvals[fj + k], D[firsts[p] + k]) if not is_nan(mvals[fj + k]) else False)
                        alts.append(And(conj))
                    cx.prove(Or(alts) if alts else False,
                             f"input {e} prism {p}: same x, y, top, layer bottoms and data values found in the merged model",
                             "cells connect same coordinates")
                ie = elems(ins[e].prisms)
                cx.prove(And([eq(ie[p * 5 + a], P[p][a]) for p in range(len(counts)) for a in range(3)]
                             + [eq(x, y) for x, y in zip([elems(ins[e].layers)[q * 3 + 2] for q in range(sum(counts))], B)]),
                         f"input {e} unchanged", "inputs unchanged")
            return "ok"


class MergeDup(Scenario):
    """two data sets with the same name (and same-named type) on ONE input: the library warns and must still keep both --
    each of them is found, at the input's offset, in its own merged data set.  The first of the two has a gap (NaN) at a
    chosen position, the values are symbolic."""
    pid = "C16"

    def body(self, cx):
        import warnings
        from geoh5py.workspace import Workspace
        from geoh5py.objects import Curve, Points
        from geoh5py.shared.merging import CurveMerger, PointsMerger
        kind = self.params["kind"]
        shapes = self.params["shapes"]
        dup_on = self.params["dup_on"]                 # index of the input that carries the two data sets
        gaps = self.params.get("gaps", (0,))           # positions of the first data set that are no-data
        others = self.params.get("others", [True] * len(shapes))   # which other inputs carry one "d"
        cls, merger = {"points": (Points, PointsMerger), "curve": (Curve, CurveMerger)}[kind]
        w = 2 if kind == "curve" else 0
        ws = Workspace()
        ins, dsets = [], []
        for e, (n, m) in enumerate(shapes):
            kw = {"vertices": real_np.zeros((n, 3)), "name": f"in{e}"}
            if w:
                kw["cells"] = real_np.array([[i, i + 1] for i in range(n - 1)], dtype="int32")
            o = cls.create(ws, **kw)
            mine = []
            if e == dup_on or others[e]:
                mine.append(o.add_data({"d": {"values": real_np.zeros(n), "association": "VERTEX"}}))
            if e == dup_on:
                mine.append(o.add_data({"d": {"values": real_np.ones(n), "association": "VERTEX"}}))
            ins.append(o)
            dsets.append(mine)
        patch.detach(ws, *(ins + [d for mine in dsets for d in mine]))
        with self.engine(cx) as X:
            sym = []
            for e, (o, (n, m)) in enumerate(zip(ins, shapes)):
                V = [[cx.real(f"v{e}_{i}{a}") for a in "xyz"] for i in range(n)]
                o.vertices = mk_array(X, [x for r in V for x in r], (n, 3), "float64")
                vals = []
                for k, d in enumerate(dsets[e]):
                    D = [float("nan") if (e == dup_on and k == 0 and i in gaps) else cx.real(f"d{e}_{k}_{i}") for i in range(n)]
                    d.values = mk_array(X, D, (n,), "float64")
                    vals.append(D)
                sym.append(vals)
            try:
                with warnings.catch_warnings():
                    warnings.simplefilter("ignore")
                    out = merger.merge_objects(ws, list(ins), add_data=True)
            except Exception as e:  # noqa: BLE001
                cx.prove(False, f"merge raised {type(e).__name__}", "merge succeeds on valid same-class inputs")
                return f"raised {type(e).__name__}"
            tot = sum(n for n, _ in shapes)
            outs = [elems(c.values) for c in out.children
                    if hasattr(c, "values") and getattr(getattr(c, "association", None), "name", None) == "VERTEX"
                    and c.values is not None]
            cx.prove(all(len(v) == tot for v in outs), "every merged data set has one entry per merged vertex", "data")
            outs = [v for v in outs if len(v) == tot]

            def same(a, b):
                if is_nan(a) or is_nan(b):
                    return bool(is_nan(a) and is_nan(b))
                return eq(a, b)

            off = 0
            for e, (n, m) in enumerate(shapes):
                k_sets = sym[e]
                # injective assignment of this input's data sets to merged data sets
                alts = []
                for perm in itertools.permutations(range(len(outs)), len(k_sets)):
                    alts.append(And([same(outs[j][off + i], k_sets[k][i]) for k, j in enumerate(perm) for i in range(n)]))
                if k_sets:
                    cx.prove(Or(alts) if alts else False,
                             f"input {e}: each of its {len(k_sets)} data set(s) named 'd' is kept, at its offset, in a merged data "
                             f"set of its own", "data (duplicate names)")
                for k, d in enumerate(dsets[e]):
                    cx.prove(And([same(x, y) for x, y in zip(elems(d.values), k_sets[k])]), f"input {e} data {k} unchanged",
                             "inputs unchanged")
                off += n
            return "ok"


def is_sym_(x):
    from symx.core import is_sym
    return is_sym(x)


def scenarios(tier, seed):
    S = []
    if tier == "quick":
        S += [Merge(kind="curve", shapes=[(3, 1), (2, 1)], vdata=[True, False], cdata=[False, True]),
              Merge(kind="curve", shapes=[(2, 2), (3, 2), (2, 1)], vdata=[False, True, True]),
              Merge(kind="surface", shapes=[(4, 1), (3, 2)], vdata=[True, True], cdata=[True, False]),
              Merge(kind="points", shapes=[(2, 0), (1, 0), (2, 0)], vdata=[True, False, True]),
              Merge(kind="curve", shapes=[(3, 2), (3, 2)], vdata=[True, True], cdata=[True, True]),
              Merge(kind="surface", shapes=[(4, 2), (4, 2)], vdata=[False, True], cdata=[True, False], cell_data_name="d"),
              DrapeMerge(shapes=[[2, 1], [1, 2], [1, 1]], data=[True, False, True]),
              Merge(kind="curve", shapes=[(3, 2), (2, 1)], vdata=[True, False], cdata=[True, True], stored=True),
              Merge(kind="points", shapes=[(2, 0), (2, 0)], vdata=[True, True], stored=True),
              Merge(kind="points", shapes=[(2, 0), (3, 0), (1, 0)], vdata=[True, False, True],
                    extras=[("referenced", "integer"), ("boolean",), ("referenced",)]),
              Merge(kind="curve", shapes=[(3, 1), (2, 1)], vdata=[False, True], extras=[("referenced", "boolean"), ("referenced", "integer")]),
              MergeDup(kind="points", shapes=[(3, 0), (2, 0)], dup_on=0, gaps=(0,)),
              MergeDup(kind="curve", shapes=[(2, 1), (3, 2)], dup_on=1, gaps=(1, 2), others=[False, True])]
    else:
        for kind in ("curve", "surface"):
            for shapes in ([(3, 1), (2, 1)], [(4, 2), (3, 2)], [(2, 2), (3, 3), (4, 1)], [(4, 3), (4, 3)],
                           [(3, 1), (3, 1), (3, 1)], [(3, 2), (2, 1), (4, 3), (3, 1)], [(5, 4), (4, 2)]):
                k = len(shapes)
                for vd, cd in (([True] * k, [True] * k), ([True] + [False] * (k - 1), [False] * (k - 1) + [True]),
                               ([False] * (k - 1) + [True], [False] * k)):
                    S.append(Merge(kind=kind, shapes=shapes, vdata=vd, cdata=cd))
        for kind, shapes in (("points", [(2, 0), (3, 0), (1, 0)]), ("curve", [(3, 1), (2, 1)]), ("surface", [(3, 1), (4, 2)])):
            for ex in itertools.product([(), ("referenced",), ("referenced", "integer", "boolean")], repeat=len(shapes)):
                if any(ex):
                    S.append(Merge(kind=kind, shapes=shapes, vdata=[True] * len(shapes), extras=list(ex)))
        S += [Merge(kind="surface", shapes=[(4, 2), (4, 2)], vdata=[False, True], cdata=[True, False], cell_data_name="d"),
              Merge(kind="curve", shapes=[(3, 2), (2, 1), (3, 3)], vdata=[True, False, True], cdata=[False, True, True], cell_data_name="d")]
        S += [Merge(kind=k_, shapes=sh_, vdata=[True] * len(sh_), cdata=[True] * len(sh_), stored=True)
              for k_, sh_ in (("curve", [(3, 2), (2, 1), (3, 2)]), ("surface", [(4, 2), (3, 1)]), ("points", [(2, 0), (3, 0), (2, 0)]))]
        S += [DrapeMerge(shapes=[[2, 1], [1, 2], [1, 1]], data=[True, False, True]), DrapeMerge(shapes=[[1, 1], [2, 2]]),
              DrapeMerge(shapes=[[2, 2], [1, 1], [3, 1], [1, 2]], data=[True, True, False, True])]
        for kind_, shapes, dup_on in (("points", [(3, 0), (2, 0)], 0), ("points", [(2, 0), (3, 0), (2, 0)], 1),
                                      ("curve", [(2, 1), (3, 2)], 1), ("curve", [(3, 2), (3, 2)], 0)):
            n_ = shapes[dup_on][0]
            for r in range(0, n_):
                for gaps in itertools.combinations(range(n_), r):
                    for others in ([True] * len(shapes), [False] * len(shapes)):
                        S.append(MergeDup(kind=kind_, shapes=shapes, dup_on=dup_on, gaps=gaps, others=others))
        for shapes in ([(2, 0), (1, 0), (2, 0)], [(4, 0), (4, 0)], [(1, 0), (1, 0), (1, 0), (1, 0)]):
            k = len(shapes)
            for vd in ([True] * k, [True] + [False] * (k - 1), [False] * (k - 1) + [True]):
                S.append(Merge(kind="points", shapes=shapes, vdata=vd))
    return S


def main(tier, seed):
    return run_property(
        "C16", scenarios(tier, seed), tier, seed,
        assumptions=[
            "A-REAL: float64 values are modelled as mathematical reals; NaN only as a concrete padding value",
            "seam A: real in-memory Workspace, save_entity no-op on the instance (the merged object is created for real)",
            "numpy replaced by the symx model; each explored path re-run on real numpy with a model of its path condition",
        ],
        outside=["order and number of the filler prisms a drape-model merge inserts between inputs", "more or larger inputs than the bounds", "integer / referenced data kinds",
                 "duplicate data names on one input beyond two float vertex data sets, the first with gaps at an enumerated set of positions (MergeDup); a first set that is entirely no-data (the library then reuses its slot)"],
        bounds={"quick": "2-3 inputs, n_i<=4 vertices, m_i<=2 cells with arbitrary in-range indices (unreferenced "
                         "vertices included), float vertex/cell data on an enumerated subset of inputs",
                "thorough": "2-4 inputs, n_i<=4, m_i<=3, three data-presence patterns per shape, points/curves/surfaces"}[tier],
        expected_outcomes={"Merge": {"ok"}, "DrapeMerge": {"ok"}, "MergeDup": {"ok"}},
    )
