"""C08 -- values survive storage unchanged; gaps use the format's no-data codes (symx, seam B: h5 proxy)."""
from __future__ import annotations

import math

import numpy as real_np

from symx import patch, h5shim, nd, npshim
from symx.core import And, Or, Not, Implies, Sum, select, eq, ite, is_nan, is_sym
from .common import Scenario, elems, shape, mk_array, run_property

INT32_MIN, INT32_MAX = -(2 ** 31), 2 ** 31 - 1
FLOAT_NDV = 1.17549435e-38

DT_RANGE = {"int8": (-128, 127), "int16": (-2 ** 15, 2 ** 15 - 1), "int32": (INT32_MIN, INT32_MAX),
            "int64": (-2 ** 63, 2 ** 63 - 1), "uint8": (0, 255), "uint16": (0, 2 ** 16 - 1), "uint32": (0, 2 ** 32 - 1),
            "uint64": (0, 2 ** 64 - 1)}


class StoreValues(Scenario):
    """data.values = array on a stored float / integer / boolean data; then a fresh Workspace on the same file reads it"""
    pid = "C08"
    include_io = True

    def run(self, cx):
        if self.backend == "real":          # replay / validation: plain h5py, plain numpy
            return super().run(cx)
        with h5shim.h5_on():
            return super().run(cx)

    def body(self, cx):
        from geoh5py.workspace import Workspace
        from geoh5py.objects import Points
        kind = self.params["kind"]           # float | integer | boolean
        dtype = self.params["dtype"]         # numpy dtype name of the assigned array
        pattern = self.params["pattern"]     # per element: s (symbolic finite) n (NaN) + - (infinities) b (32-bit boundary ...)
        n = len(pattern) + self.params.get("short", 0)      # short > 0: fewer values than vertices -> padded with gaps
        shape2d = self.params.get("shape2d")                  # e.g. (2, 2): a 2-D array with more entries than vertices
        if shape2d:
            n = self.params["n_vertices"]
        h5shim.reset()
        patch.STUBS_USED.add("h5py (in workspace.workspace, shared.utils, io.h5_reader, io.h5_writer) -> symx.h5shim "
                             "proxy over the real in-memory HDF5 file; symbolic payloads kept beside it (A-H5)")
        ws = Workspace()
        pts = Points.create(ws, vertices=real_np.zeros((n, 3)))
        if kind == "float":
            d = pts.add_data({"d": {"values": real_np.zeros(n)}})
        elif kind == "integer":
            d = pts.add_data({"d": {"values": real_np.zeros(n, dtype="int32"), "type": "integer"}})
        else:
            d = pts.add_data({"d": {"values": real_np.zeros(n, dtype=bool), "type": "boolean"}})
        isf = dtype.startswith("float")
        with self.engine(cx) as X:
            vals, kinds = [], []
            for i, ch in enumerate(pattern):
                if ch == "s":
                    if isf:
                        v = cx.real(f"x{i}")
                        if kind == "float":
                            cx.assume(Not(eq(v, FLOAT_NDV)) if cx.mode == "sym" else v != FLOAT_NDV)   # documented exception
                    else:
                        lo, hi = DT_RANGE[dtype] if dtype != "bool" else (0, 1)
                        if kind == "boolean" and dtype != "bool":
                            lo, hi = max(lo, -2), min(hi, 3)
                        v = cx.int(f"x{i}", lo, hi + 1)
                elif ch == "n":
                    v = math.nan
                elif ch == "+":
                    v = math.inf
                elif ch == "-":
                    v = -math.inf
                else:
                    raise ValueError(ch)
                vals.append(v)
                kinds.append(ch)
            arr = mk_array(X, vals, tuple(shape2d) if shape2d else (len(vals),), dtype)
            try:
                d.values = arr
            except Exception as e:  # noqa: BLE001
                # the property does not require acceptance: a refusal is never a violation (it is counted as an outcome)
                return f"raised {type(e).__name__}"
            if shape2d:
                cx.prove(len(vals) <= n, "an array with more entries than the geometry has is refused, whatever its shape",
                         "unrepresentable values rejected")
            if len(vals) < n:       # the missing entries are gaps
                vals = vals + [math.nan] * (n - len(vals))
                kinds = kinds + ["n"] * (n - len(kinds))
            # accepted: every element must be representable, the stored form uses the no-data codes, and a fresh
            # reader returns what was written
            for i, (v, ch) in enumerate(zip(vals, kinds)):
                if kind == "integer":
                    if ch in "+-":
                        cx.prove(False, f"element {i}: infinity accepted by integer data", "unrepresentable values rejected")
                    elif ch == "s":
                        ok = And(v >= INT32_MIN, v <= INT32_MAX)
                        if isf:
                            ok = And(ok, _integral(v))
                        cx.prove(ok, f"element {i}: accepted integer value is integral and inside the 32-bit range",
                                 "unrepresentable values rejected")
                elif kind == "boolean":
                    if ch == "s":
                        cx.prove(Or(eq(v, 0), eq(v, 1)), f"element {i}: accepted boolean value is 0 or 1",
                                 "unrepresentable values rejected")
                    elif ch in "+-":
                        cx.prove(False, f"element {i}: infinity accepted by boolean data", "unrepresentable values rejected")
            store = h5shim.store_of(ws.h5file)
            raw = None
            for path, payload in store.items():
                if path.endswith("/Data") and str(d.uid) in path:
                    raw = payload
            if raw is None:     # concrete payload: went to the real file
                node = ws.geoh5[list(ws.geoh5)[0]]["Data"]["{" + str(d.uid) + "}"]["Data"]
                raw = node[:] if not hasattr(node, "_symx_payload") else node._symx_payload
            re_ = elems(raw)
            cx.prove(len(re_) == n, "stored dataset has one entry per value", "stored form")
            if len(re_) == n:
                for i, (v, ch) in enumerate(zip(vals, kinds)):
                    if ch == "n":
                        code = FLOAT_NDV if kind == "float" else (INT32_MIN if kind == "integer" else None)
                        if code is not None:
                            cx.prove(eq(re_[i], code), f"element {i}: NaN stored as the no-data code", "stored form")
                    elif ch == "s":
                        if kind == "boolean":
                            cx.prove(Or(eq(re_[i], 0), eq(re_[i], 1)), f"element {i}: boolean stored as 0/1", "stored form")
                        cx.prove(eq(re_[i], v), f"element {i}: stored value == written value", "stored form")
            ws.close()
            ws2 = Workspace(ws.h5file)
            d2 = [e for e in ws2.data if e.uid == d.uid]
            cx.prove(len(d2) == 1, "fresh reader finds the data", "read back")
            if len(d2) == 1:
                try:
                    back = d2[0].values
                except Exception as e:  # noqa: BLE001
                    cx.prove(False, f"stored values can be read back ({type(e).__name__})", "read back")
                    ws2.close()
                    return "read back raised"
                be = elems(back)
                cx.prove(len(be) == n, "read-back array has one entry per value", "read back")
                if len(be) == n:
                    for i, (v, ch) in enumerate(zip(vals, kinds)):
                        if ch == "n":
                            if kind == "float":
                                cx.prove(is_nan(be[i]), f"element {i}: NaN returns as NaN", "read back")
                            elif kind == "integer":
                                cx.prove(eq(be[i], INT32_MIN), f"element {i}: integer gap is the integer no-data code",
                                         "read back")
                        elif ch in "+-":
                            cx.prove((not is_sym(be[i])) and be[i] == v, f"element {i}: infinity returns unchanged", "read back")
                        else:
                            cx.prove(eq(be[i], v), f"element {i}: read back == written", "read back")
                    cx.observe("back", [x for x, ch in zip(be, kinds) if ch == "s"])
            ws2.close()
            return "ok"


class StoreValueMap(Scenario):
    """reference value map with symbolic keys written to a stored type and read by a fresh Workspace"""
    pid = "C08"
    include_io = True

    def run(self, cx):
        if self.backend == "real":
            return super().run(cx)
        with h5shim.h5_on():
            return super().run(cx)

    def body(self, cx):
        from geoh5py.workspace import Workspace
        from geoh5py.objects import Points
        nk = self.params["keys"]
        h5shim.reset()
        ws = Workspace()
        pts = Points.create(ws, vertices=real_np.zeros((2, 3)))
        d = pts.add_data({"rd": {"values": real_np.array([1, 2], dtype="int32"), "type": "referenced", "value_map": {1: "a", 2: "b"}}})
        labels = ["alpha", "b\u00e9ta", "\u03b3", "d"][:nk]
        with self.engine(cx) as X:
            keys = [cx.int(f"k{i}", -1, 6) for i in range(nk)]
            for i in range(nk):
                for j in range(i + 1, nk):
                    cx.assume(Not(eq(keys[i], keys[j])) if cx.mode == "sym" else keys[i] != keys[j])
            ck = [int(k) for k in keys]         # dictionary keys must be concrete: one path per feasible key tuple
            vm = {k: lb for k, lb in zip(ck, labels)}
            try:
                d.entity_type.value_map = dict(vm)
            except Exception as e:  # noqa: BLE001
                cx.prove(any(k < 0 for k in ck) or any(k == 0 for k in ck),
                         "a value map is refused only for a negative key or a key 0 that is not 'Unknown'", "value map rules")
                return f"raised {type(e).__name__}"
            cx.prove(all(k >= 0 for k in ck) and all(k != 0 for k in ck), "negative keys and a relabelled key 0 are refused",
                     "value map rules")
            live = dict(d.entity_type.value_map.map)
            cx.prove(live.get(0) == "Unknown" and all(live.get(k) == lb for k, lb in vm.items()),
                     "key 0 is reserved for 'Unknown' and every key keeps its label (in memory)", "value map rules")
            ws.close()
            ws2 = Workspace(ws.h5file)
            d2 = [e for e in ws2.data if e.uid == d.uid]
            cx.prove(len(d2) == 1 and d2[0].value_map is not None, "fresh reader finds the value map", "value map read back")
            if len(d2) == 1 and d2[0].value_map is not None:
                back = {int(k): (v.decode() if isinstance(v, bytes) else v) for k, v in dict(d2[0].value_map.map).items()}
                cx.prove(back == live, "value map read back == value map written (keys keep their labels, any Unicode)",
                         "value map read back")
            ws2.close()
            return "ok"


class StoreValueMapKeys(Scenario):
    """value-map keys of other types (integral and non-integral floats, numpy integers, negative numbers) chosen
    symbolically from an alphabet: a key that is not a non-negative integer value is refused, never silently altered"""
    pid = "C08"
    include_io = True

    def run(self, cx):
        if self.backend == "real":
            return super().run(cx)
        with h5shim.h5_on():
            return super().run(cx)

    def body(self, cx):
        from geoh5py.workspace import Workspace
        from geoh5py.objects import Points
        h5shim.reset()
        ws = Workspace()
        pts = Points.create(ws, vertices=real_np.zeros((2, 3)))
        d = pts.add_data({"rd": {"values": real_np.array([1, 2], dtype="int32"), "type": "referenced", "value_map": {1: "a", 2: "b"}}})
        alphabet = [1, 2.0, 1.5, 0.25, 3.7, real_np.int32(4), real_np.float64(5.0), -1.0, 2.9999]
        i, j = int(cx.int("first_key", 0, len(alphabet))), int(cx.int("second_key", 0, len(alphabet)))
        k1, k2 = alphabet[i], alphabet[j]
        if float(k1) == float(k2):
            return "same key"
        vm = {k1: "first", k2: "second"}
        bad = [k for k in (k1, k2) if float(k) != math.floor(float(k)) or float(k) < 0]
        try:
            d.entity_type.value_map = dict(vm)
        except Exception as e:  # noqa: BLE001
            return f"raised {type(e).__name__}"
        cx.prove(not bad, f"a value map with the key {bad[:1]} (not a non-negative integer value) is refused", "value map rules")
        live = {int(k): v for k, v in dict(d.entity_type.value_map.map).items()}
        want = {int(k1): "first", int(k2): "second"}
        cx.prove(not bad and all(live.get(k) == v for k, v in want.items()) and live.get(0) == "Unknown" and len(live) == 3,
                 "every key keeps its own label, key 0 stays 'Unknown'", "value map rules")
        ws.close()
        ws2 = Workspace(ws.h5file)
        d2 = [e for e in ws2.data if e.uid == d.uid]
        back = {int(k): (v.decode() if isinstance(v, bytes) else v) for k, v in dict(d2[0].value_map.map).items()} if d2 else None
        cx.prove(back == live, "value map read back == value map written", "value map read back")
        ws2.close()
        return "ok"


class StoreMetadata(Scenario):
    """metadata dictionaries with values of many Python / numpy types chosen symbolically from an alphabet: what a fresh
    reader returns equals what was written, or the assignment is refused -- a value is never stored as something else"""
    pid = "C08"
    include_io = True

    def run(self, cx):
        if self.backend == "real":
            return super().run(cx)
        with h5shim.h5_on():
            return super().run(cx)

    def body(self, cx):
        import datetime
        import pathlib
        import decimal
        from geoh5py.workspace import Workspace
        from geoh5py.objects import Points
        h5shim.reset()
        ws = Workspace()
        pts = Points.create(ws, vertices=real_np.zeros((2, 3)))
        alphabet = [1, -2.5, "téxt", True, None, [1, 2.5, "x"], {"n": {"m": [1]}}, datetime.datetime(2020, 5, 21, 10, 12, 15),
                    pathlib.PurePosixPath("/a/b.txt"), {1, 2}, b"bytes", real_np.int64(3), real_np.float64(2.5), decimal.Decimal("1.5"),
                    complex(1, 2), 10 ** 20]
        i, nested = int(cx.int("value", 0, len(alphabet))), bool(cx.bool("nested"))
        v = alphabet[i]
        md = {"key": {"inner": v}} if nested else {"key": v, "other": "kept"}
        try:
            pts.metadata = md
            ws.close()
        except Exception as e:  # noqa: BLE001
            return f"raised {type(e).__name__}"
        ws2 = Workspace(ws.h5file)
        back = ws2.get_entity(pts.uid)[0].metadata
        got = back["key"]["inner"] if (isinstance(back, dict) and nested and isinstance(back.get("key"), dict)) else \
            (back.get("key") if isinstance(back, dict) else "<no metadata>")
        same = type(got) is type(v) and got == v or (isinstance(v, (real_np.integer, real_np.floating)) and got == v
                                                      and not isinstance(got, str))
        cx.prove(bool(same), f"metadata value {v!r} ({type(v).__name__}) is read back equal (got {got!r}) or was refused",
                 "metadata read back")
        if not nested:
            cx.prove(isinstance(back, dict) and back.get("other") == "kept", "the other entries are read back too", "metadata read back")
        ws2.close()
        return "ok"


class StoreFloatKinds(Scenario):
    """float data given as arrays of every numpy float dtype (concrete values incl. NaN and infinities, chosen by symbolic
    indices): what a fresh reader returns equals what was written -- NaN as NaN -- whatever the input precision"""
    pid = "C08"
    include_io = True

    def body(self, cx):
        from geoh5py.workspace import Workspace
        from geoh5py.objects import Points
        dts = ["float16", "float32", "float64", "longdouble"]
        pats = [[1.5, float("nan"), -2.25], [float("nan"), float("nan"), 0.5], [float("inf"), 3.0, float("-inf")], [0.0, -0.0, 1024.0]]
        dt = dts[int(cx.int("input_dtype", 0, len(dts)))]
        pat = pats[int(cx.int("values", 0, len(pats)))]
        via_setter = bool(cx.bool("assigned_after_creation"))
        ws = Workspace()
        pts = Points.create(ws, vertices=real_np.zeros((3, 3)))
        arr = real_np.array(pat, dtype=dt)
        try:
            if via_setter:
                d = pts.add_data({"f": {"values": real_np.zeros(3)}})
                d.values = arr
            else:
                d = pts.add_data({"f": {"values": arr}})
        except Exception as e:  # noqa: BLE001
            return f"raised {type(e).__name__}"
        uid = d.uid
        ws.close()
        ws2 = Workspace(ws.h5file)
        back = [float(v) for v in ws2.get_entity(uid)[0].values]
        ws2.close()
        ok = len(back) == 3 and all((b != b and p != p) or (b == p) for b, p in zip(back, pat))
        cx.prove(ok, f"{dt} values {pat} read back equal, NaN as NaN (got {back})", "float dtypes read back")
        return "ok"


class StoreComments(Scenario):
    """comments added one after another to an object or a group: every comment is read back by a fresh reader"""
    pid = "C08"
    include_io = True

    def body(self, cx):
        from geoh5py.workspace import Workspace
        from geoh5py.objects import Points
        from geoh5py.groups import ContainerGroup
        n = int(cx.int("comments", 1, 4))
        on_group = bool(cx.bool("on_a_group"))
        reopen_between = bool(cx.bool("session_closed_between_comments"))
        ws = Workspace()
        ent = ContainerGroup.create(ws, name="G") if on_group else Points.create(ws, vertices=real_np.zeros((2, 3)), name="P")
        uid = ent.uid
        texts = ["first \u00e9", "second comment", "third"][:n]
        for q, t in enumerate(texts):
            ent.add_comment(t, author=f"author {q}")
            if reopen_between and q < n - 1:
                ws.close()
                ws = Workspace(ws.h5file)
                ent = ws.get_entity(uid)[0]
        ws.close()
        ws2 = Workspace(ws.h5file)
        e2 = ws2.get_entity(uid)[0]
        got = [(c["Author"], c["Text"]) for c in (e2.comments.values if e2.comments is not None else [])]
        ws2.close()
        cx.prove(got == [(f"author {q}", t) for q, t in enumerate(texts)], f"all {n} comments are read back, in order (got {got})",
                 "comments read back")
        return "ok"


def _integral(v):
    if is_sym(v):
        import z3
        from symx.core import mk, toreal
        r = toreal(v.e)
        return mk(r == z3.ToReal(z3.ToInt(r)))
    return float(v) == math.floor(float(v))


def scenarios(tier, seed):
    S = []
    if tier == "quick":
        S += [StoreValues(kind="float", dtype="float64", pattern="sns"),
              StoreValues(kind="float", dtype="float64", pattern="+s-"),
              StoreValues(kind="float", dtype="int64", pattern="ss"),
              StoreValues(kind="integer", dtype="int64", pattern="ss"),
              StoreValues(kind="integer", dtype="uint32", pattern="s"),
              StoreValues(kind="integer", dtype="int32", pattern="ss"),
              StoreValues(kind="integer", dtype="float64", pattern="sn"),
              StoreValues(kind="integer", dtype="float64", pattern="+"),
              StoreValues(kind="boolean", dtype="int64", pattern="ss"),
              StoreValues(kind="boolean", dtype="bool", pattern="ss"),
              StoreValues(kind="boolean", dtype="float64", pattern="ss"),
              StoreValueMap(keys=2), StoreValueMapKeys(), StoreMetadata(), StoreFloatKinds(), StoreComments(),
              StoreValues(kind="integer", dtype="int8", pattern="s", short=1),
              StoreValues(kind="integer", dtype="uint16", pattern="ss", short=1),
              StoreValues(kind="float", dtype="float64", pattern="s", short=2),
              StoreValues(kind="float", dtype="float64", pattern="ssss", shape2d=(2, 2), n_vertices=3),
              StoreValues(kind="integer", dtype="int64", pattern="ssss", shape2d=(2, 2), n_vertices=2)]
    else:
        for dt in ("float64", "float32"):
            for pat in ("sns", "+s-", "nnn", "sss", "s"):
                S.append(StoreValues(kind="float", dtype=dt, pattern=pat))
        for dt in DT_RANGE:
            S.append(StoreValues(kind="float", dtype=dt, pattern="ss"))
            S.append(StoreValues(kind="integer", dtype=dt, pattern="ss"))
            S.append(StoreValues(kind="integer", dtype=dt, pattern="s"))
            S.append(StoreValues(kind="boolean", dtype=dt, pattern="ss"))
        for pat in ("sn", "+", "-", "s+", "sss", "ns-"):
            S.append(StoreValues(kind="integer", dtype="float64", pattern=pat))
        S += [StoreValues(kind="boolean", dtype="bool", pattern="sss"), StoreValueMap(keys=2), StoreValueMap(keys=3),
              StoreValueMapKeys(), StoreMetadata(), StoreFloatKinds(), StoreComments()]
        for dt in DT_RANGE:
            S.append(StoreValues(kind="integer", dtype=dt, pattern="s", short=1))
            S.append(StoreValues(kind="float", dtype=dt, pattern="s", short=1))
        for kd, dt in (("float", "float64"), ("integer", "int64"), ("boolean", "int64")):
            S.append(StoreValues(kind=kd, dtype=dt, pattern="ssss", shape2d=(2, 2), n_vertices=3))
            S.append(StoreValues(kind=kd, dtype=dt, pattern="ssss", shape2d=(2, 2), n_vertices=4))
    return S


def main(tier, seed):
    return run_property(
        "C08", scenarios(tier, seed), tier, seed,
        assumptions=[
            "A-REAL: finite floats are mathematical reals (rounding, sub-normals and float32 precision are outside); "
            "NaN and the infinities are concrete elements enumerated per scenario pattern",
            "integer casts are modelled exactly: astype(intN) of an integer wraps modulo 2^N; a float outside the target "
            "range casts to an unspecified value",
            "A-H5 (seam B): geoh5py runs on a proxy over the real in-memory HDF5 file; datasets/attributes with symbolic "
            "content are kept beside a real placeholder node and handed back unchanged (h5py's own dtype conversion is "
            "not modelled for them); everything concrete goes through real h5py",
            "the documented exception (a float exactly equal to the float no-data sentinel) is excluded by precondition",
        ],
        outside=["text / comment / file / blob values (strings are not symbolic in this engine; value-map labels are fixed Unicode strings)",
                 "float rounding; float32 input arrays for integer data (boundary values are not representable in float32); boolean data given float arrays", "float32 storage of concatenated data", "arrays longer than 3", "datetime"],
        bounds={"quick": "arrays of 1-3 elements, each a symbolic finite value / NaN / +inf / -inf; float, integer and boolean "
                         "data; input dtypes float64, int64, int32, uint32, bool; magnitudes unbounded within the dtype",
                "thorough": "all of numpy's integer dtypes and float32/float64 as input dtype for each data kind"}[tier],
        expected_outcomes={"StoreValues": {"ok"}, "StoreValueMap": {"ok"}, "StoreValueMapKeys": {"ok"}, "StoreMetadata": {"ok"}, "StoreFloatKinds": {"ok"}, "StoreComments": {"ok"}},
    )
