"""C05 -- deletion removes exactly the entity, its descendants and all references to them (symx, seam B; bounded).

A stored tree with symbolic geometry / values; the removed entity, the entry point (workspace or parent), the delete
permission and a follow-up operation are symbolic choices (each combination one explored path).  z3 decides that the
survivors keep their (symbolic) state; removed identifiers are checked to be gone from the live tree, the lookups, every
property group and from the tree a fresh Workspace reads."""
from __future__ import annotations

import gc

import numpy as real_np

from symx import patch, h5shim
from symx.core import And, Or, Not, eq
from .common import Scenario, elems, shape, mk_array, run_property, assume_not_ndv
from .c03 import _same
from .c01 import tree_snapshot

TARGETS = ["d1", "d2", "d4", "o", "n", "c", "g", "e1", "o+n", "d2+d3"]      # "a+b": two adjacent children removed in ONE call
FOLLOW = ["none", "copy_survivor", "remove_another", "add_data", "reopen_then_copy"]


class Remove(Scenario):
    pid = "C05"
    include_io = True

    def run(self, cx):
        if self.backend == "real":
            return super().run(cx)
        with h5shim.h5_on():
            return super().run(cx)

    def body(self, cx):
        from geoh5py.workspace import Workspace
        from geoh5py.groups import ContainerGroup
        from geoh5py.objects import Points, Curve
        target = self.params["target"]
        h5shim.reset()
        patch.STUBS_USED.add("h5py -> symx.h5shim proxy over the real in-memory HDF5 file (seam B, A-H5)")
        ws = Workspace()
        g = ContainerGroup.create(ws, name="G")
        o = Points.create(ws, vertices=real_np.arange(9.0).reshape(3, 3), name="O", parent=g)
        d1 = o.add_data({"D1": {"values": real_np.arange(3.0)}})
        d2 = o.add_data({"D2": {"values": real_np.array([7, 8, 9], dtype="int32"), "type": "integer"}})
        d3 = o.add_data({"D3": {"values": real_np.arange(3.0) + 10}})
        d4 = o.add_data({"D4": {"values": real_np.arange(3.0) + 20}})
        o.find_or_create_property_group(name="PG1", properties=[d1.uid, d2.uid])
        o.find_or_create_property_group(name="PG2", properties=[d1.uid, d3.uid])
        n = ContainerGroup.create(ws, name="N", parent=g)
        c = Curve.create(ws, vertices=real_np.arange(9.0).reshape(3, 3) + 1, cells=real_np.array([[0, 1], [1, 2]], dtype="int32"),
                         name="C", parent=n)
        e1 = c.add_data({"E1": {"values": real_np.arange(2.0), "association": "CELL"}})
        p = Points.create(ws, vertices=real_np.arange(6.0).reshape(2, 3), name="P")
        s1 = p.add_data({"S1": {"values": real_np.arange(2.0)}})
        uid = {"g": g.uid, "o": o.uid, "d1": d1.uid, "d2": d2.uid, "d3": d3.uid, "d4": d4.uid, "n": n.uid, "c": c.uid, "e1": e1.uid,
               "p": p.uid, "s1": s1.uid}
        ws.close()
        del g, o, d1, d2, d3, d4, n, c, e1, p, s1
        with self.engine(cx) as X:
            ws = Workspace(ws.h5file)

            def get(k):
                return ws.get_entity(uid[k])[0]
            # symbolic state of the entities that may survive
            get("p").vertices = mk_array(X, [cx.real(f"p{i}") for i in range(6)], (2, 3), "float64")
            sv = [cx.real(f"s{i}") for i in range(2)]
            ov = [cx.real(f"x{i}") for i in range(3)]
            o3 = [cx.real(f"y{i}") for i in range(3)]
            assume_not_ndv(cx, sv + ov + o3)
            get("s1").values = mk_array(X, sv, (2,), "float64")
            get("o").vertices = mk_array(X, [cx.real(f"v{i}") for i in range(9)], (3, 3), "float64")
            get("d1").values = mk_array(X, ov, (3,), "float64")
            get("d3").values = mk_array(X, o3, (3,), "float64")
            via_parent = bool(cx.bool("through_the_parent"))
            locked = bool(cx.bool("delete_permission_off"))
            lock_then_reopen = bool(cx.bool("session_closed_after_the_permission_was_set"))
            follow = FOLLOW[int(cx.int("follow_up", 0, len(FOLLOW)))]
            before = tree_snapshot(ws)

            def below(key):
                """identifiers of the entity and all its descendants (from the snapshot's parent links)"""
                out = {str(uid[key])}
                grew = True
                while grew:
                    grew = False
                    for k, rec in before.items():
                        if not k.startswith("#") and rec["parent"] in out and k not in out:
                            out.add(k)
                            grew = True
                return out
            pair = target.split("+") if "+" in target else None
            if pair:
                gone = below(pair[0]) | below(pair[1])
                t = get(pair[0])
                t2 = get(pair[1])
            else:
                gone = below(target)
                t = get(target)
                t2 = None
            if locked:
                t.allow_delete = False
                if lock_then_reopen:        # the permission is then read from the file (a stored flag, not a Python bool)
                    del t, t2
                    ws.close()
                    ws = Workspace(ws.h5file)
                    t = get(pair[0] if pair else target)
                    t2 = get(pair[1]) if pair else None
                before = tree_snapshot(ws)
            refused = False
            try:
                if pair and via_parent:
                    t.parent.remove_children([t, t2])           # two children of one parent, one call
                elif pair:
                    ws.remove_entity(t)
                    ws.remove_entity(t2)
                elif via_parent:
                    t.parent.remove_children([t])
                else:
                    ws.remove_entity(t)
            except Exception as e:  # noqa: BLE001
                refused = True
                why = type(e).__name__
            del t, t2
            gc.collect()
            if locked and not via_parent:
                cx.prove(refused, "the workspace refuses to remove an entity whose delete permission is off", "permission")
                _compare(cx, tree_snapshot(ws), before, "after the refused removal (live)", "permission")
                ws.close()
                ws2 = Workspace(ws.h5file)
                _compare(cx, tree_snapshot(ws2), before, "after the refused removal (file)", "permission")
                ws2.close()
                return "refused"
            if refused:
                cx.prove(False, f"removal of {target} {'through its parent' if via_parent else 'through the workspace'} succeeds ({why})",
                         "removal succeeds")
                return "raised"
            # follow-up operations on the survivors must succeed
            try:
                if follow == "copy_survivor":
                    cp = get("p").copy(parent=get("g") if str(uid["g"]) not in gone else None)
                    uid["copy"] = cp.uid
                    del cp
                elif follow == "remove_another":
                    other = "d3" if str(uid["d3"]) not in gone else "s1"
                    gone |= below(other)
                    ws.remove_entity(get(other))
                elif follow == "add_data" and str(uid["o"]) not in gone:
                    get("o").add_data({"D5": {"values": mk_array(X, [1.0, 2.0, 3.0], (3,), "float64")}})
                elif follow == "reopen_then_copy":
                    if via_parent:      # closing right after a detach leaves orphan nodes (open finding F-C05-2): purge first
                        _ = (ws.groups, ws.objects, ws.data)
                    ws.close()
                    ws = Workspace(ws.h5file)
                    cp = get("p").copy()
                    uid["copy"] = cp.uid
                    del cp
            except Exception as e:  # noqa: BLE001
                cx.prove(False, f"the follow-up '{follow}' on the survivors succeeds after removing {target} ({type(e).__name__}: {e})",
                         "later operations succeed")
                return "follow-up raised"
            gc.collect()

            def check(w, tag):
                snap = tree_snapshot(w)
                cx.prove(not (set(snap) & gone), f"{tag}: the removed entity and its descendants are gone from the tree "
                                                 f"({len(set(snap) & gone)} still there)", "removed entities gone")
                listed = {str(e.uid) for e in list(w.groups) + list(w.objects) + list(w.data)}
                cx.prove(not (listed & gone), f"{tag}: the workspace listings hold no removed entity", "removed entities gone")
                # the file itself, after the listings were consulted (they purge dead references; detaching through the parent relies on
                # that -- see DetachThenClose / F-C05-2)
                stored = set()
                root = w.geoh5["GEOSCIENCE"]
                for cont in ("Data", "Objects", "Groups"):
                    if cont in root:
                        stored |= {str(k).strip("{}") for k in root[cont].keys()}
                cx.prove(not (stored & gone), f"{tag}: no node of a removed entity is left in the file's containers "
                                              f"({len(stored & gone)} left)", "removed from the file")
                # lookups last: a lookup of a dead identifier drops its registry entry, after which nothing purges the node
                for k in gone:
                    import uuid as _u
                    cx.prove(w.get_entity(_u.UUID(k)) == [None], f"{tag}: looking up a removed identifier yields nothing",
                             "removed entities gone")
                for nm in [before[k]["name"] for k in gone if k in before]:
                    cx.prove(w.get_entity(nm) == [None], f"{tag}: looking up the name '{nm}' of a removed entity yields nothing",
                             "removed entities gone")
                for k, rec in snap.items():
                    if k.startswith("#"):
                        continue
                    for pgname, members in rec.get("property_groups", {}).items():
                        cx.prove(not (set(members) & gone), f"{tag}: property group {pgname} lists no removed data", "references gone")
                # survivors keep their state (new entities made by the follow-up are not in `before`)
                for k, rec in before.items():
                    if k.startswith("#") or k in gone or k not in snap:
                        continue
                    for fld, val in rec.items():
                        if fld == "property_groups":
                            exp = {pgn: [m for m in mem if m not in gone] for pgn, mem in val.items()}
                            got = snap[k].get("property_groups", {})
                            # a group emptied by the removal may disappear or stay empty
                            exp = {a: b for a, b in exp.items() if b}
                            got = {a: b for a, b in got.items() if b}
                            cx.prove(got == exp, f"{tag}: {rec['name']}: property groups keep exactly their surviving members", "references gone")
                        elif fld in snap[k]:
                            cx.prove(_same(snap[k][fld], val), f"{tag}: survivor {rec['class']} '{rec['name']}': {fld} unchanged", "survivors")
                cx.prove(all(k in snap for k in before if not k.startswith("#") and k not in gone),
                         f"{tag}: every other entity is still there", "survivors")
            check(ws, "live")
            ws.close()
            ws2 = Workspace(ws.h5file)
            check(ws2, "file")
            ws2.close()
            return "ok"


class DetachThenClose(Scenario):
    """detach an entity through its parent, drop every reference, close WITHOUT consulting the listings: are the nodes of the
    entity and its descendants gone from the file?  (open finding F-C05-2: they are not)"""
    pid = "C05"

    def body(self, cx):
        import h5py as real_h5py
        from geoh5py.workspace import Workspace
        from geoh5py.groups import ContainerGroup
        from geoh5py.objects import Points
        what = ["data", "object", "group"][int(cx.int("detached", 0, 3))]
        self.known_class(cx, "detached_through_the_parent_then_closed", True)
        ws = Workspace()
        g = ContainerGroup.create(ws, name="G")
        o = Points.create(ws, vertices=real_np.zeros((3, 3)), name="O", parent=g)
        ds = [o.add_data({f"D{i}": {"values": real_np.arange(3.0) + i}}) for i in range(3)]
        t = {"data": ds[0], "object": o, "group": g}[what]
        gone = {"data": [ds[0].uid], "object": [o.uid] + [d.uid for d in ds], "group": [g.uid, o.uid] + [d.uid for d in ds]}[what]
        t.parent.remove_children([t])
        del t, g, o, ds
        gc.collect()
        ws.close()
        with real_h5py.File(ws.h5file, "r") as f:
            stored = set()
            for cont in ("Data", "Objects", "Groups"):
                stored |= {str(k).strip("{}") for k in f["GEOSCIENCE"][cont].keys()}
        left = [u for u in gone if str(u) in stored]
        cx.prove(not left, f"detaching a {what} through its parent and closing leaves none of its nodes in the file ({len(left)} left)",
                 "removed from the file")
        return "ok"


def _compare(cx, snap, before, tag, family):
    cx.prove(set(snap) == set(before), f"{tag}: same entities", family)
    for k, rec in before.items():
        if k.startswith("#") or k not in snap:
            continue
        for fld, val in rec.items():
            if fld in snap[k]:
                cx.prove(_same(snap[k][fld], val), f"{tag}: {rec['name']}: {fld} unchanged", family)


def scenarios(tier, seed):
    return [Remove(target=t) for t in TARGETS] + [DetachThenClose()]


def main(tier, seed):
    return run_property(
        "C05", scenarios(tier, seed), tier, seed,
        assumptions=["symbolic: vertices and float values of the entities that may survive; concrete: the tree shape (group G {object O with four "
                     "data sets in two overlapping property groups, nested group N {curve C with cell data}}, object P with data)",
                     "the caller's references are dropped and the collector run before the listings are inspected (as the property states)",
                     "A-H5: symbolic payloads are kept beside the real HDF5 file by a proxy and handed back unchanged"],
        outside=["concatenated holes and their data (index arithmetic of their removal: C04)", "other trees / several removals in a row beyond "
                 "one follow-up", "removal through the parent of an entity whose delete permission is off (the statement only covers the workspace "
                 "entry point)"],
        bounds="removed entity in {data in 2 / 1 / 0 property groups, object with children, nested group, curve, top group, cell data, two children "
               "of a group / of an object in one call} x "
               "{workspace.remove_entity, parent.remove_children} x delete permission {on, off, off and re-read from the file} x follow-up {none, copy a survivor, remove "
               "another entity, add data, re-open then copy}: 8 x 2 x 2 x 5 paths",
        expected_outcomes={"Remove": {"ok"}, "DetachThenClose": {"ok"}},
    )
