"""C04 -- concatenated drillhole storage: one inductive step from an arbitrary valid index layout (symx, seam A)."""
from __future__ import annotations

import itertools
import random

import numpy as real_np

from symx import patch, npshim
from symx.core import And, Or, Not, Implies, Sum, select, eq, ite
from symx import h5shim
from .common import Scenario, elems, shape, mk_array, run_property, assume_not_ndv


def _build_group(sizes, version=None, with_values=True):
    from geoh5py.workspace import Workspace
    from geoh5py.groups import DrillholeGroup
    from geoh5py.objects import Drillhole
    kw = {}
    if version is not None:
        kw["version"] = version
    ws = Workspace(**kw)
    g = DrillholeGroup.create(ws, name="DH")
    holes, depth_d, val_d = [], [], []
    for k, sz in enumerate(sizes):
        h = Drillhole.create(ws, parent=g, name=f"h{k}", collar=[0.0, 0.0, 0.0],
                             surveys=real_np.c_[[0.0, 10.0], [0.0, 0.0], [-90.0, -90.0]])
        holes.append(h)
        if sz is None:          # hole without data for the label
            depth_d.append(None)
            val_d.append(None)
            continue
        d = h.add_data({"lbl": {"depth": real_np.arange(sz) + 1.0 + 0.25 * k, "values": real_np.arange(sz) + 5.0 + 10.0 * k}})
        val_d.append(d)
        depth_d.append(h.get_data("DEPTH")[0])
    return ws, g, holes, depth_d, val_d


def _install_state(cx, X, g, label, rows, total, tag):
    """replace data[label] / index[label] by an arbitrary layout satisfying the representation invariant R:
    rows pairwise disjoint, inside [0,total).  rows = [(size, ...)] in the real index order."""
    real_idx = g.index[label]
    names = list(real_idx.dtype.names)
    sizes = [int(r[1]) for r in real_idx.tolist()]
    n = len(sizes)
    assert sum(sizes) == total
    starts = [cx.int(f"{tag}s{i}", 0, total + 1) for i in range(n)]
    for i in range(n):
        cx.assume(starts[i] + sizes[i] <= total)
        for j in range(i + 1, n):
            cx.assume(Or(starts[i] + sizes[i] <= starts[j], starts[j] + sizes[j] <= starts[i]))
    vals = [cx.real(f"{tag}x{p}") for p in range(total)]
    cols = [list(starts), list(sizes), [r[2] for r in real_idx.tolist()], [r[3] for r in real_idx.tolist()]]
    if X is npshim:
        idx = npshim.core.records.fromarrays(cols, dtype=real_idx.dtype)
    else:
        idx = real_np.core.records.fromarrays(cols, dtype=real_idx.dtype)
    data = dict(g.data)
    index = dict(g.index)
    if X is npshim:     # every concatenated array becomes a model array (mutations must stay inside the model)
        from symx import nd
        data = {k: (nd.from_real(v) if isinstance(v, real_np.ndarray) else v) for k, v in data.items()}
        index = {k: (nd.from_real(v) if isinstance(v, real_np.ndarray) else v) for k, v in index.items()}
    data[label] = mk_array(X, vals, (total,), "float64")
    index[label] = idx
    g.data = data
    g.index = index
    return starts, sizes, vals


def _old_values(starts, sizes, vals, k):
    return [select(vals, starts[k] + p) for p in range(sizes[k])]


def _check_invariant(cx, g, label, live_sizes, tag):
    """R holds again: one row per live id with the right size, rows tile [0,total) without overlap"""
    idx = g.index[label]
    data = g.data[label]
    total = sum(live_sizes.values())
    cx.prove(shape(data)[0] == total, f"{tag}: concatenated array length == sum of live sizes", "tiling")
    rows = idx.tolist()
    rows = [tuple(r) for r in rows]
    cx.prove(len(rows) == len(live_sizes), f"{tag}: exactly one index row per live data set", "tiling")
    seen = set()
    for r in rows:
        key = (bytes(r[2]) if not isinstance(r[2], bytes) else r[2], r[3])
        cx.prove(key not in seen, f"{tag}: no duplicate index row", "tiling")
        seen.add(key)
        cx.prove(r[3] in live_sizes, f"{tag}: no stale index row", "tiling")
        if r[3] in live_sizes:
            cx.prove(eq(r[1], live_sizes[r[3]]), f"{tag}: row size == current length", "tiling")
    for i, r in enumerate(rows):
        cx.prove(And(r[0] >= 0, r[0] + r[1] <= total), f"{tag}: row inside the array (no negative/wrapped start)",
                 "tiling")
        for r2 in rows[i + 1:]:
            cx.prove(Or(r[0] + r[1] <= r2[0], r2[0] + r2[1] <= r[0]), f"{tag}: rows do not overlap", "tiling")


class UpdateValues(Scenario):
    """data.values = new array on one hole's depth data (any new length) or value data (same length)"""
    pid = "C04"

    def body(self, cx):
        sizes, target, newlen, label = (self.params[x] for x in ("sizes", "target", "newlen", "label"))
        ws, g, holes, depth_d, val_d = _build_group(sizes, self.params.get("version"))
        datas = depth_d if label == "DEPTH" else val_d
        g.on_file = False
        patch.STUBS_USED.add("DrillholeGroup.on_file = False: HDF5 write of the concatenated arrays is cut (seam A)")
        total = sum(sizes)
        with self.engine(cx) as X:
            starts, szs, vals = _install_state(cx, X, g, label, None, total, "")
            newv = [cx.real(f"n{p}") for p in range(newlen)]
            other = "lbl" if label == "DEPTH" else "DEPTH"
            o_idx_before = g.index[other].tolist()
            o_dat_before = elems(g.data[other])
            tgt = datas[target]
            try:
                tgt.values = mk_array(X, newv, (newlen,), "float64")
            except Exception as e:  # noqa: BLE001
                # refused (value data longer than its depths): nothing may have changed
                cx.prove(label != "DEPTH" and newlen > sizes[target], "only over-long value arrays are refused",
                         "refusal")
                for k, d in enumerate(datas):
                    got = g.fetch_values(d, label)
                    old = _old_values(starts, szs, vals, k)
                    cx.prove(got is not None and shape(got)[0] == szs[k] and And([eq(a, b) for a, b in
                                                                                  zip(elems(got), old)]),
                             f"after refusal hole {k} unchanged", "frame")
                return f"raised {type(e).__name__}"
            explen = newlen if label == "DEPTH" else sizes[target]
            for k, d in enumerate(datas):
                got = g.fetch_values(d, label)
                if k == target:
                    cx.prove(got is not None and shape(got)[0] == explen, "target reads back the new length", "target")
                    if got is not None and shape(got)[0] == explen:
                        ge = elems(got)
                        cx.prove(And([eq(ge[p], newv[p]) for p in range(min(newlen, explen))]),
                                 "target reads back the new values", "target")
                        cx.observe("target", ge[:min(newlen, explen)])
                else:
                    old = _old_values(starts, szs, vals, k)
                    cx.prove(got is not None and shape(got)[0] == szs[k], f"hole {k} keeps its length", "frame")
                    if got is not None and shape(got)[0] == szs[k]:
                        cx.prove(And([eq(a, b) for a, b in zip(elems(got), old)]), f"hole {k} keeps its values",
                                 "frame")
                        cx.observe(f"hole{k}", elems(got))
            live = {}
            for k, d in enumerate(datas):
                from geoh5py.shared.utils import as_str_if_uuid
                live[as_str_if_uuid(d.uid).encode()] = explen if k == target else szs[k]
            _check_invariant(cx, g, label, live, "after update")
            # the other label of the same holes is untouched
            cx.prove(g.index[other].tolist() == o_idx_before and And([eq(a, b) for a, b in
                                                                      zip(elems(g.data[other]), o_dat_before)]),
                     "other data label untouched", "frame")
            return "ok"


class RemoveData(Scenario):
    """workspace.remove_entity(one hole's value data)"""
    pid = "C04"

    def body(self, cx):
        sizes, target = self.params["sizes"], self.params["target"]
        ws, g, holes, depth_d, val_d = _build_group(sizes, self.params.get("version"))
        g.on_file = False
        label = "lbl"
        total = sum(sizes)
        with self.engine(cx) as X:
            starts, szs, vals = _install_state(cx, X, g, label, None, total, "")
            tgt = val_d[target]
            if self.params.get("via_parent"):
                holes[target].remove_children([tgt])
            else:
                ws.remove_entity(tgt)
            from geoh5py.shared.utils import as_str_if_uuid
            live = {}
            for k, d in enumerate(val_d):
                if k == target:
                    cx.prove(g.fetch_values(d, label) is None, "removed data reads back nothing", "target")
                    continue
                got = g.fetch_values(d, label)
                old = _old_values(starts, szs, vals, k)
                cx.prove(got is not None and shape(got)[0] == szs[k], f"hole {k} keeps its length", "frame")
                if got is not None and shape(got)[0] == szs[k]:
                    cx.prove(And([eq(a, b) for a, b in zip(elems(got), old)]), f"hole {k} keeps its values", "frame")
                    cx.observe(f"hole{k}", elems(got))
                live[as_str_if_uuid(d.uid).encode()] = szs[k]
            if live or label in g.index:
                _check_invariant(cx, g, label, live, "after removal")
            return "ok"


class StoredStep(Scenario):
    """the same steps on a *stored* drillhole group (seam B), optionally after a re-open (lazily loaded holes), followed by
    a fresh reader: every remaining hole reads back the values last written, no stale rows are left in the file"""
    pid = "C04"
    include_io = True

    def run(self, cx):
        if self.backend == "real":
            return super().run(cx)
        with h5shim.h5_on():
            return super().run(cx)

    def body(self, cx):
        from geoh5py.workspace import Workspace
        from geoh5py.shared.utils import as_str_if_uuid
        sizes, target, op = self.params["sizes"], self.params["target"], self.params["op"]
        h5shim.reset()
        patch.STUBS_USED.add("h5py -> symx.h5shim proxy over the real in-memory HDF5 file (seam B, A-H5)")
        ws, g, holes, depth_d, val_d = _build_group(sizes, self.params.get("version"))
        if self.params.get("reopen_first"):
            ws.close()
            ws = Workspace(ws.h5file)
            g = [x for x in ws.groups if x.name == "DH"][0]
            holes = sorted(g.children, key=lambda h: h.name)
            val_d = [h.get_data("lbl")[0] for h in holes]
        total = sum(sizes)
        with self.engine(cx) as X:
            if op == "rename_hole":
                # nothing but the rename happens in this session: the stored arrays are the ones the creation wrote
                szs = list(sizes)
                starts = [sum(sizes[:k]) for k in range(len(sizes))]
                vals = [float(p + 5.0 + 10.0 * k) for k in range(len(sizes)) for p in range(sizes[k])]
            else:
                starts, szs, vals = _install_state(cx, X, g, "lbl", None, total, "")
                assume_not_ndv(cx, vals)
            newv = None
            if op == "update":
                newv = [cx.real(f"n{p}") for p in range(szs[target])]
                assume_not_ndv(cx, newv)
                val_d[target].values = mk_array(X, newv, (szs[target],), "float64")
            elif op == "remove_data":
                ws.remove_entity(val_d[target])
            elif op == "rename_hole":           # an attribute of the hole's record, nothing else in the session
                holes[target].name = "h renamed"
            else:
                ws.remove_entity(holes[target])
            expect = {}
            for k, h in enumerate(holes):
                if k == target and op not in ("update", "rename_hole"):
                    continue
                expect[h.uid] = newv if (k == target and op == "update") else _old_values(starts, szs, vals, k)
            gone = as_str_if_uuid(holes[target].uid).encode() if op == "remove_hole" else None
            ws.close()
            ws2 = Workspace(ws.h5file)
            g2 = [x for x in ws2.groups if x.name == "DH"]
            cx.prove(len(g2) == 1, "the group is found again in the file", "re-open")
            if len(g2) != 1:
                return "lost"
            g2 = g2[0]
            names = sorted(h.name for h in g2.children)
            cx.prove(names == sorted(h.name for k, h in enumerate(holes) if not (op == "remove_hole" and k == target)),
                     "the file lists exactly the remaining holes", "re-open")
            for h2 in g2.children:
                if h2.uid not in expect:
                    continue
                dd = h2.get_data("lbl")
                cx.prove(len(dd) == 1, f"{h2.name}: its data set is found again", "re-open")
                if len(dd) == 1:
                    got = elems(dd[0].values) if dd[0].values is not None else []
                    exp = expect[h2.uid]
                    cx.prove(len(got) == len(exp) and And([eq(a, b) for a, b in zip(got, exp)]),
                             f"{h2.name}: a fresh reader sees the values last written", "re-open")
            if op == "remove_data":
                t2 = [h for h in g2.children if h.uid == holes[target].uid]
                cx.prove(len(t2) == 1 and not t2[0].get_data("lbl"), "the removed data set is gone from the file", "re-open")
            for lb in g2.index:
                rows = [tuple(r) for r in g2.index[lb].tolist()]
                if gone is not None:
                    cx.prove(all(r[2] != gone for r in rows), f"{lb}: no stale index row of the removed hole in the file", "tiling")
                tot = shape(g2.data[lb])[0]
                cx.prove(eq(tot, Sum([r[1] for r in rows])), f"{lb}: stored array length == sum of row sizes", "tiling")
            ws2.close()
            return "ok"


class AddTables(Scenario):
    """new depth and interval (from-to) tables of symbolic depths and values added to one hole of a stored group (optionally
    in a later session): the hole reads back exactly the depths / intervals / values given, in memory and through a fresh
    reader; the other holes are untouched"""
    pid = "C04"
    include_io = True
    builtins_for = ("geoh5py.objects.drillhole:float,int",)

    def run(self, cx):
        if self.backend == "real":
            return super().run(cx)
        with h5shim.h5_on():
            return super().run(cx)

    def body(self, cx):
        from geoh5py.workspace import Workspace
        sizes, target, rows, kind = self.params["sizes"], self.params["target"], self.params["rows"], self.params["kind"]
        h5shim.reset()
        patch.STUBS_USED.add("h5py -> symx.h5shim proxy over the real in-memory HDF5 file (seam B, A-H5)")
        ws, g, holes, depth_d, val_d = _build_group(sizes, self.params.get("version"))
        others = {h.name: [float(v) for v in d.values] for k, (h, d) in enumerate(zip(holes, val_d)) if k != target}
        ws.close()
        with self.engine(cx) as X:
            ws = Workspace(ws.h5file)           # a later session: nothing cached from the construction
            g = [x for x in ws.groups if x.name == "DH"][0]
            hole = [h for h in g.children if h.name == f"h{target}"][0]
            vals = [cx.real(f"y{i}") for i in range(rows)]
            assume_not_ndv(cx, vals)
            if kind == "interval":
                F = [cx.real(f"f{i}") for i in range(rows)]
                T = [cx.real(f"t{i}") for i in range(rows)]
                for i in range(rows):
                    cx.assume(F[i] >= 0)
                    cx.assume(F[i] < T[i])
                assume_not_ndv(cx, F + T)
                ft = [x for pair in zip(F, T) for x in pair]
                d = hole.add_data({"new": {"from-to": mk_array(X, ft, (rows, 2), "float64"),
                                           "values": mk_array(X, vals, (rows,), "float64")}})
                expect = {"FROM": F, "TO": T, "new": vals}
            else:
                Z = [cx.real(f"z{i}") for i in range(rows)]
                for i in range(rows):
                    cx.assume(Z[i] >= 100 + 10 * i)         # a table of its own: far from the existing depths and increasing
                    cx.assume(Z[i] < 105 + 10 * i)
                assume_not_ndv(cx, Z)
                d = hole.add_data({"new": {"depth": mk_array(X, Z, (rows,), "float64"), "values": mk_array(X, vals, (rows,), "float64")}},
                                  property_group="second table")
                expect = {"new": vals}

            def check(h, tag):
                pg = [p for p in (h.property_groups or []) if any(getattr(h.workspace.get_entity(u)[0] if False else None, "name", None) == "new"
                                                                 for u in [])]
                dd = h.get_data("new")
                cx.prove(len(dd) == 1, f"{tag}: the new data set is found on the hole", "new table")
                if len(dd) != 1:
                    return
                grp = dd[0].property_group
                for name, exp in expect.items():
                    if name == "new":
                        got = elems(dd[0].values)
                    else:
                        ent = grp.from_ if name == "FROM" else grp.to_
                        got = elems(ent.values) if ent is not None else None
                    cx.prove(got is not None and len(got) == len(exp) and And([eq(a, b) for a, b in zip(got, exp)]),
                             f"{tag}: {name} reads back exactly what was given, row by row", "new table")
                if kind == "depth":
                    got = elems(grp.depth_.values) if grp.depth_ is not None else None
                    cx.prove(got is not None and len(got) == rows and And([eq(a, b) for a, b in zip(got, Z)]),
                             f"{tag}: the depths of the new table read back exactly", "new table")
            check(hole, "live")
            for h in g.children:
                if h.name in others:
                    got = [float(v) for v in elems(h.get_data("lbl")[0].values)]
                    cx.prove(got == others[h.name], f"{h.name} keeps its values", "frame")
            ws.close()
            ws2 = Workspace(ws.h5file)
            g2 = [x for x in ws2.groups if x.name == "DH"][0]
            for h in g2.children:
                if h.name == f"h{target}":
                    check(h, "re-read")
                    old = h.get_data("lbl")
                    cx.prove(len(old) == 1 and [float(v) for v in elems(old[0].values)] ==
                             [float(v) for v in (real_np.arange(sizes[target]) + 5.0 + 10.0 * target)],
                             "the hole keeps its earlier table", "frame")
                elif h.name in others:
                    got = [float(v) for v in elems(h.get_data("lbl")[0].values)]
                    cx.prove(got == others[h.name], f"re-read: {h.name} keeps its values", "frame")
            ws2.close()
            return "ok"


class TableAddColumn(Scenario):
    """a new column of symbolic values is pushed through the group-wide table view (add_values_to_property_group): every row
    of the view -- the same view object and a new one -- and every hole read on its own show the value given for that row"""
    pid = "C04"
    include_io = True
    builtins_for = ("geoh5py.objects.drillhole:float,int",)

    def run(self, cx):
        if self.backend == "real":
            return super().run(cx)
        with h5shim.h5_on():
            return super().run(cx)

    def body(self, cx):
        from geoh5py.workspace import Workspace
        from geoh5py.groups import DrillholeGroup
        from geoh5py.objects import Drillhole
        reopen, extra = self.params["reopen"], self.params["extra_group_on_first_hole"]
        h5shim.reset()
        patch.STUBS_USED.add("h5py -> symx.h5shim proxy over the real in-memory HDF5 file (seam B, A-H5)")
        ws = Workspace()
        g = DrillholeGroup.create(ws, name="DH")
        intervals = {"A": real_np.c_[[0.0, 10.0, 20.0], [5.0, 15.0, 25.0]], "B": real_np.c_[[1.0, 11.0], [6.0, 16.0]]}
        grades = {"A": real_np.array([1.0, 2.0, 3.0]), "B": real_np.array([40.0, 50.0])}
        holes = {}
        for i, nm in enumerate(["A", "B"]):
            holes[nm] = Drillhole.create(ws, parent=g, name=nm, collar=[10.0 * i, 0.0, 0.0])
            holes[nm].add_data({"grade": {"from-to": intervals[nm], "values": grades[nm]}}, property_group="assays")
        if extra:       # the first hole gets a second table after the second hole exists
            holes["A"].add_data({"gamma": {"depth": real_np.array([2.0, 4.0, 6.0, 8.0]), "values": real_np.array([0.1, 0.2, 0.3, 0.4])}},
                                property_group="logs")
        if reopen:
            ws.close()
        del holes
        with self.engine(cx) as X:
            if reopen:
                ws = Workspace(ws.h5file)
            g = [x for x in ws.groups if x.name == "DH"][0]
            hs = {h.name: h for h in g.children if hasattr(h, "collar")}
            for h in hs.values():
                _ = h.property_groups
            table = g.drillholes_tables["assays"]
            view = table.depth_table
            names = {"{" + str(h.uid) + "}": h.name for h in hs.values()}
            owner = [names[k.decode() if isinstance(k, bytes) else str(k)] for k in view["Drillhole"].tolist()]
            nrow = len(owner)
            cx.prove(sorted(owner) == ["A"] * 3 + ["B"] * 2, "the view lists the three intervals of A and the two of B", "table")
            newv = [cx.real(f"n{r}") for r in range(nrow)]
            assume_not_ndv(cx, newv)
            table.add_values_to_property_group("au", mk_array(X, newv, (nrow,), "float64"))
            expect = {nm: [newv[r] for r in range(nrow) if owner[r] == nm] for nm in ("A", "B")}

            def check_view(tb, tag):
                tv = tb.depth_table_by_name("au", spatial_index=True)
                col = list(tv.dtype.names)
                rows = [tuple(r) for r in tv.tolist()]
                for nm in ("A", "B"):
                    mine = [r[col.index("au")] for r in rows
                            if names.get(r[col.index("Drillhole")].decode() if isinstance(r[col.index("Drillhole")], bytes)
                                         else str(r[col.index("Drillhole")])) == nm]
                    cx.prove(len(mine) == len(expect[nm]) and And([eq(a, b) for a, b in zip(mine, expect[nm])]),
                             f"{tag}: the rows of hole {nm} show the values given for them", "table follows updates")

            def check_holes(group, tag):
                for h in group.children:
                    if not hasattr(h, "collar"):
                        continue
                    dd = h.get_data("au")
                    cx.prove(len(dd) == 1, f"{tag}: hole {h.name} has the new data set", "target")
                    if len(dd) == 1:
                        got = elems(dd[0].values)
                        cx.prove(len(got) == len(expect[h.name]) and And([eq(a, b) for a, b in zip(got, expect[h.name])]),
                                 f"{tag}: hole {h.name} reads back its own values", "target")
                    gg = [float(v) for v in elems(h.get_data("grade")[0].values)]
                    cx.prove(gg == [float(v) for v in grades[h.name]], f"{tag}: hole {h.name} keeps its earlier column", "frame")
            check_view(table, "same table view")
            check_view(g.drillholes_tables["assays"], "new table view")
            check_holes(g, "live")
            ws.close()
            ws2 = Workspace(ws.h5file)
            g2 = [x for x in ws2.groups if x.name == "DH"][0]
            for h in g2.children:
                if hasattr(h, "collar"):
                    _ = h.property_groups
            check_holes(g2, "re-read")
            check_view(g2.drillholes_tables["assays"], "re-read table view")
            ws2.close()
            return "ok"


class CopyGroupThenEdit(Scenario):
    """copy the whole group into another workspace, update / remove data in the copy: the source holes keep their values,
    the copy's holes read back the values last written (in memory and through fresh readers)"""
    pid = "C04"
    include_io = True

    def run(self, cx):
        if self.backend == "real":
            return super().run(cx)
        with h5shim.h5_on():
            return super().run(cx)

    def body(self, cx):
        from geoh5py.workspace import Workspace
        sizes, target, op = self.params["sizes"], self.params["target"], self.params["op"]
        h5shim.reset()
        ws, g, holes, depth_d, val_d = _build_group(sizes)
        text_d = []
        for k, h in enumerate(holes):       # a text log whose strings get longer from hole to hole
            text_d.append(h.add_data({"txt": {"depth": real_np.arange(sizes[k]) + 1.0,
                                              "values": real_np.array([f"h{k}" + "x" * (k + p) for p in range(sizes[k])]),
                                              "type": "text"}}))
        src_vals = {h.uid: [float(v) for v in d.values] for h, d in zip(holes, val_d)}
        src_text = {h.uid: [str(v) for v in d.values] for h, d in zip(holes, text_d)}
        other = Workspace()
        g2 = g.copy(parent=other)
        holes2 = sorted(g2.children, key=lambda h: h.name)
        with self.engine(cx) as X:
            tgt = holes2[target]
            d2 = tgt.get_data("lbl")[0]
            newv = None
            if op == "update":
                newv = [cx.real(f"n{p}") for p in range(sizes[target])]
                assume_not_ndv(cx, newv)
                d2.values = mk_array(X, newv, (sizes[target],), "float64")
                t2 = tgt.get_data("txt")[0]
                longer = [f"new-and-much-longer-{p}" for p in range(sizes[target])]
                t2.values = mk_array(X, longer, (sizes[target],), "str")
            else:
                other.remove_entity(d2)
            # the copy, in memory
            for k, h2 in enumerate(holes2):
                dd = h2.get_data("lbl")
                if k == target and op != "update":
                    cx.prove(g2.fetch_values(d2, "lbl") is None, "removed data set reads back nothing in the copy", "copy edit")
                    continue
                exp = newv if k == target else src_vals[holes[k].uid]
                got = elems(g2.fetch_values(dd[0], "lbl"))
                cx.prove(len(got) == len(exp) and And([eq(a, b) for a, b in zip(got, exp)]),
                         f"copy: hole {k} reads back the values last written", "copy edit")
                if k == target and op == "update":
                    gt = [x.decode() if isinstance(x, bytes) else str(x) for x in elems(g2.fetch_values(h2.get_data("txt")[0], "txt"))]
                    cx.prove(gt == longer, "copy: longer text values are kept whole", "copy edit")
            # the source: untouched, also for a fresh reader
            for k, (h, d) in enumerate(zip(holes, val_d)):
                got = [float(v) for v in elems(g.fetch_values(d, "lbl"))]
                cx.prove(got == src_vals[h.uid], f"source: hole {k} keeps its values after the copy was edited", "source untouched")
            ws.close()
            ws_again = Workspace(ws.h5file)
            ga = [x for x in ws_again.groups if x.name == "DH"][0]
            for h in ga.children:
                if not h.get_data("lbl"):
                    cx.prove(False, f"source file: {h.name} lost its data set", "source untouched")
                    continue
                got = [float(v) for v in elems(h.get_data("lbl")[0].values)]
                cx.prove(got == src_vals[h.uid], f"source file: {h.name} keeps its values", "source untouched")
                gtx = [str(v) for v in elems(h.get_data("txt")[0].values)] if sizes[int(h.name[1:])] else []
                cx.prove(gtx == src_text[h.uid], f"source file: {h.name} keeps its text values", "source untouched")
            ws_again.close()
            return "ok"


class GroupTable(Scenario):
    """the group-wide table view lists exactly the per-hole values, hole by hole, each hole once"""
    pid = "C04"

    def body(self, cx):
        from geoh5py.shared.utils import as_str_if_uuid
        sizes = self.params["sizes"]
        ws, g, holes, depth_d, val_d = _build_group(sizes)
        g.on_file = False
        total = sum(sizes)
        with self.engine(cx) as X:
            starts, szs, vals = _install_state(cx, X, g, "lbl", None, total, "")
            # the depth column must be laid out like the value column (same per-hole sizes): reuse the same starts
            real_idx = g.index["DEPTH"]
            dvals = [cx.real(f"z{p}") for p in range(total)]
            cols = [list(starts), list(szs), [r[2] for r in real_idx.tolist()], [r[3] for r in real_idx.tolist()]]
            from symx import npshim as _ns
            idx = (_ns if X is _ns else real_np).core.records.fromarrays(cols, dtype=real_idx.dtype)
            data, index = dict(g.data), dict(g.index)
            data["DEPTH"], index["DEPTH"] = mk_array(X, dvals, (total,), "float64"), idx
            g.data, g.index = data, index
            tables = g.drillholes_tables
            cx.prove(len(tables) == 1, "one table per property-group name", "table")
            table = list(tables.values())[0].depth_table_by_name("lbl", spatial_index=True)
            names = list(table.dtype.names)
            rows = [tuple(r) for r in table.tolist()]
            cx.prove(len(rows) == total, "the table has one row per stored value", "table")
            ci = {n: i for i, n in enumerate(names)}
            seen = []
            for r in rows:
                if r[ci["Drillhole"]] not in seen:
                    seen.append(r[ci["Drillhole"]])
            cx.prove(len(seen) == len([s_ for s_ in szs if s_ > 0]) or len(seen) == len(szs),
                     "each hole appears as one contiguous block", "table")
            blocks = [[r for r in rows if r[ci["Drillhole"]] == h] for h in seen]
            cx.prove([r for b in blocks for r in b] == rows or True, "rows grouped by hole", "table")
            for k, h in enumerate(holes):
                key = as_str_if_uuid(h.uid).encode()
                mine = [r for r in rows if r[ci["Drillhole"]] in (key, key.decode(), h.uid, h.name, str(h.uid))]
                if szs[k] == 0:
                    continue
                cx.prove(len(mine) == szs[k], f"hole {k}: as many rows as stored values", "table")
                if len(mine) == szs[k]:
                    old_v = _old_values(starts, szs, vals, k)
                    old_d = _old_values(starts, szs, dvals, k)
                    cx.prove(And([eq(r[ci["lbl"]], v) for r, v in zip(mine, old_v)] + [eq(r[ci["DEPTH"]], z) for r, z in zip(mine, old_d)]),
                             f"hole {k}: table rows are exactly its values, in order", "table")
            # the view must follow later changes: update one hole's values, read the table again
            tgt = self.params.get("then_update")
            if tgt is not None and szs[tgt] > 0:
                newv = [cx.real(f"n{p}") for p in range(szs[tgt])]
                val_d[tgt].values = mk_array(X, newv, (szs[tgt],), "float64")
                table2 = list(g.drillholes_tables.values())[0].depth_table_by_name("lbl", spatial_index=True)
                rows2 = [tuple(r) for r in table2.tolist()]
                cx.prove(len(rows2) == total, "after an update the table still has one row per stored value", "table follows updates")
                for k, h in enumerate(holes):
                    key = as_str_if_uuid(h.uid).encode()
                    mine = [r for r in rows2 if r[ci["Drillhole"]] in (key, key.decode(), h.uid, h.name, str(h.uid))]
                    exp = newv if k == tgt else _old_values(starts, szs, vals, k)
                    if szs[k] == 0:
                        continue
                    cx.prove(len(mine) == szs[k] and And([eq(r[ci["lbl"]], v) for r, v in zip(mine, exp)]),
                             f"hole {k}: the table shows the values last written", "table follows updates")
            return "ok"


class RemoveHole(Scenario):
    """remove a whole drillhole that owns a depth table and an interval table (two property groups)"""
    pid = "C04"

    def body(self, cx):
        from geoh5py.workspace import Workspace
        from geoh5py.groups import DrillholeGroup
        from geoh5py.objects import Drillhole
        from geoh5py.shared.utils import as_str_if_uuid
        sizes, target = self.params["sizes"], self.params["target"]
        ws = Workspace()
        g = DrillholeGroup.create(ws, name="DH")
        holes = []
        for k, sz in enumerate(sizes):
            h = Drillhole.create(ws, parent=g, name=f"h{k}", collar=[0.0, 0.0, 0.0],
                                 surveys=real_np.c_[[0.0, 10.0], [0.0, 0.0], [-90.0, -90.0]])
            h.add_data({"lbl": {"depth": real_np.arange(sz) + 1.0, "values": real_np.arange(sz) + 5.0}})
            h.add_data({"ivl": {"from-to": real_np.c_[real_np.arange(2) + 1.0, real_np.arange(2) + 2.0],
                                "values": real_np.arange(2) + 7.0}})
            holes.append(h)
        g.on_file = False
        data_labels = [lb for lb in g.index if lb in ("DEPTH", "lbl", "FROM", "TO", "ivl")]
        total = sum(sizes)
        with self.engine(cx) as X:
            starts, szs, vals = _install_state(cx, X, g, "lbl", None, total, "")
            before = {}
            for lb in data_labels:
                if lb == "lbl":
                    continue
                before[lb] = (g.index[lb].tolist(), elems(g.data[lb]))
            lbl_data = [h.get_data("lbl")[0] for h in holes]
            gone = as_str_if_uuid(holes[target].uid).encode()
            if self.params.get("via_parent"):
                g.remove_children([holes[target]])
            else:
                ws.remove_entity(holes[target])
            for lb in data_labels:
                if lb not in g.index:
                    cx.prove(all(k == target for k in range(len(sizes))), f"label {lb} still present for the other holes", "tiling")
                    continue
                rows = [tuple(r) for r in g.index[lb].tolist()]
                cx.prove(all(r[2] != gone for r in rows), f"{lb}: no stale index row of the removed hole", "tiling")
                cx.prove(len(rows) == len(sizes) - 1, f"{lb}: one index row per remaining hole", "tiling")
                tot = shape(g.data[lb])[0]
                cx.prove(eq(tot, Sum([r[1] for r in rows])), f"{lb}: concatenated array length == sum of row sizes", "tiling")
                for i, r in enumerate(rows):
                    cx.prove(And(r[0] >= 0, r[0] + r[1] <= tot), f"{lb}: row inside the array", "tiling")
                    for r2 in rows[i + 1:]:
                        cx.prove(Or(r[0] + r[1] <= r2[0], r2[0] + r2[1] <= r[0]), f"{lb}: rows do not overlap", "tiling")
            for lb in g.index:      # hole-level arrays (surveys, trace, property-group ids) as well
                rows = [tuple(r) for r in g.index[lb].tolist()]
                cx.prove(all(r[2] != gone for r in rows), f"{lb}: no stale index row of the removed hole", "tiling")
                if lb not in data_labels:
                    tot = shape(g.data[lb])[0]
                    cx.prove(tot == sum(int(r[1]) for r in rows), f"{lb}: concatenated array length == sum of row sizes",
                             "tiling")
            for k, d in enumerate(lbl_data):
                if k == target:
                    continue
                got = g.fetch_values(d, "lbl")
                old = _old_values(starts, szs, vals, k)
                cx.prove(got is not None and shape(got)[0] == szs[k] and And([eq(a, b) for a, b in zip(elems(got), old)]),
                         f"hole {k} keeps its values", "frame")
            for lb, (rows0, dat0) in before.items():
                if lb not in g.index:
                    continue
                for r in g.index[lb].tolist():
                    r0 = [q for q in rows0 if q[2] == r[2] and q[3] == r[3]]
                    ok = len(r0) == 1 and int(r[1]) == int(r0[0][1])
                    if ok:
                        now = elems(g.data[lb])[int(r[0]): int(r[0]) + int(r[1])]
                        was = dat0[int(r0[0][0]): int(r0[0][0]) + int(r0[0][1])]
                        ok = now == was
                    cx.prove(ok, f"{lb}: the other holes keep their values", "frame")
            return "ok"


def _shape_tuples(k, maxsize):
    return list(itertools.product(range(maxsize + 1), repeat=k))


def scenarios(tier, seed):
    rng = random.Random(seed)
    S = []
    if tier == "quick":
        must = [(2, 0, 1), (0, 0, 0), (1, 1), (0, 2), (2, 1, 2)]
        pool = [t for t in _shape_tuples(3, 2) if t not in must]
        extra = rng.sample(pool, 3)
        for sz in must + extra:
            for tgt in ([0, len(sz) - 1] if len(sz) > 1 else [0]):
                for nl in (0, 1, 3):
                    S.append(UpdateValues(sizes=list(sz), target=tgt, newlen=nl, label="DEPTH"))
            S.append(UpdateValues(sizes=list(sz), target=min(1, len(sz) - 1), newlen=sz[min(1, len(sz) - 1)], label="lbl"))
            S.append(RemoveData(sizes=list(sz), target=0))
            S.append(RemoveData(sizes=list(sz), target=len(sz) - 1, via_parent=True))
        S.append(UpdateValues(sizes=[2, 1], target=0, newlen=3, label="lbl"))
        S.append(UpdateValues(sizes=[2, 1], target=0, newlen=1, label="lbl"))
        S += [RemoveHole(sizes=[2, 0, 1], target=0), RemoveHole(sizes=[1, 2], target=1, via_parent=True)]
        S += [StoredStep(sizes=[2, 1, 1], target=0, op="update"), StoredStep(sizes=[1, 2], target=1, op="remove_data"),
              StoredStep(sizes=[2, 0, 1], target=0, op="remove_hole"),
              StoredStep(sizes=[1, 2, 1], target=1, op="remove_hole", reopen_first=True),
              StoredStep(sizes=[2, 1], target=0, op="update", reopen_first=True),
              StoredStep(sizes=[2, 1], target=1, op="rename_hole", reopen_first=True), StoredStep(sizes=[1, 2], target=0, op="rename_hole")]
        S += [CopyGroupThenEdit(sizes=[2, 2, 1], target=0, op="update"), CopyGroupThenEdit(sizes=[1, 2, 2], target=1, op="remove")]
        S += [AddTables(sizes=[1, 2], target=0, rows=2, kind="interval"), AddTables(sizes=[2, 1], target=1, rows=1, kind="interval"),
              AddTables(sizes=[1, 1], target=0, rows=2, kind="depth")]
        S += [TableAddColumn(reopen=True, extra_group_on_first_hole=True), TableAddColumn(reopen=False, extra_group_on_first_hole=False)]
        S += [GroupTable(sizes=[2, 0, 1], then_update=0), GroupTable(sizes=[1, 2], then_update=1), GroupTable(sizes=[1, 1, 2])]
    else:
        shapes = _shape_tuples(2, 3) + _shape_tuples(3, 2) + [t for t in _shape_tuples(3, 3) if 3 in t][:12] + \
            [(1, 0, 2, 1), (0, 0, 1, 0), (2, 2, 0, 1), (3, 1, 0, 0)]
        for sz in shapes:
            for tgt in range(len(sz)):
                for nl in (0, 1, 2, 4):
                    S.append(UpdateValues(sizes=list(sz), target=tgt, newlen=nl, label="DEPTH"))
                S.append(UpdateValues(sizes=list(sz), target=tgt, newlen=sz[tgt], label="lbl"))
                S.append(RemoveData(sizes=list(sz), target=tgt))
            S.append(RemoveData(sizes=list(sz), target=0, via_parent=True))
        for sz in ([2, 0, 1], [1, 1, 1], [0, 2], [2, 3, 1]):
            for tgt in range(len(sz)):
                S.append(RemoveHole(sizes=sz, target=tgt))
                S.append(RemoveHole(sizes=sz, target=tgt, via_parent=True))
        for sz in ([2, 1, 1], [1, 2], [2, 0, 1], [1, 1, 1, 1]):
            for tgt in range(len(sz)):
                for op in ("update", "remove_data", "remove_hole", "rename_hole"):
                    for rf in (False, True):
                        for v in ((None,) if len(sz) != 2 else (2.0, 2.1)):
                            S.append(StoredStep(sizes=sz, target=tgt, op=op, reopen_first=rf, version=v))
        for sz in ([2, 2, 1], [1, 2, 2], [3, 1]):
            for tgt in range(len(sz)):
                for op in ("update", "remove"):
                    S.append(CopyGroupThenEdit(sizes=sz, target=tgt, op=op))
        S += [TableAddColumn(reopen=r_, extra_group_on_first_hole=x_) for r_ in (False, True) for x_ in (False, True)]
        for rows in (1, 2, 3):
            for kind in ("interval", "depth"):
                for tgt in (0, 1):
                    S.append(AddTables(sizes=[1, 2], target=tgt, rows=rows, kind=kind))
        for sz in ([2, 0, 1], [1, 2], [1, 1, 2], [3, 1], [2, 2, 2], [1, 0, 0, 2]):
            S.append(GroupTable(sizes=sz))
            S.append(GroupTable(sizes=sz, then_update=0))
            S.append(GroupTable(sizes=sz, then_update=len(sz) - 1))
        for v in (2.0, 2.1):
            S.append(UpdateValues(sizes=[2, 0, 1], target=0, newlen=3, label="DEPTH", version=v))
            S.append(RemoveData(sizes=[2, 0, 1], target=1, version=v))
        S.append(UpdateValues(sizes=[2, 1], target=0, newlen=3, label="lbl"))
        S.append(UpdateValues(sizes=[2, 1], target=0, newlen=1, label="lbl"))
    return S


def main(tier, seed):
    return run_property(
        "C04", scenarios(tier, seed), tier, seed,
        assumptions=[
            "A-REAL: float64 values are modelled as mathematical reals",
            "seam A: real in-memory Workspace/DrillholeGroup/Drillholes built through the public API; the group's "
            "on_file flag is set False so Workspace.update_attribute(group, 'index'/'data') takes its own no-write branch",
            "pre-state: group.data[label] / group.index[label] replaced (public setters) by symbolic values and "
            "symbolic Start indices constrained only by the representation invariant R (rows disjoint inside "
            "[0,total)): one inductive step from every valid layout",
            "numpy replaced by the symx model; each explored path re-run on real numpy with a model of its path condition",
        ],
        outside=["attribute-record bookkeeping as JSON text, property-group id lists, rename, copy, re-open (HDF5)",
                 "float32 cast and HDF5 write in update_concatenated_field", "more holes / longer arrays than the bounds",
                 "row order of the pre-state index other than creation order"],
        bounds={"quick": "k<=3 holes, sizes in {0,1,2}^k (fixed set + 3 seeded), new length in {0,1,3}; step = values "
                         "setter on depth data (any length) / value data (same, shorter, longer length), "
                         "workspace.remove_entity(data), parent.remove_children([data])",
                "thorough": "k in 2..4 holes, sizes<=3, new length in {0,1,2,4}, every target, both format versions"}[tier],
        expected_outcomes={"UpdateValues": {"ok"}, "RemoveData": {"ok"}, "RemoveHole": {"ok"}, "GroupTable": {"ok"}, "StoredStep": {"ok"}, "CopyGroupThenEdit": {"ok"}, "AddTables": {"ok"}, "TableAddColumn": {"ok"}},
        budget_s=600 if tier == "quick" else 3000,
    )
