"""C11 -- closing always leaves a complete file and a released handle (symx path exploration; weak use of the technique).

Operations from the C01 alphabet (numeric payloads symbolic) run inside a ``with Workspace(...)`` block; the way the block
ends is a symbolic choice: it runs to its end, an exception escapes after k operations (k symbolic), the workspace is
closed explicitly in the middle, or a helper re-opens it in another mode.  Afterwards: the tree a fresh Workspace reads
equals the tree the live workspace showed when the last operation completed (term by term), the handle is released,
calls that need the file raise the dedicated closed-file error, and re-opening restores access."""
from __future__ import annotations

import numpy as real_np

from symx import patch, h5shim
from .common import Scenario, elems, shape, mk_array, run_property, assume_not_ndv
from .c03 import _same
from .c01 import tree_snapshot

OPS = ["set_vertices", "set_values", "rename", "move", "copy", "remove_vertices", "remove_data", "add_data", "set_flags", "create_deferred",
       "hole_rename", "hole_values"]
ENDINGS = ["normal exit", "exception after 0", "exception after 1", "exception after 2", "explicit close after 1", "reopened in mode r after 1",
           "helper block, normal exit", "helper block, exception after 1", "helper block, exception after 2"]


class _Abort(Exception):
    pass


class CloseAfter(Scenario):
    pid = "C11"
    include_io = True

    def run(self, cx):
        if self.backend == "real":
            return super().run(cx)
        with h5shim.h5_on():
            return super().run(cx)

    def body(self, cx):
        from geoh5py.workspace import Workspace
        from geoh5py.groups import ContainerGroup
        from geoh5py.objects import Points
        from geoh5py.shared.exceptions import Geoh5FileClosedError
        first = self.params["first"]
        h5shim.reset()
        patch.STUBS_USED.add("h5py -> symx.h5shim proxy over the real in-memory HDF5 file (seam B, A-H5)")
        ws0 = Workspace()
        g = ContainerGroup.create(ws0, name="G")
        h = ContainerGroup.create(ws0, name="H")
        o = Points.create(ws0, vertices=real_np.arange(9.0).reshape(3, 3), name="O", parent=g)
        d1 = o.add_data({"D1": {"values": real_np.arange(3.0)}})
        d2 = o.add_data({"D2": {"values": real_np.array([7, 8, 9], dtype="int32"), "type": "integer"}})
        from geoh5py.groups import DrillholeGroup
        from geoh5py.objects import Drillhole
        dg = DrillholeGroup.create(ws0, name="DH", parent=g)      # inside a container group, not directly under the root
        hole = Drillhole.create(ws0, parent=dg, name="hole", collar=[0.0, 0.0, 0.0], surveys=real_np.c_[[0.0, 10.0], [0.0, 0.0], [-90.0, -90.0]])
        hole.add_data({"log": {"depth": real_np.array([1.0, 2.0]), "values": real_np.array([5.0, 6.0])}})
        uid = {"g": g.uid, "h": h.uid, "o": o.uid, "d1": d1.uid, "d2": d2.uid}
        ws0.close()
        h5file = ws0.h5file
        del g, h, o, d1, d2, ws0, dg, hole
        with self.engine(cx) as X:
            ops = [first, OPS[int(cx.int("op1", 0, len(OPS)))]]
            ending = ENDINGS[int(cx.int("ending", 0, len(ENDINGS)))]
            state = {"snap": None, "done": 0}
            held = {}

            def apply(ws, t, op):
                o = ws.get_entity(uid["o"])[0]
                if o is None:
                    return
                if op == "set_vertices":
                    nv = shape(o.vertices)[0]
                    o.vertices = mk_array(X, [cx.real(f"s{t}v{i}") for i in range(nv * 3)], (nv, 3), "float64")
                elif op == "set_values":
                    d = ws.get_entity(uid["d1"])[0]
                    nv = shape(o.vertices)[0]
                    if d is not None:
                        newv = [cx.real(f"s{t}x{i}") for i in range(nv)]
                        assume_not_ndv(cx, newv)
                        d.values = mk_array(X, newv, (nv,), "float64")
                elif op == "rename":
                    o.name = f"O renamed at {t}"
                elif op == "move":
                    o.parent = ws.get_entity(uid["h"])[0] if o.parent.uid == uid["g"] else ws.get_entity(uid["g"])[0]
                elif op == "copy":
                    o.copy(parent=ws.get_entity(uid["h"])[0])
                elif op == "remove_vertices":
                    nv = shape(o.vertices)[0]
                    if nv >= 2:
                        o.remove_vertices([cx.int(f"s{t}i", 0, nv)])
                elif op == "remove_data":
                    d = ws.get_entity(uid["d2"])[0]
                    if d is not None:
                        ws.remove_entity(d)
                elif op == "add_data":
                    nv = shape(o.vertices)[0]
                    newv = [cx.real(f"s{t}y{i}") for i in range(nv)]
                    assume_not_ndv(cx, newv)
                    o.add_data({f"D3 at {t}": {"values": mk_array(X, newv, (nv,), "float64")}})
                elif op == "set_flags":
                    o.visible = False
                    o.public = False
                elif op == "create_deferred":          # written at the close only
                    ws.create_entity(ContainerGroup, save_on_creation=False, entity={"name": f"deferred group at {t}"})
                elif op in ("hole_rename", "hole_values"):      # concatenated attributes are flushed at the close
                    grp = [x for x in ws.groups if x.name == "DH"][0]
                    hl = [x for x in grp.children if getattr(x, "name", "").startswith("hole")][0]
                    if op == "hole_rename":
                        hl.name = f"hole renamed at {t}"
                    else:
                        newv = [cx.real(f"s{t}h{i}") for i in range(2)]
                        assume_not_ndv(cx, newv)
                        hl.get_data("log")[0].values = mk_array(X, newv, (2,), "float64")

            stop_after = {"exception after 0": 0, "exception after 1": 1, "exception after 2": 2, "helper block, exception after 1": 1,
                          "helper block, exception after 2": 2}.get(ending)
            ws = None
            helper = ending.startswith("helper block")
            try:
                if helper:
                    from geoh5py.shared.utils import fetch_active_workspace
                    ws = Workspace(h5file)
                    ws.close()              # the helper opens the workspace itself, in the requested mode
                    block = fetch_active_workspace(ws, mode="r+")
                else:
                    block = Workspace(h5file)
            except Exception as e:  # noqa: BLE001
                cx.prove(False, f"the file left by the session that created the tree (closed normally) opens again ({type(e).__name__})",
                         "file complete")
                return "open raised"
            try:
                with block as ws:
                    held["o"] = ws.get_entity(uid["o"])[0]          # a handle obtained before the close, nothing cached yet
                    state["snap"] = tree_snapshot(ws)
                    for t, op in enumerate(ops):
                        if stop_after is not None and t == stop_after:
                            raise _Abort()
                        apply(ws, t, op)
                        state["snap"] = tree_snapshot(ws)
                        state["done"] = t + 1
                        if t == 0 and ending == "explicit close after 1":
                            ws.close()
                            break
                        if t == 0 and ending == "reopened in mode r after 1":
                            ws.close()
                            ws.open(mode="r")
                            _ = tree_snapshot(ws)
                            break
                    if stop_after is not None and stop_after >= len(ops):
                        raise _Abort()
            except _Abort:
                pass
            except Exception as e:  # noqa: BLE001 -- an operation refused: not what C11 is about
                return f"operation raised {type(e).__name__}"
            what = f"[{' -> '.join(ops[:state['done']])} | {ending}]"
            # the handle is released
            closed = False
            try:
                _ = ws.geoh5
            except Geoh5FileClosedError:
                closed = True
            except Exception:  # noqa: BLE001
                closed = False
            cx.prove(closed, f"{what} the workspace reports its file as closed", "handle released")
            cx.prove(not bool(getattr(ws, "_geoh5", None)), f"{what} no open HDF5 handle is kept", "handle released")
            # calls that need the file raise the dedicated error (the handle `held['o']` has cached nothing about its data)
            for label, call in (("adding data", lambda: held["o"].add_data({"late": {"values": mk_array(X, [1.0], (1,), "float64")}})),
                                ("renaming", lambda: setattr(held["o"], "name", "late")),
                                ("fetching children of the root", lambda: ws.fetch_children(ws.root, recursively=True))):
                if held["o"] is None:
                    continue
                try:
                    call()
                    outcome = "returned"
                except Geoh5FileClosedError:
                    outcome = "closed-file error"
                except Exception as e:  # noqa: BLE001
                    outcome = type(e).__name__
                cx.prove(outcome == "closed-file error", f"{what} {label} after the close raises the closed-file error ({outcome})",
                         "closed-file error")
            # everything completed before the close is in the file, and the file opens again
            try:
                ws2 = Workspace(h5file)
                back = tree_snapshot(ws2)
                ws2.close()
            except Exception as e:  # noqa: BLE001
                cx.prove(False, f"{what} the file can be opened again ({type(e).__name__})", "file complete")
                return "re-open raised"
            live = state["snap"]
            cx.prove(set(back) == set(live), f"{what} the file holds exactly the entities shown when the last operation completed",
                     "file complete")
            for key, rec in live.items():
                if key.startswith("#") or key not in back:
                    continue
                for fld, val in rec.items():
                    cx.prove(fld in back[key] and _same(back[key][fld], val), f"{what} {rec['class']} '{rec['name'][:10]}': {fld} is in the file",
                             "file complete")
            # re-opening the same workspace object restores access
            try:
                ws.open()
                again = tree_snapshot(ws)
                cx.prove(set(again) == set(live), f"{what} re-opening the workspace restores access to the same content", "re-open restores access")
                # full access: a write goes through after the re-open, whatever mode an earlier visit used
                try:
                    ws.get_entity(uid["h"])[0].name = "H renamed after re-opening"
                    wrote = True
                except Exception:  # noqa: BLE001
                    wrote = False
                cx.prove(wrote, f"{what} a plain re-open gives write access again", "re-open restores access")
                ws.close()
            except Exception as e:  # noqa: BLE001
                cx.prove(False, f"{what} re-opening the workspace restores access ({type(e).__name__})", "re-open restores access")
            return "ok"


def scenarios(tier, seed):
    return [CloseAfter(first=op) for op in OPS]


def main(tier, seed):
    return run_property(
        "C11", scenarios(tier, seed), tier, seed,
        assumptions=["symbolic: the second operation, the way the block ends (6 endings), newly assigned arrays and removal indices; concrete: the "
                     "tree (two groups, a point set with float and integer data)",
                     "'completed before the close' = the live tree right after the last operation that returned",
                     "A-H5: symbolic payloads are kept beside the real HDF5 file by a proxy and handed back unchanged",
                     "that h5py releases the OS handle when its File object is closed is trusted; what is checked is that the library closes "
                     "it and reports the closed state"],
        outside=["process kills and power loss (out of scope in the statement)", "exceptions raised *inside* a library call (abort points are "
                 "between operations, as in the statement)", "other entity classes; longer blocks"],
        bounds="first operation (12) x second operation (12) x ending {normal exit, exception after 0 / 1 / 2 operations, explicit close after "
               "1, re-opened in mode 'r' after 1, the same inside the fetch_active_workspace helper: normal exit, exception after 1 / 2}",
        expected_outcomes={"CloseAfter": {"ok"}},
    )
