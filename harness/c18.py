"""C18 -- drillhole positions follow the survey (symx, seam A; desurvey kernel)."""
from __future__ import annotations

import numpy as real_np

from symx import patch
from symx.core import And, Or, Not, Implies, Sum, select, eq, ite
from .common import Scenario, elems, shape, mk_array, run_property


def _direction(X, az, dp):
    """unit direction of a station from azimuth/dip in degrees, by the same library route as the code
    (cos/sin/mod are uninterpreted in the model, so the identities hold for arbitrary directions)"""
    h = X.deg2rad(450.0 - az % 360.0)
    v = X.deg2rad(dp)
    return (X.cos(h) * X.cos(v), X.sin(h) * X.cos(v), X.sin(v))


class Desurvey(Scenario):
    pid = "C18"
    builtins_for = ("geoh5py.objects.drillhole:float,int",)

    def body(self, cx):
        from geoh5py.workspace import Workspace
        from geoh5py.objects import Drillhole
        n, nq = self.params["rows"], self.params.get("queries", 1)
        ws = Workspace()
        dh = Drillhole.create(ws, collar=[0.0, 0.0, 0.0],
                              surveys=real_np.c_[real_np.arange(n) * 10.0, real_np.zeros(n), -90 * real_np.ones(n)])
        patch.detach(ws, dh)
        _ = dh.locations            # fill the cache: the setters must invalidate it
        with self.engine(cx) as X:
            d = [cx.real(f"d{i}") for i in range(n)]
            az = [cx.real(f"a{i}") for i in range(n)]
            dp = [cx.real(f"p{i}") for i in range(n)]
            col = [cx.real(f"c{a}") for a in "xyz"]
            qs = [cx.real(f"q{t}") for t in range(nq)]
            cx.assume(d[0] >= 0)
            for i in range(n - 1):
                cx.assume(d[i] <= d[i + 1])
            for q in qs:
                cx.assume(q >= 0)
            dh.surveys = mk_array(X, [x for i in range(n) for x in (d[i], az[i], dp[i])], (n, 3), "float64")
            dh.collar = list(col)
            pos0 = elems(dh.desurvey(mk_array(X, [0.0], (1,), "float64")))
            cx.prove(And([eq(pos0[a], col[a]) for a in range(3)]), "position(0) == collar", "collar at depth zero")
            got = dh.desurvey(mk_array(X, qs, (nq,), "float64"))
            cx.prove(shape(got) == (nq, 3), "one position per query depth", "shape")
            ge = elems(got)
            # oracle: stations S_0 = (0, dir of first row), S_1..S_n = rows
            D = [0.0] + d
            dirs = [_direction(X, az[0], dp[0])] + [_direction(X, az[i], dp[i]) for i in range(n)]
            mean = [tuple((dirs[i][a] + dirs[i + 1][a]) / 2 for a in range(3)) for i in range(n)]
            P = [tuple(col)]
            for i in range(n):
                P.append(tuple(P[i][a] + (D[i + 1] - D[i]) * mean[i][a] for a in range(3)))
            for t, q in enumerate(qs):
                for a in range(3):
                    exp = P[n][a] + (q - D[n]) * mean[n - 1][a]
                    for i in range(n - 1, -1, -1):
                        exp = ite(q <= D[i + 1], P[i][a] + (q - D[i]) * mean[i][a], exp)
                    # beyond the last station on a zero-length last leg the property names no direction: only continuity
                    undetermined = And(q > D[n], eq(D[n], D[n - 1])) if n > 1 else And(q > D[n], eq(D[n], 0.0))
                    cx.prove(Implies(Not(undetermined), eq(ge[t * 3 + a], exp)),
                             f"position(q{t}) axis {a}: on the path, mean direction within the leg, last direction beyond",
                             "position follows the survey")
            # displacement between two depths in the same leg with coinciding station directions == depth difference * dir
            if nq >= 2:
                q1, q2 = qs[0], qs[1]
                for i in range(n):
                    same_leg = And(D[i] < q1, q1 <= q2, q2 <= D[i + 1],
                                   And([eq(dirs[i][a], dirs[i + 1][a]) for a in range(3)]))
                    cx.prove(Implies(same_leg, And([eq(ge[3 + a] - ge[a], (q2 - q1) * dirs[i + 1][a]) for a in range(3)])),
                             f"leg {i}: displacement == depth difference along the common direction", "displacement")
            cx.observe("~positions", ge)   # depends on uninterpreted cos/sin: not comparable
            return "ok"


class MatchValues(Scenario):
    """utils.match_values / merge_arrays on an *unsorted* head array: pairs must point at the caller's positions"""
    pid = "C18"

    def body(self, cx):
        from geoh5py.shared.utils import match_values, merge_arrays
        n, m = self.params["n"], self.params["m"]
        tol = 0.5
        with self.engine(cx) as X:
            a = [cx.real(f"a{i}") for i in range(n)]
            b = [cx.real(f"b{j}") for j in range(m)]
            A = mk_array(X, a, (n,), "float64")
            B = mk_array(X, b, (m,), "float64")
            close = lambda x, y: And(x - y < tol, y - x < tol)       # noqa: E731
            pairs = match_values(A, B, collocation_distance=tol)
            pe = elems(pairs)
            k = shape(pairs)[0]
            cx.prove(k == 0 or shape(pairs)[1] == 2, "pairs are (head index, query index) rows", "match_values")
            for r in range(k):
                i, j = pe[2 * r], pe[2 * r + 1]
                cx.prove(And(i >= 0, i < n, j >= 0, j < m, close(select(a, i), select(b, j))),
                         f"pair {r}: head[i] and query[j] are within the collocation distance", "match_values")
            for j in range(m):
                has = Or([close(a[i], b[j]) for i in range(n)])
                listed = Or([eq(pe[2 * r + 1], j) for r in range(k)])
                cx.prove(Implies(has, listed), f"query {j} with a head value within tolerance is matched", "match_values")
            merged, mapping = merge_arrays(mk_array(X, a, (n,), "float64"), mk_array(X, b, (m,), "float64"),
                                           collocation_distance=tol, return_mapping=True)
            me = elems(merged)
            cx.prove(len(me) >= n and And([eq(me[i], a[i]) for i in range(n)]), "no head value changes (A->B)", "merge_arrays")
            for j in range(m):
                survives = Or([eq(x, b[j]) for x in me[n:]])
                near = Or([close(a[i], b[j]) for i in range(n)])
                cx.prove(Or(survives, near), f"tail value {j} survives or lies within tolerance of a head value", "merge_arrays")
            for x in me[n:]:
                cx.prove(And([Not(close(a[i], x)) for i in range(n)]), "appended values are not collocated with a head value",
                         "merge_arrays")
            cx.observe("pairs", pe)
            return "ok"


def scenarios(tier, seed):
    if tier == "quick":
        return [Desurvey(rows=1, queries=2), Desurvey(rows=2, queries=1), Desurvey(rows=2, queries=2),
                MatchValues(n=3, m=1), MatchValues(n=2, m=2)]
    return [Desurvey(rows=1, queries=2), Desurvey(rows=2, queries=2), Desurvey(rows=3, queries=1),
            MatchValues(n=3, m=2), MatchValues(n=4, m=1), MatchValues(n=2, m=3), MatchValues(n=1, m=1)]


def main(tier, seed):
    return run_property(
        "C18", scenarios(tier, seed), tier, seed,
        assumptions=[
            "A-REAL: depths, angles and coordinates are mathematical reals; float32 storage of surveys is not modelled",
            "cos/sin of degree values and x % 360 are uninterpreted functions (oracle uses the same symbols): the "
            "identities hold for arbitrary station directions; unit length of directions is not used",
            "np.divide(..., where=) leaves masked-out slots as fresh unconstrained values (uninitialised memory)",
            "survey depths non-decreasing and >= 0; query depths >= 0",
            "seam A: real in-memory Workspace, save_entity no-op; float/int stand-ins injected in geoh5py.objects.drillhole",
        ],
        outside=["validate_depth_data / validate_interval_data / sort_depths (vertices and cells created for added data)",
                 "float32 rounding of stored surveys", "direction beyond the last station when the last leg has zero length",
                 "more than 3 survey rows (z3 needs > 40 min on 4 rows: dropped from the thorough tier)"],
        bounds={"quick": "survey tables with 1-2 rows, 1-2 symbolic query depths; match_values/merge_arrays with <=3 head and <=2 query values (any order)", "thorough": "1-3 rows, 1-2 query depths; match/merge with <=4 head, <=3 query values"}[tier],
        expected_outcomes={"Desurvey": {"ok"}, "MatchValues": {"ok"}},
        timeout_ms=8000 if tier == "quick" else 20000,
    )
