"""C18 -- drillhole positions follow the survey (symx, seam A; desurvey kernel)."""
from __future__ import annotations

import numpy as real_np

from symx import patch
from symx.core import And, Or, Not, Implies, Sum, select, eq, ite
from .common import Scenario, elems, shape, mk_array, run_property


def _direction(X, az, dp):
    """unit direction of a station from azimuth/dip in degrees, by the same library route as the code
    (cos/sin/mod are uninterpreted in the model, so the identities hold for arbitrary directions)"""
    h = X.deg2rad(450.0 - az % 360.0)
    v = X.deg2rad(dp)
    return (X.cos(h) * X.cos(v), X.sin(h) * X.cos(v), X.sin(v))


class Desurvey(Scenario):
    pid = "C18"
    builtins_for = ("geoh5py.objects.drillhole:float,int",)

    def body(self, cx):
        from geoh5py.workspace import Workspace
        from geoh5py.objects import Drillhole
        n, nq = self.params["rows"], self.params.get("queries", 1)
        ws = Workspace()
        dh = Drillhole.create(ws, collar=[0.0, 0.0, 0.0],
                              surveys=real_np.c_[real_np.arange(n) * 10.0, real_np.zeros(n), -90 * real_np.ones(n)])
        patch.detach(ws, dh)
        _ = dh.locations            # fill the cache: the setters must invalidate it
        with self.engine(cx) as X:
            d = [cx.real(f"d{i}") for i in range(n)]
            az = [cx.real(f"a{i}") for i in range(n)]
            dp = [cx.real(f"p{i}") for i in range(n)]
            col = [cx.real(f"c{a}") for a in "xyz"]
            qs = [cx.real(f"q{t}") for t in range(nq)]
            cx.assume(d[0] >= 0)
            for i in range(n - 1):
                cx.assume(d[i] <= d[i + 1])
            rep = self.params.get("repeat")
            if rep is not None:         # a station repeated at the same depth with another direction (a kink in the path)
                cx.assume(eq(d[rep], d[rep + 1]))
            for q in qs:
                cx.assume(q >= 0)
            dh.surveys = mk_array(X, [x for i in range(n) for x in (d[i], az[i], dp[i])], (n, 3), "float64")
            _ = dh.locations            # path evaluated with the old collar: assigning the collar must invalidate it
            dh.collar = list(col)
            pos0 = elems(dh.desurvey(mk_array(X, [0.0], (1,), "float64")))
            cx.prove(And([eq(pos0[a], col[a]) for a in range(3)]), "position(0) == collar", "collar at depth zero")
            got = dh.desurvey(mk_array(X, qs, (nq,), "float64"))
            cx.prove(shape(got) == (nq, 3), "one position per query depth", "shape")
            ge = elems(got)
            # oracle: stations S_0 = (0, dir of first row), S_1..S_n = rows
            D = [0.0] + d
            dirs = [_direction(X, az[0], dp[0])] + [_direction(X, az[i], dp[i]) for i in range(n)]
            mean = [tuple((dirs[i][a] + dirs[i + 1][a]) / 2 for a in range(3)) for i in range(n)]
            P = [tuple(col)]
            for i in range(n):
                P.append(tuple(P[i][a] + (D[i + 1] - D[i]) * mean[i][a] for a in range(3)))
            for t, q in enumerate(qs):
                for a in range(3):
                    exp = P[n][a] + (q - D[n]) * mean[n - 1][a]
                    for i in range(n - 1, -1, -1):
                        exp = ite(q <= D[i + 1], P[i][a] + (q - D[i]) * mean[i][a], exp)
                    # beyond the last station on a zero-length last leg the property names no direction: only continuity
                    undetermined = And(q > D[n], eq(D[n], D[n - 1])) if n > 1 else And(q > D[n], eq(D[n], 0.0))
                    cx.prove(Implies(Not(undetermined), eq(ge[t * 3 + a], exp)),
                             f"position(q{t}) axis {a}: on the path, mean direction within the leg, last direction beyond",
                             "position follows the survey")
            # displacement between two depths in the same leg with coinciding station directions == depth difference * dir
            if nq >= 2:
                q1, q2 = qs[0], qs[1]
                for i in range(n):
                    same_leg = And(D[i] < q1, q1 <= q2, q2 <= D[i + 1],
                                   And([eq(dirs[i][a], dirs[i + 1][a]) for a in range(3)]))
                    cx.prove(Implies(same_leg, And([eq(ge[3 + a] - ge[a], (q2 - q1) * dirs[i + 1][a]) for a in range(3)])),
                             f"leg {i}: displacement == depth difference along the common direction", "displacement")
            cx.observe("~positions", ge)   # depends on uninterpreted cos/sin: not comparable
            return "ok"


class MatchValues(Scenario):
    """utils.match_values / merge_arrays on an *unsorted* head array: pairs must point at the caller's positions"""
    pid = "C18"

    def body(self, cx):
        from geoh5py.shared.utils import match_values, merge_arrays
        n, m = self.params["n"], self.params["m"]
        tol = 0.5
        with self.engine(cx) as X:
            a = [cx.real(f"a{i}") for i in range(n)]
            b = [cx.real(f"b{j}") for j in range(m)]
            A = mk_array(X, a, (n,), "float64")
            B = mk_array(X, b, (m,), "float64")
            close = lambda x, y: And(x - y < tol, y - x < tol)       # noqa: E731
            pairs = match_values(A, B, collocation_distance=tol)
            pe = elems(pairs)
            k = shape(pairs)[0]
            cx.prove(k == 0 or shape(pairs)[1] == 2, "pairs are (head index, query index) rows", "match_values")
            for r in range(k):
                i, j = pe[2 * r], pe[2 * r + 1]
                cx.prove(And(i >= 0, i < n, j >= 0, j < m, close(select(a, i), select(b, j))),
                         f"pair {r}: head[i] and query[j] are within the collocation distance", "match_values")
            for j in range(m):
                has = Or([close(a[i], b[j]) for i in range(n)])
                listed = Or([eq(pe[2 * r + 1], j) for r in range(k)])
                cx.prove(Implies(has, listed), f"query {j} with a head value within tolerance is matched", "match_values")
            merged, mapping = merge_arrays(mk_array(X, a, (n,), "float64"), mk_array(X, b, (m,), "float64"),
                                           collocation_distance=tol, return_mapping=True)
            me = elems(merged)
            cx.prove(len(me) >= n and And([eq(me[i], a[i]) for i in range(n)]), "no head value changes (A->B)", "merge_arrays")
            for j in range(m):
                survives = Or([eq(x, b[j]) for x in me[n:]])
                near = Or([close(a[i], b[j]) for i in range(n)])
                cx.prove(Or(survives, near), f"tail value {j} survives or lies within tolerance of a head value", "merge_arrays")
            for x in me[n:]:
                cx.prove(And([Not(close(a[i], x)) for i in range(n)]), "appended values are not collocated with a head value",
                         "merge_arrays")
            cx.observe("pairs", pe)
            return "ok"


def _collide(d, e, tol):
    """two depths of the added log (at least the tolerance apart from each other) have the same existing depth as their
    nearest one within the tolerance (ties included): class of the open finding F-C18-2"""
    dist = lambda a, b: ite(a >= b, a - b, b - a)                      # noqa: E731
    nearest = lambda i, j: And([dist(d[i], e[j]) < tol] +               # noqa: E731
                               [dist(d[i], e[j]) <= dist(d[k], e[j]) for k in range(len(d)) if k != i])
    return Or([And(nearest(i, j), nearest(i, k)) for i in range(len(d)) for j in range(len(e)) for k in range(j + 1, len(e))]
              or [False])


class AddDepthData(Scenario):
    """two depth logs added to a drillhole (any order of depths, second log possibly collocated with the first):
    every vertex sits at the position of its depth and each value stays attached to its depth"""
    pid = "C18"
    builtins_for = ("geoh5py.objects.drillhole:float,int",)

    def body(self, cx):
        from geoh5py.workspace import Workspace
        from geoh5py.objects import Drillhole
        n1, n2 = self.params["n1"], self.params["n2"]
        tol = 0.5
        ws = Workspace()
        dh = Drillhole.create(ws, collar=[10.0, 20.0, 30.0],
                              surveys=real_np.c_[[0.0, 8.0, 16.0], [0.0, 40.0, 40.0], [-90.0, -60.0, -45.0]])
        patch.detach(ws, dh)
        with self.engine(cx) as X:
            d = [cx.real(f"d{i}") for i in range(n1)]
            x = [cx.real(f"x{i}") for i in range(n1)]
            e = [cx.real(f"e{i}") for i in range(n2)]
            y = [cx.real(f"y{i}") for i in range(n2)]
            far = lambda a, b: Or(a - b >= tol, b - a >= tol)          # noqa: E731
            for i in range(n1):
                cx.assume(d[i] >= 0)
                for j in range(i + 1, n1):
                    cx.assume(far(d[i], d[j]))          # one log does not repeat its own depths
            for i in range(n2):
                cx.assume(e[i] >= 0)
                for j in range(i + 1, n2):
                    cx.assume(far(e[i], e[j]))
            self.known_class(cx, "two_added_depths_nearest_to_one_existing_depth", _collide(d, e, tol))
            a = dh.add_data({"logA": {"depth": mk_array(X, d, (n1,), "float64"), "values": mk_array(X, x, (n1,), "float64")}},
                            collocation_distance=tol)
            b = dh.add_data({"logB": {"depth": mk_array(X, e, (n2,), "float64"), "values": mk_array(X, y, (n2,), "float64")}},
                            collocation_distance=tol)
            depth = elems(dh.get_data("DEPTH")[0].values)
            nv = shape(dh.vertices)[0]
            va, vb = elems(a.values), elems(b.values)
            cx.prove(len(depth) == nv and len(va) <= nv and len(vb) <= nv, "one depth per vertex, no value beyond the vertices",
                     "alignment")
            # a log added before later vertices existed is padded with no-data at the tail when next formatted
            va = va + [float("nan")] * (nv - len(va))
            vb = vb + [float("nan")] * (nv - len(vb))
            close = lambda p, q: And(p - q < tol, q - p < tol)       # noqa: E731
            matched = [Or([close(d[i], e[j]) for i in range(n1)]) for j in range(n2)]
            cx.prove(eq(nv, n1 + n2 - Sum(matched)), "a vertex is added for every depth that is not collocated", "alignment")
            pos = elems(dh.desurvey(mk_array(X, depth, (nv,), "float64")))
            ve = elems(dh.vertices)
            cx.prove(And([eq(p, q) for p, q in zip(ve, pos)]), "every vertex sits at the position of its depth", "vertex positions")
            cx.prove(And([depth[i] <= depth[i + 1] for i in range(nv - 1)]), "depths sorted", "alignment")
            for i in range(n1):
                cx.prove(Or([And(eq(depth[k], d[i]), eq(va[k], x[i])) for k in range(nv)]),
                         f"value {i} of the first log stays attached to its depth", "values attached to depths")
            for j in range(n2):
                own = Or([And(eq(depth[k], e[j]), eq(vb[k], y[j])) for k in range(nv)])
                merged = Or([And(close(depth[k], e[j]), eq(vb[k], y[j])) for k in range(nv)])
                cx.prove(ite(matched[j], merged, own) if cx.mode == "sym" else (merged if matched[j] else own),
                         f"value {j} of the second log is attached to its (or the collocated) depth", "values attached to depths")
            cx.observe("depth", depth)
            return "ok"


class AddIntervalData(Scenario):
    """interval (from-to) logs: every cell joins the positions of its from and to depths, values stay with their interval"""
    pid = "C18"
    builtins_for = ("geoh5py.objects.drillhole:float,int",)

    def body(self, cx):
        from geoh5py.workspace import Workspace
        from geoh5py.objects import Drillhole
        n1, n2 = self.params["n1"], self.params["n2"]
        tol = 0.5
        ws = Workspace()
        dh = Drillhole.create(ws, collar=[10.0, 20.0, 30.0],
                              surveys=real_np.c_[[0.0, 8.0, 16.0], [0.0, 40.0, 40.0], [-90.0, -60.0, -45.0]])
        patch.detach(ws, dh)
        with self.engine(cx) as X:
            logs = []
            for tag, n in (("a", n1), ("b", n2)):
                if n == 0:
                    continue
                f = [cx.real(f"{tag}f{i}") for i in range(n)]
                t = [cx.real(f"{tag}t{i}") for i in range(n)]
                v = [cx.real(f"{tag}v{i}") for i in range(n)]
                for i in range(n):
                    cx.assume(f[i] >= 0)
                    cx.assume(f[i] < t[i])
                ft = mk_array(X, [q for i in range(n) for q in (f[i], t[i])], (n, 2), "float64")
                data = dh.add_data({f"log{tag}": {"from-to": ft, "values": mk_array(X, v, (n,), "float64")}},
                                   collocation_distance=tol)
                logs.append((f, t, v, data))
            cells = elems(dh.cells)
            nc = shape(dh.cells)[0]
            nv = shape(dh.vertices)[0]
            ve = elems(dh.vertices)
            fr, to = elems(dh.from_.values), elems(dh.to_.values)
            cx.prove(len(fr) == nc and len(to) == nc and And([And(c >= 0, c < nv) for c in cells]),
                     "one FROM/TO pair per cell, cells reference existing vertices", "alignment")
            pf = elems(dh.desurvey(mk_array(X, fr, (nc,), "float64")))
            pt = elems(dh.desurvey(mk_array(X, to, (nc,), "float64")))
            for r in range(nc):
                same = []
                for ax in range(3):
                    same.append(eq(select([ve[q * 3 + ax] for q in range(nv)], cells[2 * r]), pf[3 * r + ax]))
                    same.append(eq(select([ve[q * 3 + ax] for q in range(nv)], cells[2 * r + 1]), pt[3 * r + ax]))
                cx.prove(And(same), f"cell {r} joins the positions of its from and to depths", "cell positions")
            close = lambda p, q: And(p - q < tol, q - p < tol)       # noqa: E731
            for li, (f, t, v, data) in enumerate(logs):
                vals = elems(data.values)
                vals = vals + [float("nan")] * (nc - len(vals))
                for i in range(len(f)):
                    if li == 0:
                        cx.prove(Or([And(eq(fr[r], f[i]), eq(to[r], t[i]), eq(vals[r], v[i])) for r in range(nc)]),
                                 f"log {li} value {i} stays attached to its interval", "values attached to intervals")
                    else:
                        cx.prove(Or([And(close(fr[r], f[i]), close(to[r], t[i]), eq(vals[r], v[i])) for r in range(nc)]),
                                 f"log {li} value {i} is attached to its (or the collocated) interval", "values attached to intervals")
            cx.observe("cells", cells)
            return "ok"


class AddMixed(Scenario):
    """depth and interval logs added in a given order to one hole (one entry each): vertices with a depth sit at its position,
    every cell joins the positions of its from/to depths, each value stays with its depth / interval"""
    pid = "C18"
    builtins_for = ("geoh5py.objects.drillhole:float,int",)

    def body(self, cx):
        from geoh5py.workspace import Workspace
        from geoh5py.objects import Drillhole
        order = self.params["order"]
        tol = 0.5 if self.params.get("tol", True) else 0
        ws = Workspace()
        dh = Drillhole.create(ws, collar=[10.0, 20.0, 30.0],
                              surveys=real_np.c_[[0.0, 8.0, 16.0], [0.0, 40.0, 40.0], [-90.0, -60.0, -45.0]])
        patch.detach(ws, dh)
        with self.engine(cx) as X:
            logs = []
            for li, kind in enumerate(order):
                v = cx.real(f"v{li}")
                if kind == "depth":
                    z = cx.real(f"z{li}")
                    cx.assume(z >= 0)
                    data = dh.add_data({f"log{li}": {"depth": mk_array(X, [z], (1,), "float64"),
                                                     "values": mk_array(X, [v], (1,), "float64")}}, collocation_distance=tol)
                    logs.append(("depth", z, None, v, data))
                else:
                    f, t = cx.real(f"f{li}"), cx.real(f"t{li}")
                    cx.assume(f >= 0)
                    cx.assume(f < t)
                    data = dh.add_data({f"log{li}": {"from-to": mk_array(X, [f, t], (1, 2), "float64"),
                                                     "values": mk_array(X, [v], (1,), "float64")}}, collocation_distance=tol)
                    logs.append(("interval", f, t, v, data))
            nv = shape(dh.vertices)[0]
            ve = elems(dh.vertices)
            dd = dh.get_data("DEPTH")
            depth = elems(dd[0].values) if dd else []
            depth = depth + [float("nan")] * (nv - len(depth))
            known = [i for i in range(nv) if not is_nan_(depth[i])]
            if known:
                pos = elems(dh.desurvey(mk_array(X, [depth[i] for i in known], (len(known),), "float64")))
                cx.prove(And([eq(ve[i * 3 + a], pos[k * 3 + a]) for k, i in enumerate(known) for a in range(3)]),
                         "every vertex that has a depth sits at the position of that depth", "vertex positions")
            close = (lambda p, q: And(p - q < tol, q - p < tol)) if tol else (lambda p, q: eq(p, q))
            if dh.cells is not None and shape(dh.cells)[0] and dh.from_ is not None:
                cells = elems(dh.cells)
                nc = shape(dh.cells)[0]
                fr, to = elems(dh.from_.values), elems(dh.to_.values)
                cx.prove(len(fr) == nc and len(to) == nc and And([And(c >= 0, c < nv) for c in cells]),
                         "one FROM/TO pair per cell, cells reference existing vertices", "alignment")
                pf = elems(dh.desurvey(mk_array(X, fr, (nc,), "float64")))
                pt = elems(dh.desurvey(mk_array(X, to, (nc,), "float64")))
                for r in range(nc):
                    same = []
                    for ax in range(3):
                        same.append(eq(select([ve[q * 3 + ax] for q in range(nv)], cells[2 * r]), pf[3 * r + ax]))
                        same.append(eq(select([ve[q * 3 + ax] for q in range(nv)], cells[2 * r + 1]), pt[3 * r + ax]))
                    cx.prove(And(same), f"cell {r} joins the positions of its from and to depths", "cell positions")
            else:
                nc, fr, to = 0, [], []
            for kind, a, b, v, data in logs:
                vals = elems(data.values)
                if kind == "depth":
                    vals = vals + [float("nan")] * (nv - len(vals))
                    cx.prove(Or([And(close(depth[k], a), eq(vals[k], v)) for k in known]),
                             "a depth value stays attached to its (or the collocated) depth", "values attached to depths")
                else:
                    vals = vals + [float("nan")] * (nc - len(vals))
                    cx.prove(Or([And(close(fr[r], a), close(to[r], b), eq(vals[r], v)) for r in range(nc)]),
                             "an interval value stays attached to its (or the collocated) interval", "values attached to intervals")
            return "ok"


def is_nan_(x):
    return isinstance(x, float) and x != x


def scenarios(tier, seed):
    if tier == "quick":
        return [Desurvey(rows=1, queries=2), Desurvey(rows=2, queries=1), Desurvey(rows=2, queries=2),
                Desurvey(rows=3, queries=1, repeat=0), Desurvey(rows=3, queries=1, repeat=1),
                MatchValues(n=3, m=1), MatchValues(n=2, m=2), AddDepthData(n1=2, n2=1), AddDepthData(n1=1, n2=2),
                AddIntervalData(n1=2, n2=0), AddIntervalData(n1=1, n2=1),
                AddMixed(order=["interval", "depth"]), AddMixed(order=["depth", "interval", "depth"]),
                AddMixed(order=["depth", "depth"], tol=False)]
    return [Desurvey(rows=1, queries=2), Desurvey(rows=2, queries=2), Desurvey(rows=3, queries=1),
            MatchValues(n=3, m=2), MatchValues(n=4, m=1), MatchValues(n=2, m=3), MatchValues(n=1, m=1),
            AddDepthData(n1=2, n2=1), AddDepthData(n1=2, n2=2), AddDepthData(n1=3, n2=1), AddDepthData(n1=1, n2=2),
            AddIntervalData(n1=2, n2=0), AddIntervalData(n1=1, n2=1), AddIntervalData(n1=3, n2=0),
            AddMixed(order=["interval", "depth"]), AddMixed(order=["depth", "interval", "depth"]),
            AddMixed(order=["interval", "depth", "interval"]), AddMixed(order=["depth", "depth"], tol=False),
            AddMixed(order=["interval", "interval"], tol=False)]


def main(tier, seed):
    return run_property(
        "C18", scenarios(tier, seed), tier, seed,
        assumptions=[
            "A-REAL: depths, angles and coordinates are mathematical reals; float32 storage of surveys is not modelled",
            "cos/sin of degree values and x % 360 are uninterpreted functions (oracle uses the same symbols): the "
            "identities hold for arbitrary station directions; unit length of directions is not used",
            "np.divide(..., where=) leaves masked-out slots as fresh unconstrained values (uninitialised memory)",
            "survey depths non-decreasing and >= 0; query depths >= 0",
            "seam A: real in-memory Workspace, save_entity no-op; float/int stand-ins injected in geoh5py.objects.drillhole",
        ],
        outside=["more than three successive logs; text data",
                 "float32 rounding of stored surveys", "direction beyond the last station when the last leg has zero length",
                 "more than 3 survey rows (z3 needs > 40 min on 4 rows: dropped from the thorough tier)",
                 "interval logs of 2 + 1 rows (more than 40 min of exploration: dropped; 1+1, 2+0 and 3+0 rows are explored)",
                 "two depths of one added log nearest to the same existing depth within the tolerance (open finding F-C18-2)"],
        bounds={"quick": "survey tables with 1-2 rows, 1-2 symbolic query depths; match_values/merge_arrays with <=3 head and <=2 query values (any order)", "thorough": "1-3 rows, 1-2 query depths; match/merge with <=4 head, <=3 query values"}[tier],
        expected_outcomes={"Desurvey": {"ok"}, "MatchValues": {"ok"}, "AddDepthData": {"ok"}, "AddIntervalData": {"ok"}, "AddMixed": {"ok"}},
        timeout_ms=8000 if tier == "quick" else 20000,
    )
