"""C18 -- drillhole positions follow the survey (symx, seam A; desurvey kernel)."""
from __future__ import annotations

import numpy as real_np

from symx import patch
from symx.core import And, Or, Not, Implies, Sum, select, eq, ite
from .common import Scenario, elems, shape, mk_array, run_property


def _direction(X, az, dp):
    """unit direction of a station from azimuth/dip in degrees, by the same library route as the code
    (cos/sin/mod are uninterpreted in the model, so the identities hold for arbitrary directions)"""
    h = X.deg2rad(450.0 - az % 360.0)
    v = X.deg2rad(dp)
    return (X.cos(h) * X.cos(v), X.sin(h) * X.cos(v), X.sin(v))


class Desurvey(Scenario):
    pid = "C18"
    builtins_for = ("geoh5py.objects.drillhole:float,int",)

    def body(self, cx):
        from geoh5py.workspace import Workspace
        from geoh5py.objects import Drillhole
        n, nq = self.params["rows"], self.params.get("queries", 1)
        ws = Workspace()
        dh = Drillhole.create(ws, collar=[0.0, 0.0, 0.0],
                              surveys=real_np.c_[real_np.arange(n) * 10.0, real_np.zeros(n), -90 * real_np.ones(n)])
        patch.detach(ws, dh)
        _ = dh.locations            # fill the cache: the setters must invalidate it
        with self.engine(cx) as X:
            d = [cx.real(f"d{i}") for i in range(n)]
            az = [cx.real(f"a{i}") for i in range(n)]
            dp = [cx.real(f"p{i}") for i in range(n)]
            col = [cx.real(f"c{a}") for a in "xyz"]
            qs = [cx.real(f"q{t}") for t in range(nq)]
            cx.assume(d[0] >= 0)
            for i in range(n - 1):
                cx.assume(d[i] <= d[i + 1])
            for q in qs:
                cx.assume(q >= 0)
            dh.surveys = mk_array(X, [x for i in range(n) for x in (d[i], az[i], dp[i])], (n, 3), "float64")
            dh.collar = list(col)
            pos0 = elems(dh.desurvey(mk_array(X, [0.0], (1,), "float64")))
            cx.prove(And([eq(pos0[a], col[a]) for a in range(3)]), "position(0) == collar", "collar at depth zero")
            got = dh.desurvey(mk_array(X, qs, (nq,), "float64"))
            cx.prove(shape(got) == (nq, 3), "one position per query depth", "shape")
            ge = elems(got)
            # oracle: stations S_0 = (0, dir of first row), S_1..S_n = rows
            D = [0.0] + d
            dirs = [_direction(X, az[0], dp[0])] + [_direction(X, az[i], dp[i]) for i in range(n)]
            mean = [tuple((dirs[i][a] + dirs[i + 1][a]) / 2 for a in range(3)) for i in range(n)]
            P = [tuple(col)]
            for i in range(n):
                P.append(tuple(P[i][a] + (D[i + 1] - D[i]) * mean[i][a] for a in range(3)))
            for t, q in enumerate(qs):
                for a in range(3):
                    exp = P[n][a] + (q - D[n]) * mean[n - 1][a]
                    for i in range(n - 1, -1, -1):
                        exp = ite(q <= D[i + 1], P[i][a] + (q - D[i]) * mean[i][a], exp)
                    # beyond the last station on a zero-length last leg the property names no direction: only continuity
                    undetermined = And(q > D[n], eq(D[n], D[n - 1])) if n > 1 else And(q > D[n], eq(D[n], 0.0))
                    cx.prove(Implies(Not(undetermined), eq(ge[t * 3 + a], exp)),
                             f"position(q{t}) axis {a}: on the path, mean direction within the leg, last direction beyond",
                             "position follows the survey")
            # displacement between two depths in the same leg with coinciding station directions == depth difference * dir
            if nq >= 2:
                q1, q2 = qs[0], qs[1]
                for i in range(n):
                    same_leg = And(D[i] < q1, q1 <= q2, q2 <= D[i + 1],
                                   And([eq(dirs[i][a], dirs[i + 1][a]) for a in range(3)]))
                    cx.prove(Implies(same_leg, And([eq(ge[3 + a] - ge[a], (q2 - q1) * dirs[i + 1][a]) for a in range(3)])),
                             f"leg {i}: displacement == depth difference along the common direction", "displacement")
            cx.observe("~positions", ge)   # depends on uninterpreted cos/sin: not comparable
            return "ok"


def scenarios(tier, seed):
    if tier == "quick":
        return [Desurvey(rows=1, queries=2), Desurvey(rows=2, queries=1), Desurvey(rows=2, queries=2)]
    return [Desurvey(rows=1, queries=2), Desurvey(rows=2, queries=2), Desurvey(rows=3, queries=1),
            Desurvey(rows=3, queries=2), Desurvey(rows=4, queries=1)]


def main(tier, seed):
    return run_property(
        "C18", scenarios(tier, seed), tier, seed,
        assumptions=[
            "A-REAL: depths, angles and coordinates are mathematical reals; float32 storage of surveys is not modelled",
            "cos/sin of degree values and x % 360 are uninterpreted functions (oracle uses the same symbols): the "
            "identities hold for arbitrary station directions; unit length of directions is not used",
            "np.divide(..., where=) leaves masked-out slots as fresh unconstrained values (uninitialised memory)",
            "survey depths non-decreasing and >= 0; query depths >= 0",
            "seam A: real in-memory Workspace, save_entity no-op; float/int stand-ins injected in geoh5py.objects.drillhole",
        ],
        outside=["validate_depth_data / validate_interval_data / sort_depths (vertices and cells created for added data)",
                 "float32 rounding of stored surveys", "direction beyond the last station when the last leg has zero length",
                 "more than 4 survey rows"],
        bounds={"quick": "survey tables with 1-2 rows, 1-2 symbolic query depths", "thorough": "1-4 rows, 1-2 query depths"}[tier],
        expected_outcomes={"Desurvey": {"ok"}},
        timeout_ms=8000 if tier == "quick" else 60000,
    )
