"""C14 -- ui.json files round-trip (xh: CrossHair on the real mapper chain and InputFile, partial)."""
from __future__ import annotations

from xh.runner import Cond, run_xh

PRELUDE = '''
from typing import Optional, Union, List
from copy import deepcopy
import json
import geoh5py.shared.utils as _U


_REAL_NP = _U.np


class _NP:
    """pure-Python stand-ins for the scalar numpy predicates on this path (np.isfinite in inf2str; isinf / isnan in case
    a refactor uses them); everything else is the real numpy: listed stub"""
    nan = _REAL_NP.nan
    inf = _REAL_NP.inf

    @staticmethod
    def isfinite(x):
        if isinstance(x, int):
            return True
        return not (x != x or x == float("inf") or x == float("-inf"))

    @staticmethod
    def isinf(x):
        if isinstance(x, int):
            return False
        return x == float("inf") or x == float("-inf")

    @staticmethod
    def isnan(x):
        if isinstance(x, int):
            return False
        return x != x

    def __getattr__(self, name):
        return getattr(_REAL_NP, name)


_U.np = _NP()
import geoh5py.ui_json.utils as _UU


class _P:
    """pure-Python stand-in for pathlib.Path(...).suffix on symbolic strings (CrossHair cannot run pathlib on them)"""

    def __init__(self, v):
        self.v = str(v)

    @property
    def suffix(self):
        name = self.v[self.v.rfind("/") + 1:]
        i = name.rfind(".")
        if 0 < i < len(name) - 1:
            return name[i:]
        return ""


_UU.Path = _P
from geoh5py.shared.utils import stringify, str2none, dict_mapper, str2uuid, as_str_if_uuid
from geoh5py.ui_json.utils import str2inf, flatten, set_enabled, path2workspace
from geoh5py.ui_json import InputFile

UUIDS = ["{11111111-2222-3333-4444-555555555555}", "{aaaaaaaa-bbbb-cccc-dddd-eeeeeeeeeeee}"]


def _is_json_value(v):
    """what json.dumps can write without inventing tokens (no NaN/inf, no UUID objects, string keys)"""
    if v is None or isinstance(v, (bool, int, str)):
        return True
    if isinstance(v, float):
        return v == v and v not in (float("inf"), float("-inf"))
    if isinstance(v, list):
        return all(_is_json_value(x) for x in v)
    if isinstance(v, dict):
        return all(isinstance(k, str) and _is_json_value(x) for k, x in v.items())
    return False


def _write_read(ui):
    """InputFile.write_ui_json / read_ui_json without the file: demote + stringify -> (JSON text) -> numify"""
    out = InputFile.stringify(InputFile.demote(ui))
    assert _is_json_value(out)
    return InputFile.numify(json.loads(json.dumps(out)) if False else deepcopy(out))


def _rt(v):
    s = stringify({"k": v})["k"]
    if not _is_json_value(s):
        return False
    back = dict_mapper(s, [str2none, str2inf, str2uuid, path2workspace])
    return back == v and type(back) is type(v)
'''

CONDS = [
    Cond("scalar_none_bool_str_roundtrip", '''
def scalar_none_bool_str_roundtrip(v: Union[None, bool, str]) -> bool:
    """
    pre: not isinstance(v, str) or len(v) <= 2
    post: _
    """
    return _rt(v)
''', "None / bool / short string values survive stringify -> numify unchanged (value and type)",
         exclusions={"F-C14-1": 'isinstance(v, str) and v in ("", "inf", "-inf")'}),

    Cond("scalar_keyword_like_strings_roundtrip", '''
def scalar_keyword_like_strings_roundtrip(i: int) -> bool:
    """
    pre: 0 <= i < 16
    post: _
    """
    words = ["Inf", "INF", "-Inf", "iNf", "inf ", " inf", "+inf", "nan", "NaN", "None", "none", "true", "True", "false", "1e5", "0x10"]
    return _rt(words[i])
''', "strings that merely look like the spellings of special values (other capitalisation, blanks, other keywords) survive "
     "stringify -> numify as the same strings"),

    Cond("scalar_int_roundtrip", '''
def scalar_int_roundtrip(v: int) -> bool:
    """
    post: _
    """
    return _rt(v)
''', "every integer value survives stringify -> numify unchanged", timeout=60),

    Cond("scalar_int_roundtrip_32_digits", '''
def scalar_int_roundtrip_32_digits(v: int) -> bool:
    """
    pre: 10**31 <= abs(v) < 10**32
    post: _
    """
    return _rt(v)
''', "integers whose decimal form has exactly 32 digits (the length of a uuid's hex form) survive the round trip", timeout=60),

    Cond("scalar_float_roundtrip", '''
def scalar_float_roundtrip(sel: int, v: float) -> bool:
    """
    pre: 0 <= sel < 3
    pre: v == v
    post: _
    """
    x = [v, float("inf"), float("-inf")][sel]
    return _rt(x)
''', "finite floats and both infinities survive stringify -> numify (NaN is the documented exception)", timeout=60),

    Cond("list_of_strings_roundtrip", '''
def list_of_strings_roundtrip(a: str, b: str, n: int) -> bool:
    """
    pre: 0 <= n <= 2
    pre: len(a) == 1 and len(b) == 1
    post: _
    """
    return _rt([a, b][:n])
''', "lists of up to two non-empty strings (multi-choice values) survive the round trip", timeout=60,
         exclusions={"F-C14-1": 'any(x in ("inf", "-inf") for x in [a, b][:n])'}),

    Cond("list_of_bools_roundtrip", '''
def list_of_bools_roundtrip(a: bool, b: bool, n: int) -> bool:
    """
    pre: 0 <= n <= 2
    post: _
    """
    return _rt([a, b][:n])
''', "lists of up to two booleans survive the round trip"),

    Cond("form_bool_roundtrip_value_and_enabled", '''
def form_bool_roundtrip_value_and_enabled(vi: int, has_opt: bool, optional: bool, enabled: bool, has_group_opt: bool,
                                     group_enabled: bool) -> bool:
    """
    pre: 0 <= vi < 2
    post: _
    """
    kind = 0
    values = [[True, False, True], [0, -3, 7], [0.5, float("inf"), float("-inf")], ["abc", "a b", "x.y"],
              ["c1", "c2", "c1"], [UUIDS[0], UUIDS[1], UUIDS[0]]][kind]
    form = {"label": "lbl", "value": values[vi]}
    if kind == 4:
        form["choiceList"] = ["c1", "c2"]
    if kind == 5:
        form["meshType"] = [UUIDS[1]]
    if has_opt:
        form["optional"] = optional
        form["enabled"] = enabled
    ui = {"title": "t", "p": form}
    if has_group_opt:
        form["group"] = "G"
        ui["g"] = {"label": "g", "value": 1, "group": "G", "groupOptional": True, "enabled": group_enabled}
    a = InputFile(ui_json=deepcopy(ui), validate=False)
    da = a.data
    back = _write_read(a.ui_json)
    b = InputFile(ui_json=deepcopy(back), validate=False)
    db = b.data
    same_enabled = all(a.ui_json[k].get("enabled", True) == b.ui_json[k].get("enabled", True)
                       for k in ui if isinstance(ui[k], dict))
    return da == db and same_enabled and list(da) == list(db)
''', "a whole bool form keeps its data value and enabled state through "
     "demote -> stringify -> numify, for all optional/enabled/groupOptional switch combinations", timeout=90,
         exclusions={"F-C14-3": "has_group_opt and (group_enabled != (enabled if has_opt else True))"}),

    Cond("form_int_roundtrip_value_and_enabled", '''
def form_int_roundtrip_value_and_enabled(vi: int, has_opt: bool, optional: bool, enabled: bool, has_group_opt: bool,
                                     group_enabled: bool) -> bool:
    """
    pre: 0 <= vi < 2
    post: _
    """
    kind = 1
    values = [[True, False, True], [0, -3, 7], [0.5, float("inf"), float("-inf")], ["abc", "a b", "x.y"],
              ["c1", "c2", "c1"], [UUIDS[0], UUIDS[1], UUIDS[0]]][kind]
    form = {"label": "lbl", "value": values[vi]}
    if kind == 4:
        form["choiceList"] = ["c1", "c2"]
    if kind == 5:
        form["meshType"] = [UUIDS[1]]
    if has_opt:
        form["optional"] = optional
        form["enabled"] = enabled
    ui = {"title": "t", "p": form}
    if has_group_opt:
        form["group"] = "G"
        ui["g"] = {"label": "g", "value": 1, "group": "G", "groupOptional": True, "enabled": group_enabled}
    a = InputFile(ui_json=deepcopy(ui), validate=False)
    da = a.data
    back = _write_read(a.ui_json)
    b = InputFile(ui_json=deepcopy(back), validate=False)
    db = b.data
    same_enabled = all(a.ui_json[k].get("enabled", True) == b.ui_json[k].get("enabled", True)
                       for k in ui if isinstance(ui[k], dict))
    return da == db and same_enabled and list(da) == list(db)
''', "a whole int form keeps its data value and enabled state through "
     "demote -> stringify -> numify, for all optional/enabled/groupOptional switch combinations", timeout=90,
         exclusions={"F-C14-3": "has_group_opt and (group_enabled != (enabled if has_opt else True))"}),

    Cond("form_float_roundtrip_value_and_enabled", '''
def form_float_roundtrip_value_and_enabled(vi: int, has_opt: bool, optional: bool, enabled: bool, has_group_opt: bool,
                                     group_enabled: bool) -> bool:
    """
    pre: 0 <= vi < 2
    post: _
    """
    kind = 2
    values = [[True, False, True], [0, -3, 7], [0.5, float("inf"), float("-inf")], ["abc", "a b", "x.y"],
              ["c1", "c2", "c1"], [UUIDS[0], UUIDS[1], UUIDS[0]]][kind]
    form = {"label": "lbl", "value": values[vi]}
    if kind == 4:
        form["choiceList"] = ["c1", "c2"]
    if kind == 5:
        form["meshType"] = [UUIDS[1]]
    if has_opt:
        form["optional"] = optional
        form["enabled"] = enabled
    ui = {"title": "t", "p": form}
    if has_group_opt:
        form["group"] = "G"
        ui["g"] = {"label": "g", "value": 1, "group": "G", "groupOptional": True, "enabled": group_enabled}
    a = InputFile(ui_json=deepcopy(ui), validate=False)
    da = a.data
    back = _write_read(a.ui_json)
    b = InputFile(ui_json=deepcopy(back), validate=False)
    db = b.data
    same_enabled = all(a.ui_json[k].get("enabled", True) == b.ui_json[k].get("enabled", True)
                       for k in ui if isinstance(ui[k], dict))
    return da == db and same_enabled and list(da) == list(db)
''', "a whole float form keeps its data value and enabled state through "
     "demote -> stringify -> numify, for all optional/enabled/groupOptional switch combinations", timeout=90,
         exclusions={"F-C14-3": "has_group_opt and (group_enabled != (enabled if has_opt else True))"}),

    Cond("form_string_roundtrip_value_and_enabled", '''
def form_string_roundtrip_value_and_enabled(vi: int, has_opt: bool, optional: bool, enabled: bool, has_group_opt: bool,
                                     group_enabled: bool) -> bool:
    """
    pre: 0 <= vi < 2
    post: _
    """
    kind = 3
    values = [[True, False, True], [0, -3, 7], [0.5, float("inf"), float("-inf")], ["abc", "a b", "x.y"],
              ["c1", "c2", "c1"], [UUIDS[0], UUIDS[1], UUIDS[0]]][kind]
    form = {"label": "lbl", "value": values[vi]}
    if kind == 4:
        form["choiceList"] = ["c1", "c2"]
    if kind == 5:
        form["meshType"] = [UUIDS[1]]
    if has_opt:
        form["optional"] = optional
        form["enabled"] = enabled
    ui = {"title": "t", "p": form}
    if has_group_opt:
        form["group"] = "G"
        ui["g"] = {"label": "g", "value": 1, "group": "G", "groupOptional": True, "enabled": group_enabled}
    a = InputFile(ui_json=deepcopy(ui), validate=False)
    da = a.data
    back = _write_read(a.ui_json)
    b = InputFile(ui_json=deepcopy(back), validate=False)
    db = b.data
    same_enabled = all(a.ui_json[k].get("enabled", True) == b.ui_json[k].get("enabled", True)
                       for k in ui if isinstance(ui[k], dict))
    return da == db and same_enabled and list(da) == list(db)
''', "a whole string form keeps its data value and enabled state through "
     "demote -> stringify -> numify, for all optional/enabled/groupOptional switch combinations", timeout=90,
         exclusions={"F-C14-3": "has_group_opt and (group_enabled != (enabled if has_opt else True))"}),

    Cond("form_choice_roundtrip_value_and_enabled", '''
def form_choice_roundtrip_value_and_enabled(vi: int, has_opt: bool, optional: bool, enabled: bool, has_group_opt: bool,
                                     group_enabled: bool) -> bool:
    """
    pre: 0 <= vi < 2
    post: _
    """
    kind = 4
    values = [[True, False, True], [0, -3, 7], [0.5, float("inf"), float("-inf")], ["abc", "a b", "x.y"],
              ["c1", "c2", "c1"], [UUIDS[0], UUIDS[1], UUIDS[0]]][kind]
    form = {"label": "lbl", "value": values[vi]}
    if kind == 4:
        form["choiceList"] = ["c1", "c2"]
    if kind == 5:
        form["meshType"] = [UUIDS[1]]
    if has_opt:
        form["optional"] = optional
        form["enabled"] = enabled
    ui = {"title": "t", "p": form}
    if has_group_opt:
        form["group"] = "G"
        ui["g"] = {"label": "g", "value": 1, "group": "G", "groupOptional": True, "enabled": group_enabled}
    a = InputFile(ui_json=deepcopy(ui), validate=False)
    da = a.data
    back = _write_read(a.ui_json)
    b = InputFile(ui_json=deepcopy(back), validate=False)
    db = b.data
    same_enabled = all(a.ui_json[k].get("enabled", True) == b.ui_json[k].get("enabled", True)
                       for k in ui if isinstance(ui[k], dict))
    return da == db and same_enabled and list(da) == list(db)
''', "a whole choice form keeps its data value and enabled state through "
     "demote -> stringify -> numify, for all optional/enabled/groupOptional switch combinations", timeout=90,
         exclusions={"F-C14-3": "has_group_opt and (group_enabled != (enabled if has_opt else True))"}),

    Cond("form_object_roundtrip_value_and_enabled", '''
def form_object_roundtrip_value_and_enabled(vi: int, has_opt: bool, optional: bool, enabled: bool, has_group_opt: bool,
                                     group_enabled: bool) -> bool:
    """
    pre: 0 <= vi < 2
    post: _
    """
    kind = 5
    values = [[True, False, True], [0, -3, 7], [0.5, float("inf"), float("-inf")], ["abc", "a b", "x.y"],
              ["c1", "c2", "c1"], [UUIDS[0], UUIDS[1], UUIDS[0]]][kind]
    form = {"label": "lbl", "value": values[vi]}
    if kind == 4:
        form["choiceList"] = ["c1", "c2"]
    if kind == 5:
        form["meshType"] = [UUIDS[1]]
    if has_opt:
        form["optional"] = optional
        form["enabled"] = enabled
    ui = {"title": "t", "p": form}
    if has_group_opt:
        form["group"] = "G"
        ui["g"] = {"label": "g", "value": 1, "group": "G", "groupOptional": True, "enabled": group_enabled}
    a = InputFile(ui_json=deepcopy(ui), validate=False)
    da = a.data
    back = _write_read(a.ui_json)
    b = InputFile(ui_json=deepcopy(back), validate=False)
    db = b.data
    same_enabled = all(a.ui_json[k].get("enabled", True) == b.ui_json[k].get("enabled", True)
                       for k in ui if isinstance(ui[k], dict))
    return da == db and same_enabled and list(da) == list(db)
''', "a whole object form keeps its data value and enabled state through "
     "demote -> stringify -> numify, for all optional/enabled/groupOptional switch combinations", timeout=90,
         exclusions={"F-C14-3": "has_group_opt and (group_enabled != (enabled if has_opt else True))"}),

    Cond("data_or_value_routing_roundtrip", '''
def data_or_value_routing_roundtrip(start_is_value: bool, give_uuid: bool, ui: int, has_opt: bool, enabled: bool) -> bool:
    """
    pre: 0 <= ui < 2
    post: _
    """
    import uuid as _uuid
    form = {"label": "lbl", "value": 100.0, "isValue": start_is_value, "property": None if start_is_value else UUIDS[1],
            "parent": "obj", "association": "Vertex", "dataType": "Float"}
    if has_opt:
        form["optional"] = True
        form["enabled"] = enabled
    d0 = {"title": "t", "obj": {"label": "o", "value": UUIDS[0], "meshType": [UUIDS[1]]}, "p": form}
    a = InputFile(ui_json=deepcopy(d0), validate=False)
    new = _uuid.UUID(UUIDS[ui]) if give_uuid else 2.5
    a.update_ui_values({"p": new})
    if a.ui_json["p"]["isValue"] != (not give_uuid):
        return False
    back = _write_read(a.ui_json)
    b = InputFile(ui_json=deepcopy(back), validate=False)
    return b.data["p"] == new and b.ui_json["p"]["isValue"] == (not give_uuid)
''', "a data-or-value form given an identifier switches to property mode (a number switches to value mode) and reads back the "
     "same value after the round trip", timeout=90),

    Cond("disabled_parameter_reads_none_and_stays_disabled", '''
def disabled_parameter_reads_none_and_stays_disabled(vi: int, enabled: bool, new_none: bool) -> bool:
    """
    pre: 0 <= vi < 3
    post: _
    """
    value = ["abc", "zz", "q"][vi]
    ui = {"title": "t", "p": {"label": "lbl", "value": value, "optional": True, "enabled": enabled}}
    a = InputFile(ui_json=deepcopy(ui), validate=False)
    a.update_ui_values({"p": None if new_none else value})
    exp_val = None if new_none else value
    if a.data["p"] != exp_val:
        return False
    back = _write_read(a.ui_json)
    b = InputFile(ui_json=deepcopy(back), validate=False)
    return b.data["p"] == exp_val and b.ui_json["p"]["enabled"] == (not new_none)
''', "setting an optional parameter to None disables it, it reads back as None and stays disabled after the round trip"),
]


# ---------------------------------------------------------------------------------------------------------------
# file level: real write_ui_json / read_ui_json with a workspace on disk, driven by the symx explorer with symbolic
# switches (which forms are optional / enabled / in value or property mode)
# ---------------------------------------------------------------------------------------------------------------
import os as _os
import shutil as _shutil
import uuid as _uuid
from copy import deepcopy as _deepcopy

import numpy as _np

from .common import Scenario, run_property, HERE as _HERE


class FileRoundTrip(Scenario):
    """InputFile.write_ui_json -> read_ui_json with entities, workspace path and optional parameters"""
    pid = "C14"

    def body(self, cx):
        from geoh5py.workspace import Workspace
        from geoh5py.objects import Points
        from geoh5py.ui_json import InputFile, templates
        from geoh5py.ui_json.constants import default_ui_json
        obj_opt, obj_en = bool(cx.bool("object_optional")), bool(cx.bool("object_enabled"))
        data_opt, data_en = bool(cx.bool("data_optional")), bool(cx.bool("data_enabled"))
        dv_is_value = bool(cx.bool("data_value_is_value"))
        flt = [1.5, float("inf"), float("-inf")][self.params["float_choice"]]
        flt_opt, flt_en = bool(cx.bool("float_optional")), bool(cx.bool("float_enabled"))
        validate, reassign = self.params["validate"], self.params["reassign"]      # sharded over the cores
        work = _os.path.join(_HERE, ".work", f"c14_{_os.getpid()}_{_uuid.uuid4().hex[:8]}")
        _os.makedirs(work, exist_ok=True)
        cx.on_exit(lambda: _shutil.rmtree(work, ignore_errors=True))
        with Workspace.create(_os.path.join(work, "ws.geoh5")) as ws:
            pts = Points.create(ws, vertices=_np.zeros((3, 3)), name="pts")
            d1 = pts.add_data({"d1": {"values": _np.arange(3.0)}})
            d2 = pts.add_data({"d2": {"values": _np.arange(3.0) + 1}})
            pts.find_or_create_property_group(name="group of the first object", properties=[d1.uid, d2.uid])
            # a second object (listed after the first) that owns a property group, referred to by a data-group form
            pts2 = Points.create(ws, vertices=_np.zeros((3, 3)) + 1.0, name="pts2")
            comps = [pts2.add_data({nm: {"values": _np.arange(3.0) + q}}) for q, nm in enumerate(("vx", "vy", "vz"))]
            pg = pts2.find_or_create_property_group(name="vector", properties=[c.uid for c in comps], property_group_type="3D vector")
            ui = _deepcopy(default_ui_json)
            ui["geoh5"] = ws
            ui["object2"] = templates.object_parameter(value=str(pts2.uid), mesh_type=[pts2.entity_type.uid])
            ui["pgroup"] = {"main": True, "label": "PG", "parent": "object2", "association": "Vertex", "dataType": "Float",
                            "dataGroupType": "3D vector", "value": str(pg.uid)}
            # a parameter that stays enabled through a dependency although it is not required (the switch is off)
            ui["flag"] = {"main": True, "label": "Flag", "value": False, "optional": False, "enabled": True}     # explicit members
            ui["dep"] = {"main": True, "label": "Dep", "value": 1.5, "dependency": "flag", "dependencyType": "enabled", "enabled": True}
            ui["object"] = templates.object_parameter(value=str(pts.uid), mesh_type=[pts.entity_type.uid])
            ui["data"] = templates.data_parameter(data_group_type=None, parent="object", association="Vertex", data_type="Float",
                                                  value=str(d1.uid)) if False else {
                "main": True, "label": "Data", "parent": "object", "association": "Vertex", "dataType": "Float",
                "value": str(d1.uid)}
            ui["dv"] = {"main": True, "label": "DV", "parent": "object", "association": "Vertex", "dataType": "Float",
                        "isValue": dv_is_value, "property": None if dv_is_value else str(d2.uid), "value": 2.5}
            ui["flt"] = {"main": True, "label": "F", "value": flt}
            ui["txt"] = {"main": True, "label": "T", "value": "some text"}
            g_en = bool(cx.bool("group_enabled"))
            ui["gswitch"] = {"main": True, "label": "GS", "value": 1, "group": "Group one", "groupOptional": True, "enabled": g_en}
            ui["gmember"] = {"main": True, "label": "GM", "value": 2.0, "group": "Group one"}
            # a member whose own enabled state equals its group's (not in the class of F-C14-3): compared in full
            ui["gsame"] = {"main": True, "label": "GE", "value": "keep", "group": "Group one", "enabled": g_en}
            for key, opt, en in (("object", obj_opt, obj_en), ("data", data_opt, data_en), ("flt", flt_opt, flt_en)):
                if opt:
                    ui[key]["optional"] = True
                    ui[key]["enabled"] = en
            a = InputFile(ui_json=ui, validate=validate)
            _ = a.data
            if reassign:            # later assignments through the public setter must reach the file as well
                a.set_data_value("flt", 7.25)
                a.set_data_value("txt", "changed")
                try:
                    a.set_data_value("dep", None)
                except Exception as e:  # noqa: BLE001
                    cx.prove(False, f"None is accepted for a parameter whose dependency is switched off ({type(e).__name__})", "file round trip")
                    return "refused"
            da = dict(a.data)
            a_enabled = {k: v.get("enabled", True) for k, v in a.ui_json.items() if isinstance(v, dict)}
            demoted = InputFile.demote(dict(da))
            path = a.write_ui_json("rt.ui.json", path=work)
        try:
            b = InputFile.read_ui_json(path)
            db = b.data
        except Exception as e:  # noqa: BLE001
            cx.prove(False, f"a file just written can be read back ({type(e).__name__})", "file round trip")
            return f"read raised {type(e).__name__}"
        b_enabled = {k: v.get("enabled", True) for k, v in b.ui_json.items() if isinstance(v, dict)}
        cx.prove(list(da) == list(db), "same parameters after the round trip", "file round trip")
        cx.prove(a_enabled == b_enabled, "same enabled states after the round trip", "file round trip")

        def same(x, y):
            if hasattr(x, "uid") and hasattr(y, "uid"):
                return x.uid == y.uid and type(x).__name__ == type(y).__name__
            if isinstance(x, Workspace) and isinstance(y, Workspace):
                return _os.path.realpath(str(x.h5file)) == _os.path.realpath(str(y.h5file))
            return type(x) is type(y) and x == y
        for k in da:
            if k in ("gswitch", "gmember"):
                continue        # data values of group-optional members: open finding F-C14-3 (enabled states are still compared)
            if k in db:
                cx.prove(same(da[k], db[k]), f"parameter {k!r} reads back the same value", "file round trip")
        # expected values from the switches
        cx.prove((da["object"] is None) == (obj_opt and not obj_en) and (da["data"] is None) == (data_opt and not data_en)
                 and (reassign or (da["flt"] is None) == (flt_opt and not flt_en)), "a parameter is None exactly when it is disabled",
                 "file round trip")
        if reassign:
            cx.prove(db.get("flt") == 7.25 and db.get("txt") == "changed" and b_enabled.get("flt", True) is True,
                     "values assigned with set_data_value are the ones read back", "file round trip")
            cx.prove(da.get("dep") is None and db.get("dep") is None,
                     "None assigned to a parameter that stays enabled (dependency) is what the file reads back", "file round trip")
        cx.prove(getattr(da.get("pgroup"), "uid", None) == pg.uid and getattr(db.get("pgroup"), "uid", None) == pg.uid,
                 "a property-group identifier is promoted to the group, whichever object owns it", "promotion")
        cx.prove(str(demoted.get("pgroup")).strip("{}") == str(pg.uid), "demoting the property group returns its identifier", "promotion")
        if not (obj_opt and not obj_en):
            cx.prove(getattr(da["object"], "uid", None) == pts.uid, "identifier promoted to the workspace entity", "promotion")
        if dv_is_value:
            cx.prove(db["dv"] == 2.5, "data-or-value in value mode reads the number", "file round trip")
        else:
            cx.prove(getattr(db["dv"], "uid", None) == d2.uid, "data-or-value in property mode reads the entity", "promotion")
        # promote then demote returns the original identifiers
        for k, ident in (("object", pts.uid), ("data", d1.uid)):
            if da[k] is not None:
                cx.prove(str(demoted[k]).strip("{}") == str(ident), f"demoting {k!r} returns the original identifier", "promotion")
        cx.prove(isinstance(db["geoh5"], Workspace), "the workspace path is re-opened as a workspace", "promotion")
        return "ok"


def main(tier, seed):
    rc1 = run_property(
        "C14", [FileRoundTrip(float_choice=f, validate=v, reassign=r) for f in range(3) for v in (True, False) for r in (False, True)],
        tier, seed,
        assumptions=["file level: the real InputFile.write_ui_json / read_ui_json (real JSON text, real workspace on disk under "
                     "/verif/.work) driven by the symx explorer; only the optional/enabled/isValue switches and the choice of the "
                     "float value are symbolic, every feasible combination is one path"],
        outside=["group-optional members (open finding F-C14-3)", "drillhole-group data, range and file forms at file level"],
        bounds="object / data / data-or-value / float / string forms x optional x enabled x isValue x {1.5, inf, -inf} x validate x reassignment",
        expected_outcomes={"FileRoundTrip": {"ok"}}, validate_max=0,
    )
    rc2 = run_xh(
        "C14", PRELUDE, CONDS, tier, seed,
        assumptions=[
            "the JSON text step is the identity on JSON values; the harness asserts that what reaches it is a JSON value "
            "(no NaN/inf/UUID objects, string keys)",
            "stub: geoh5py.shared.utils.np -> three-line pure-Python isfinite (CrossHair cannot pass symbolic values into numpy)",
            "stub: geoh5py.ui_json.utils.Path -> pure-Python suffix (pathlib on a symbolic str raises CrossHairInternal)",
            "InputFile without workspace (validate=False): promotion/demotion of entities and workspace paths not exercised",
        ],
        outside=["identifiers promoted to entities, workspace paths re-opened (need a workspace on disk)",
                 "strings longer than 3 characters (in particular uuid-looking strings and .geoh5 paths as *symbolic* values)",
                 "data-or-value property routing with entities, drillhole-group data, range forms",
                 "the documented exception NaN"],
        bounds="symbolic None/bool/str(len<=3)/int (unbounded)/float; lists of <=2; forms: 6 kinds x 2 values x all 2^5 switch combinations",
        functions=["geoh5py.shared.utils:stringify, dict_mapper, nan2str, inf2str, as_str_if_uuid, none2str, str2none, str2uuid, is_uuid",
                   "geoh5py.ui_json.utils:str2inf, path2workspace, flatten, set_enabled, truth, is_form",
                   "geoh5py.ui_json.input_file:InputFile.__init__/ui_json/data/stringify/demote/numify/update_ui_values"],
        merge_evidence=True,
    )
    return 1 if 1 in (rc1, rc2) else max(rc1, rc2)
