"""Runner shared by the symx harnesses: scenario protocol, parallel exploration, path-model validation on real
numpy, counterexample replay, known findings, evidence."""
from __future__ import annotations

import contextlib
import importlib
import json
import multiprocessing as mp
import os
import sys
import time
import traceback
import warnings

import numpy as real_np

HERE = os.path.dirname(os.path.dirname(os.path.abspath(__file__)))
if HERE not in sys.path:
    sys.path.insert(0, HERE)

import z3  # noqa: E402

from symx import core, nd, npshim, patch  # noqa: E402
from symx.core import Ctx, Stats  # noqa: E402

EXIT_OK, EXIT_VIOLATION, EXIT_HARNESS = 0, 1, 2


# ----------------------------------------------------------------------------
# scenario protocol
# ----------------------------------------------------------------------------
class Scenario:
    """One bounded verification scenario.  Subclasses implement ``body(cx, X)``.

    ``body`` is written once and runs in three modes: symbolic on the shim, concrete on the shim, concrete on
    real numpy.  ``X`` is the array namespace to build inputs with (npshim or real numpy)."""

    pid = "C00"
    builtins_for = ()          # geoh5py modules that get If-building max/min and float/int stand-ins
    include_io = False

    def __init__(self, **params):
        self.params = params

    # identification ---------------------------------------------------------
    @property
    def name(self):
        return type(self).__name__

    def ident(self):
        return f"{self.name}({', '.join(f'{k}={v}' for k, v in sorted(self.params.items()))})"

    def spec(self):
        return {"module": type(self).__module__, "cls": type(self).__name__, "params": self.params}

    @staticmethod
    def from_spec(spec):
        mod = importlib.import_module(spec["module"])
        return getattr(mod, spec["cls"])(**spec["params"])

    # execution --------------------------------------------------------------
    backend = "shim"
    open_classes = ()          # names of open known-finding classes (excluded from the search)
    focus_class = None         # when set: restrict the run to that class (KNOWN-FINDING confirmation)

    def run(self, cx):
        cx.scenario = self
        with warnings.catch_warnings():
            warnings.simplefilter("ignore")
            return self.body(cx)

    def body(self, cx):  # pragma: no cover
        raise NotImplementedError

    @contextlib.contextmanager
    def engine(self, cx, extra=None):
        """switch the numpy model on (unless this is a real-numpy run); yields the array namespace"""
        if self.backend == "real":
            yield real_np
            return
        cm = patch.shim_on(include_io=self.include_io, builtins_for=self.builtins_for, extra=extra)
        cm.__enter__()
        cx.on_exit(lambda: cm.__exit__(None, None, None))
        if getattr(cx, "want_profile", False) and cx.profiler is None:
            cx.profiler = core._Profiler()
            cx.profiler.start()
            cx.on_exit(cx.profiler.stop)
        try:
            yield npshim
        finally:
            pass    # switched off by cx.close() so that exceptions unwinding through geoh5py still see the shim

    def known_class(self, cx, name, formula):
        """declare an input class of a known finding (formula over the inputs: SBool / bool)"""
        if isinstance(formula, core.SBool):
            f = formula.e
        elif isinstance(formula, bool):
            f = z3.BoolVal(formula)
        else:
            f = formula
        if cx.mode != "sym":
            return
        if self.focus_class == name:
            cx.solver.add(f)
        elif name in self.open_classes:
            cx.excluded.append(f)


# helpers usable on shim arrays and real arrays ---------------------------------
def elems(a):
    if a is None:
        return None
    if isinstance(a, nd.RecArray):
        return [v for row in a.tolist() for v in row]
    if isinstance(a, nd.RecScalar):
        return list(a.vals)
    if type(a) is nd.ndarray:
        return list(a._d)
    a = real_np.asarray(a)
    if a.dtype.names:
        return [v for row in a.tolist() for v in (row if isinstance(row, tuple) else (row,))]
    return a.ravel().tolist()


def shape(a):
    if a is None:
        return None
    return tuple(a.shape)


FLOAT_NDV = 1.17549435e-38


def assume_not_ndv(cx, values):
    """the documented exception of the format: a float exactly equal to the float no-data sentinel reads back as NaN"""
    for v in values:
        if isinstance(v, core.Sym):
            cx.assume(core.Not(core.eq(v, FLOAT_NDV)))
        elif isinstance(v, float) and v == FLOAT_NDV:
            raise core.PathInfeasible()


def mk_array(X, flat, shp, dtype=None):
    """build an array of the backend from a flat list of scalars"""
    if X is npshim:
        return nd.ndarray(list(flat), shp, dtype)
    kw = {}
    if dtype is not None:
        kw["dtype"] = dtype if isinstance(dtype, str) else dtype.name
    return real_np.array(list(flat), **kw).reshape(shp)


# ----------------------------------------------------------------------------
# one scenario, all paths (runs in a worker process)
# ----------------------------------------------------------------------------
def _eval_obs(m, v):
    if isinstance(v, core.Sym):
        return core.model_value(m.eval(v.e, model_completion=True))
    if isinstance(v, (list, tuple)):
        return [_eval_obs(m, x) for x in v]
    if isinstance(v, (real_np.generic,)):
        return v.item()
    return v


def _num(v):
    from fractions import Fraction
    if isinstance(v, str):
        try:
            return float(Fraction(v))
        except (ValueError, ZeroDivisionError):
            return v
    return v


def _obs_equal(a, b):
    if isinstance(a, (list, tuple)) and isinstance(b, (list, tuple)):
        return len(a) == len(b) and all(_obs_equal(x, y) for x, y in zip(a, b))
    a, b = _num(a), _num(b)
    if isinstance(a, (int, float)) and isinstance(b, (int, float)) and not isinstance(a, bool) and not isinstance(b, bool):
        return bool(core.eq(float(a), float(b)))
    return a == b


def run_scenario(spec, tier, open_classes, focus=None, validate_max=12, timeout_ms=5000, budget_s=None,
                 max_paths=20000):
    sc = Scenario.from_spec(spec)
    sc.open_classes = tuple(open_classes)
    sc.focus_class = focus
    st = Stats()
    validations = {"done": 0, "mismatch": [], "tolerated": 0}
    t0 = time.time()

    class _Sink(list):
        """mismatches of float-sensitive scenarios (exact rational stand-ins for irrational cos/sin) are counted, not
        reported: the real run uses floating-point trigonometry and can land on the other side of a box face"""
        def append(self, x):
            if getattr(sc, "float_sensitive", False):
                validations["tolerated"] += 1
            else:
                list.append(self, x)
    validations["mismatch"] = _Sink()

    def on_path(ctx, outcome):
        # validate this path on real numpy with a model of its path condition
        if validations["done"] >= validate_max or focus is not None:
            return
        m = ctx.nice_model()
        if m is None:
            return
        model = {n: core.model_value(m.eval(c, model_completion=True)) for n, c in ctx.inputs.items()}
        sym_obs = {k: _eval_obs(m, v) for k, v in ctx.observed.items()}
        had_violation = any(v["trace"] == ctx.trace for v in st.violations)
        rsc = Scenario.from_spec(spec)
        rsc.backend = "real"
        try:
            r_out, r_failed, r_obs = core.run_concrete(rsc.run, model)
            if had_violation and r_failed:
                validations["done"] += 1    # the real code fails on this path's model too: settled by the replay below
                return
            r_failed = [lb for lb in r_failed if not any(lb == v["label"] or v["family"] in lb for v in st.violations)]
            r_failed = [] if st.violated_families else r_failed
            if any(z3.is_true(m.eval(x, model_completion=True)) for x in ctx.excluded):
                r_failed = []       # this input lies in the class of an open known finding: muted on purpose
        except Exception as e:  # noqa: BLE001
            validations["mismatch"].append({"scenario": sc.ident(), "model": model, "why": f"real run raised {e!r}",
                                            "tb": traceback.format_exc()[-800:]})
            return
        validations["done"] += 1
        if r_out != outcome:
            validations["mismatch"].append({"scenario": sc.ident(), "model": model,
                                            "why": f"outcome sym={outcome!r} real={r_out!r}"})
            return
        if r_failed and not had_violation:
            # the real code fails an obligation on this concrete input although the model discharged it: the model is not
            # faithful here (reported), and the failure on the real code is a replayed violation in its own right
            validations["mismatch"].append({"scenario": sc.ident(), "model": model,
                                            "why": f"obligations fail on real numpy but were discharged: {r_failed[:3]}",
                                            "real_failure": {"spec": spec, "label": r_failed[0], "family": "found by the replay on real numpy",
                                                             "model": model}})
        for k, v in sym_obs.items():
            if k.startswith("~"):
                continue
            rv = r_obs.get(k)
            rv = _eval_obs(None, rv) if rv is not None else rv
            if not _obs_equal(v, rv):
                validations["mismatch"].append({"scenario": sc.ident(), "model": model,
                                                "why": f"observation {k}: sym={v!r} real={rv!r}"})
                break

    try:
        core.explore(sc.run, timeout_ms=timeout_ms, stats=st, on_path=on_path, profile_first=True,
                     time_budget_s=budget_s, max_paths=max_paths)
        err = None
    except Exception as e:  # noqa: BLE001 -- an exception escaping the scenario is a harness error
        err = f"{type(e).__name__}: {e}\n{traceback.format_exc()[-1500:]}"
    # replay violations on real numpy (deduplicate by label)
    confirmed, unconfirmed = [], []
    seen = set()
    for v in st.violations:
        key = v["label"]
        if key in seen:
            continue
        seen.add(key)
        rsc = Scenario.from_spec(spec)
        rsc.backend = "real"
        try:
            r_out, r_failed, _ = core.run_concrete(rsc.run, v["model"])
            ok = v["label"] in r_failed
            why = None if ok else f"real run outcome={r_out!r} failed={r_failed[:4]}"
            if not ok and r_failed:
                # the real code breaks the scenario on this input, at another obligation than the model's (typically the
                # real run stops earlier): a replayed violation all the same, reported under the obligation that failed
                ok, why = True, f"model failed {v['label']!r}; the real run fails {r_failed[0]!r} (outcome {r_out!r})"
                v = dict(v, label=r_failed[0])
        except Exception as e:  # noqa: BLE001
            ok, why = False, f"real run raised {e!r}"
        if not ok and getattr(sc, "float_sensitive", False):
            st.inconclusive += 1
            st.unknowns.append(f"counterexample not reproduced on real numpy (float-sensitive scenario): {v['label']}")
            continue
        (confirmed if ok else unconfirmed).append({"spec": spec, "label": v["label"], "family": v["family"],
                                                   "model": v["model"], "why": why})
    validations["mismatch"] = list(validations["mismatch"])
    return {"spec": spec, "ident": sc.ident(), "stats": st.to_dict(), "validations": validations,
            "confirmed": confirmed, "unconfirmed": unconfirmed, "error": err, "wall": time.time() - t0,
            "focus": focus}


def _worker(args):
    try:
        return run_scenario(*args)
    except BaseException as e:  # noqa: BLE001
        return {"spec": args[0], "ident": str(args[0]), "stats": Stats().to_dict(),
                "validations": {"done": 0, "mismatch": []}, "confirmed": [], "unconfirmed": [],
                "error": f"worker crashed: {type(e).__name__}: {e}\n{traceback.format_exc()[-1500:]}", "wall": 0.0,
                "focus": args[3] if len(args) > 3 else None}


# ----------------------------------------------------------------------------
# known findings
# ----------------------------------------------------------------------------
def load_findings(pid):
    p = os.path.join(HERE, "known_findings.json")
    if not os.path.exists(p):
        return []
    with open(p) as f:
        allf = json.load(f)
    return [e for e in allf.get("findings", []) if e.get("property") == pid]


# ----------------------------------------------------------------------------
# main entry for a symx property check
# ----------------------------------------------------------------------------
def run_property(pid, scenarios, tier, seed, *, assumptions, outside, bounds, expected_outcomes=None,
                 self_test=None, timeout_ms=None, validate_max=None, extra_evidence=None, jobs=None,
                 budget_s=None):
    """scenarios: list of Scenario instances.  expected_outcomes: set of outcome labels of which at least one must be
    reached per scenario *class* (vacuity guard)."""
    t0 = time.time()
    patch.import_all()
    findings = load_findings(pid)
    open_by_scen = {}
    for f in findings:
        if f.get("status") == "open" and f.get("engine", "symx") == "symx":
            open_by_scen.setdefault(f["scenario"], []).append(f)
    timeout_ms = timeout_ms or (5000 if tier == "quick" else 30000)
    validate_max = validate_max if validate_max is not None else (40 if tier == "quick" else 80)
    tasks = []
    for sc in scenarios:
        oc = [f["input_class"] for f in open_by_scen.get(sc.name, [])]
        tasks.append((sc.spec(), tier, oc, None, validate_max, timeout_ms, budget_s))
        for c in oc:
            tasks.append((sc.spec(), tier, oc, c, 0, timeout_ms, budget_s))
    jobs = jobs or min(16, os.cpu_count() or 4, max(1, len(tasks)))
    if jobs > 1 and len(tasks) > 1:
        ctxm = mp.get_context("fork")
        with ctxm.Pool(jobs) as pool:
            results = pool.map(_worker, tasks, chunksize=1)
    else:
        results = [_worker(t) for t in tasks]

    total = Stats()
    inconclusive_model_notes = []
    harness_errors = []
    violations = []
    known_hits = {}
    val_done = 0
    per_class_outcomes = {}
    per_scen = []
    for r in results:
        st = Stats.from_dict(r["stats"])
        if r["focus"] is None:
            total.merge(st)
            val_done += r["validations"]["done"]
            for mm in r["validations"]["mismatch"]:
                if mm.get("real_failure"):
                    violations.append(mm["real_failure"])
                    inconclusive_model_notes.append(f"model gap: {mm['scenario']}: {mm['why']} (reported as a violation: it fails on the real code)")
                else:
                    harness_errors.append(f"validation mismatch in {mm['scenario']}: {mm['why']} model={mm['model']}")
            cls = r["spec"]["cls"]
            d = per_class_outcomes.setdefault(cls, {})
            for k, v in st.outcomes.items():
                d[k] = d.get(k, 0) + v
            per_scen.append({"scenario": r["ident"], "paths": st.paths, "queries": st.queries,
                             "obligations": st.obligations, "discharged": st.discharged,
                             "inconclusive": st.inconclusive, "outcomes": st.outcomes,
                             "wall_s": round(r["wall"], 2)})
            for v in r["confirmed"]:
                violations.append(v)
            for v in r["unconfirmed"]:
                harness_errors.append(f"counterexample did not replay on real numpy: {r['ident']} {v['label']} "
                                      f"model={v['model']} ({v['why']})")
        else:
            if r["confirmed"]:
                known_hits.setdefault((r["spec"]["cls"], r["focus"]), r["confirmed"][0])
        if r["error"]:
            harness_errors.append(f"{r['ident']}: {r['error']}")

    # vacuity guard
    inconclusive_notes = []
    if expected_outcomes:
        for cls, need in expected_outcomes.items():
            got = per_class_outcomes.get(cls, {})
            if not any(got.get(o, 0) > 0 for o in need):
                msg = f"vacuity: scenario class {cls} never reached any of {sorted(need)} (outcomes: {got})"
                if total.gaps or total.unknowns:
                    # the model did not cover the code as it is now: nothing decided, which is neither a pass nor a fault
                    # of the code under analysis -- reported, exit code unchanged
                    inconclusive_notes.append(msg + " -- because of model gaps / solver unknowns: INCONCLUSIVE")
                else:
                    harness_errors.append(msg)
    if self_test:
        try:
            msg = self_test()
            if msg:
                harness_errors.append(f"self-test: {msg}")
        except Exception as e:  # noqa: BLE001
            harness_errors.append(f"self-test raised {e!r}")

    # report
    os.makedirs(os.path.join(HERE, "replays"), exist_ok=True)
    exit_code = EXIT_OK
    lines = []
    for f in findings:
        if f.get("status") == "open" and f.get("engine", "symx") == "symx":
            hit = known_hits.get((f["scenario"], f["input_class"]))
            if hit:
                lines.append(f"KNOWN-FINDING: property={pid} {f['id']} {f['what']}")
    seen = set()
    for i, v in enumerate(violations):
        key = (v["spec"]["cls"], v["family"], v["label"].split(":")[0])
        if key in seen or len(seen) >= 8:
            continue
        seen.add(key)
        path = os.path.join(HERE, "replays", f"{pid}_{v['spec']['cls']}_{len(seen)}.json")
        with open(path, "w") as fh:
            json.dump({"property": pid, "spec": v["spec"], "label": v["label"], "model": v["model"]}, fh, indent=1)
        lines.append(f"VIOLATION property={pid} replay={path}")
        lines.append(f"  scenario={Scenario.from_spec(v['spec']).ident()} obligation={v['label']!r} model={v['model']}")
        exit_code = EXIT_VIOLATION
    if harness_errors and exit_code == EXIT_OK:
        exit_code = EXIT_HARNESS

    wall = time.time() - t0
    samples = total.samples[:6]
    for ps in per_scen[:4]:
        samples.append(ps)
    ev = {
        "property_id": pid,
        "tier": tier,
        "seed": seed,
        "level": "model_checking",
        "coverage": {
            "states": max(total.paths, 0),
            "transitions": total.decisions + total.paths,
            "transitions_note": "branch decisions taken (forks on symbolic conditions / index values) + one start transition per path",
            "traces_validated_against_impl": val_done,
            "samples": samples or [{"note": "no scenario completed"}],
            "obligations": total.obligations,
            "discharged": total.discharged,
            "trivially_true_obligations": total.trivial,
            "inconclusive": total.inconclusive,
            "infeasible_paths": total.infeasible,
            "queries": total.queries,
            "solver_time_s": round(total.solver_time, 2),
            "scenarios": len(scenarios),
            "per_scenario": per_scen,
            "outcomes": per_class_outcomes,
            "obligation_families_reached": total.reached,
            "functions_encoded": sorted(total.functions),
            "bounds": bounds,
            "outside_claim": outside,
            "shim_gaps": sorted(set(total.gaps))[:20],
            "solver_unknown": sorted(set(total.unknowns))[:20],
            "stubs": sorted(patch.STUBS_USED),
            "harness_errors": harness_errors[:20],
            "inconclusive_notes": inconclusive_notes,
            "known_findings_reported": [ln for ln in lines if ln.startswith("KNOWN-FINDING")],
            "exhaustive": False,
            "explanation": "bounded symbolic execution of the real geoh5py functions on a z3-backed numpy model; "
                           "all paths of every listed scenario shape explored; obligations are z3 validity queries",
        },
        "assumptions": assumptions,
        "wall_s": round(wall, 2),
        "violations": sum(1 for ln in lines if ln.startswith("VIOLATION")),
    }
    if extra_evidence:
        ev["coverage"].update(extra_evidence)
    os.makedirs(os.path.join(HERE, "evidence"), exist_ok=True)
    with open(os.path.join(HERE, "evidence", f"{pid}.json"), "w") as fh:
        json.dump(ev, fh, indent=1, default=str)
    for ln in lines:
        print(ln)
    print(f"[{pid}] tier={tier} scenarios={len(scenarios)} paths={total.paths} obligations={total.obligations} "
          f"discharged={total.discharged} inconclusive={total.inconclusive} queries={total.queries} "
          f"validated={val_done} solver={total.solver_time:.1f}s wall={wall:.1f}s exit={exit_code}")
    if total.gaps:
        print(f"[{pid}] shim gaps / limits: {sorted(set(total.gaps))[:6]}")
    if total.unknowns:
        print(f"[{pid}] solver unknown on: {sorted(set(total.unknowns))[:6]}")
    for h in inconclusive_notes:
        print(f"[{pid}] INCONCLUSIVE: {h}")
    for h in sorted(set(inconclusive_model_notes))[:4]:
        print(f"[{pid}] NOTE: {h[:400]}")
    for h in harness_errors[:10]:
        print(f"[{pid}] HARNESS-ERROR: {h}", file=sys.stderr)
    return exit_code


def replay_file(path):
    with open(path) as fh:
        rp = json.load(fh)
    patch.import_all()
    sc = Scenario.from_spec(rp["spec"])
    sc.backend = "real"
    out, failed, _ = core.run_concrete(sc.run, rp["model"])
    print(f"replay {sc.ident()} on real numpy: outcome={out!r} failed obligations={failed}")
    if rp["label"] in failed:
        print(f"VIOLATION property={rp['property']} replay={path}")
        return EXIT_VIOLATION
    print("obligation holds on this input (does not reproduce)")
    return EXIT_OK
