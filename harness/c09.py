"""C09 -- an operation on one entity leaves unrelated stored entities untouched (symx, seam B; one step).

A stored file holds a target object O (in group G) and unrelated entities: group K with object P (symbolic vertices),
float data S1 (symbolic values), text data T1, an integer data with its own type, and the project header.  One operation
on O is chosen symbolically from the C01 alphabet (or none: open and close only).  The file is digested node by node before
and after -- attributes and datasets of the real HDF5 nodes plus the symbolic payloads kept beside them -- and z3 decides
that every node of the unrelated entities, of their types and of the project header is identical, term by term."""
from __future__ import annotations

import numpy as real_np

from symx import patch, h5shim
from symx.core import And, eq
from .common import Scenario, elems, shape, mk_array, run_property, assume_not_ndv
from .c03 import _norm, _same
from .c01 import OPS

STEPS = ["open_close"] + [o for o in OPS if o not in ("reopen", "move_data", "foreign_membership", "create_deferred")] + \
        ["retype_data", "add_boolean_of_existing_type", "add_data_of_existing_type", "copy_data_renamed", "copy_object_renamed"]


def digest(h5file, store, prefixes):
    """path -> ("attrs", {...}) / ("dataset", value) for every node at or below the given node paths; symbolic payloads from
    the side store replace their placeholder"""
    import h5py
    if hasattr(h5file, "seek"):
        h5file.seek(0)
    out = {}

    def norm(v):
        if isinstance(v, real_np.ndarray):
            if v.dtype.names:
                return ("rec", [norm(v[n]) for n in v.dtype.names])
            return ("array", v.shape, [x.decode() if isinstance(x, bytes) else x for x in v.ravel().tolist()])
        if isinstance(v, bytes):
            return v.decode()
        if isinstance(v, real_np.generic):
            return v.item()
        return v
    with h5py.File(h5file, "r") as f:
        def visit(path, node):
            for k in node.attrs.keys():
                key = f"{path}@{k}"
                out[key] = _norm(store[key]) if key in store else norm(node.attrs[k])
            if isinstance(node, h5py.Dataset):
                out[path] = _norm(store[path]) if path in store else norm(node[()])
            else:
                for k in node.keys():
                    link = node.get(k, getlink=True)
                    child = node[k]
                    # entity sub-containers hold links to other entities: record the link names, do not descend
                    if k in ("Data", "Groups", "Objects") and path.count("/") >= 3 and isinstance(child, h5py.Group):
                        out[f"{path}/{k}#links"] = sorted(child.keys())
                    elif k == "Type" and path.count("/") >= 3:
                        out[f"{path}/Type#id"] = norm(child.attrs.get("ID"))
                    else:
                        visit(f"{path}/{k}", child)
        for p in prefixes:
            if p in f:
                visit(p, f[p])
            else:
                out[p] = "<missing>"
    return out


class FrameStep(Scenario):
    pid = "C09"
    include_io = True

    def run(self, cx):
        if self.backend == "real":
            return super().run(cx)
        with h5shim.h5_on():
            return super().run(cx)

    def body(self, cx):
        from geoh5py.workspace import Workspace
        from geoh5py.groups import ContainerGroup
        from geoh5py.objects import Points, Curve
        kind = self.params["kind"]
        h5shim.reset()
        patch.STUBS_USED.add("h5py -> symx.h5shim proxy over the real in-memory HDF5 file (seam B, A-H5)")
        ws = Workspace()
        g = ContainerGroup.create(ws, name="G")
        h = ContainerGroup.create(ws, name="H")
        if kind == "points":
            o = Points.create(ws, vertices=real_np.arange(9.0).reshape(3, 3), name="O", parent=g)
        else:
            o = Curve.create(ws, vertices=real_np.arange(9.0).reshape(3, 3), cells=real_np.array([[0, 1], [1, 2]], dtype="int32"),
                             name="O", parent=g)
        d1 = o.add_data({"D1": {"values": real_np.arange(3.0)}})
        d2 = o.add_data({"D2": {"values": real_np.array([7, 8, 9], dtype="int32"), "type": "integer"}})
        o.find_or_create_property_group(name="PG", properties=[d1.uid])
        k = ContainerGroup.create(ws, name="K")
        p = Points.create(ws, vertices=real_np.arange(6.0).reshape(2, 3), name="P", parent=k)
        s1 = p.add_data({"S1": {"values": real_np.arange(2.0)}})
        t1 = p.add_data({"T1": {"values": "unrelated text", "type": "text", "association": "OBJECT"}})
        i1 = p.add_data({"I1": {"values": real_np.array([3, 4], dtype="int32"), "type": "referenced", "value_map": {3: "three", 4: "four"}}})
        p.find_or_create_property_group(name="PGP", properties=[s1.uid])
        # unrelated entities that SHARE something with the target: a data of the same type as D1, a boolean with a relabelled map,
        # and an object stored under an object
        s2 = p.add_data({"S2": {"values": real_np.arange(2.0) + 7, "entity_type": d1.entity_type}})
        b1 = p.add_data({"B1": {"values": real_np.array([True, False]), "type": "boolean"}})
        b1.entity_type.value_map = {0: "Unknown", 1: "Ore"}
        import os as _os
        import uuid as _uuid
        from .common import HERE as _HERE
        fdir = _os.path.join(_HERE, ".work", f"c09_{_os.getpid()}_{_uuid.uuid4().hex[:8]}")
        _os.makedirs(fdir, exist_ok=True)
        cx.on_exit(lambda: __import__("shutil").rmtree(fdir, ignore_errors=True))
        with open(_os.path.join(fdir, "attached.txt"), "w") as fh:
            fh.write("attached file")
        f1 = p.add_file(_os.path.join(fdir, "attached.txt"))
        f1.public = True
        import warnings
        with warnings.catch_warnings():
            warnings.simplefilter("ignore")
            q = Points.create(ws, vertices=real_np.arange(3.0).reshape(1, 3), name="Q", parent=p)
        uid = {"g": g.uid, "h": h.uid, "o": o.uid, "d1": d1.uid, "d2": d2.uid, "k": k.uid, "p": p.uid, "s1": s1.uid, "t1": t1.uid, "i1": i1.uid, "s2": s2.uid, "b1": b1.uid, "q": q.uid, "f1": f1.uid}
        fmt = lambda u: "{" + str(u) + "}"        # noqa: E731
        unrelated = [f"/GEOSCIENCE/Groups/{fmt(k.uid)}", f"/GEOSCIENCE/Objects/{fmt(p.uid)}"] + \
                    [f"/GEOSCIENCE/Objects/{fmt(q.uid)}"] + \
                    [f"/GEOSCIENCE/Data/{fmt(x.uid)}" for x in (s1, t1, i1, s2, b1, f1)] + \
                    [f"/GEOSCIENCE/Types/Data types/{fmt(x.entity_type.uid)}" for x in (s1, t1, i1, s2, b1)] + \
                    [f"/GEOSCIENCE/Types/Group types/{fmt(k.entity_type.uid)}"]
        header_attrs = ["Contributors", "Distance unit", "GA Version", "Version"]
        ws.close()
        del g, h, o, d1, d2, k, p, s1, t1, i1, s2, b1, q, f1
        genesis_vals = digest(ws.h5file, {}, unrelated)     # what the creating session left in the file
        genesis = set(genesis_vals)
        with self.engine(cx) as X:
            ws = Workspace(ws.h5file)

            def get(key):
                return ws.get_entity(uid[key])[0]
            get("p").vertices = mk_array(X, [cx.real(f"p{i}") for i in range(6)], (2, 3), "float64")
            sv = [cx.real(f"s{i}") for i in range(2)]
            ov = [cx.real(f"x{i}") for i in range(3)]
            assume_not_ndv(cx, sv + ov)
            get("s1").values = mk_array(X, sv, (2,), "float64")
            get("o").vertices = mk_array(X, [cx.real(f"v{i}") for i in range(9)], (3, 3), "float64")
            get("d1").values = mk_array(X, ov, (3,), "float64")
            ws.close()
            store = h5shim.store_of(ws.h5file)
            before = digest(ws.h5file, store, unrelated)
            with_header = digest(ws.h5file, store, ["/GEOSCIENCE"]) if False else None
            import h5py as _h
            ws.h5file.seek(0)
            with _h.File(ws.h5file, "r") as f:
                hdr_before = {a: _norm(f["GEOSCIENCE"].attrs[a]) for a in header_attrs if a in f["GEOSCIENCE"].attrs}
            nsteps = self.params.get("steps", 1)
            steps = [STEPS[int(cx.int(f"step{q}" if q else "step", 0, len(STEPS)))] for q in range(nsteps)]
            if kind == "points" and any(x in ("set_cells", "remove_cells") for x in steps):
                return "not applicable to points"
            ws = Workspace(ws.h5file)
            o = get("o")
            label = " -> ".join(steps)
            try:
              for q, step in enumerate(steps):
                o = get("o")
                if o is None:
                    break
                sfx = f"_{q}" if q else ""
                nvx = shape(o.vertices)[0]
                if step == "open_close":
                    pass
                elif step == "set_vertices":
                    o.vertices = mk_array(X, [cx.real(f"n{i}" + sfx) for i in range(nvx * 3)], (nvx, 3), "float64")
                elif step == "set_values":
                    nv = [cx.real(f"m{i}" + sfx) for i in range(nvx)]
                    assume_not_ndv(cx, nv)
                    get("d1").values = mk_array(X, nv, (nvx,), "float64")
                elif step == "rename":
                    o.name = "O renamed"
                    get("d1").name = "D1 renamed"
                elif step == "move":
                    o.parent = get("h")
                elif step == "copy":
                    o.copy(parent=get("h"))
                elif step == "remove_vertices":
                    o.remove_vertices([cx.int("ri" + sfx, 0, shape(o.vertices)[0])])
                elif step == "remove_data":
                    ws.remove_entity(get("d2"))
                elif step == "add_data":
                    nv = [cx.real(f"a{i}" + sfx) for i in range(nvx)]
                    assume_not_ndv(cx, nv)
                    o.add_data({"D3" + sfx: {"values": mk_array(X, nv, (nvx,), "float64")}})
                elif step == "group_membership":
                    pg = [q for q in o.property_groups if q.name == "PG"][0]
                    pg.add_properties(get("d2"))
                elif step == "remove_object":
                    ws.remove_entity(o)
                elif step == "set_flags":
                    o.visible = False
                    o.public = False
                elif step == "set_cells":
                    o.cells = mk_array(X, [cx.int(f"c{i}" + sfx, 0, 3) for i in range(4)], (2, 2), "int32")
                elif step == "remove_cells":
                    o.remove_cells([cx.int("rc" + sfx, 0, max(shape(o.cells)[0], 1))])
                elif step == "modify_vertices":
                    arr = o.vertices
                    arr[0, 2] = cx.real("z" + sfx)
                    o.vertices = arr
                elif step == "empty_group":
                    o.find_or_create_property_group(name="empty")
                elif step == "retype_data":             # D1 shares its type with the unrelated S2
                    get("d1").entity_type = get("d2").entity_type if False else get("s1").entity_type
                elif step == "add_boolean_of_existing_type":
                    o.add_data({"B2" + sfx: {"values": mk_array(X, [True, False, True][:nvx], (nvx,), "bool"), "type": "boolean",
                                       "entity_type": get("b1").entity_type}})
                elif step == "add_data_of_existing_type":
                    nv = [cx.real(f"b{i}" + sfx) for i in range(nvx)]
                    assume_not_ndv(cx, nv)
                    o.add_data({"D4" + sfx: {"values": mk_array(X, nv, (nvx,), "float64"), "entity_type": get("s1").entity_type}})
                elif step == "copy_data_renamed":         # D1's type is shared with the unrelated S2: a renamed copy must not rename it
                    get("d1").copy(parent=o, name="D1 under another name")
                elif step == "copy_object_renamed":
                    o.copy(parent=get("h"), name="O under another name")
                elif step == "modify_values":
                    arr = get("d1").values
                    y = cx.real("y" + sfx)
                    assume_not_ndv(cx, [y])
                    arr[0] = y
                    get("d1").values = arr
            except Exception as e:  # noqa: BLE001
                return f"{step} raised {type(e).__name__}"
            step = label
            del o
            ws.close()
            after = digest(ws.h5file, h5shim.store_of(ws.h5file), unrelated)
            ws.h5file.seek(0)
            with _h.File(ws.h5file, "r") as f:
                hdr_after = {a: _norm(f["GEOSCIENCE"].attrs[a]) for a in header_attrs if a in f["GEOSCIENCE"].attrs}
            cx.prove(genesis <= set(before) and genesis <= set(after),
                     f"[{step}] every node and attribute the creating session wrote for the unrelated entities is still there after the "
                     f"later sessions ({len(genesis - set(after))} missing)", "unrelated nodes")
            # ... with the values the creating session wrote, except the two payloads the set-up session assigned (P's vertices,
            # S1's values)
            for key, val in genesis_vals.items():
                if key in after and not (key.endswith("/Vertices") or key.endswith("/Data") and "{" + str(uid["s1"]) + "}" in key):
                    short = "/".join(part if not part.startswith("{") else "{..}" for part in key.split("/GEOSCIENCE/")[-1].split("/"))
                    cx.prove(_same(after[key], val), f"[{step}] unrelated node {short} still holds what the creating session wrote",
                             "unrelated nodes")
            cx.prove(set(after) == set(before), f"[{step}] the unrelated entities keep exactly their nodes and attributes "
                                                f"({len(set(after) ^ set(before))} differ)", "unrelated nodes")
            for key, val in before.items():
                if key in after:
                    short = key.split("/GEOSCIENCE/")[-1]
                    short = "/".join(part if not part.startswith("{") else "{..}" for part in short.split("/"))
                    cx.prove(_same(after[key], val), f"[{step}] unrelated node {short} is identical", "unrelated nodes")
            cx.prove(set(hdr_after) == set(hdr_before) and all(_same(hdr_after[a], hdr_before[a]) for a in hdr_before),
                     f"[{step}] the project header is identical", "project header")
            return "ok"


def scenarios(tier, seed):
    S = [FrameStep(kind="points"), FrameStep(kind="curve")]
    if tier == "thorough":
        S += [FrameStep(kind="points", steps=2), FrameStep(kind="curve", steps=2)]
    return S


def main(tier, seed):
    return run_property(
        "C09", scenarios(tier, seed), tier, seed,
        assumptions=["symbolic: vertices and values of the target and of the unrelated entities, newly assigned arrays, removal indices; "
                     "concrete: names, flags, the tree (target O in group G; unrelated group K {object P, float / text / referenced data, "
                     "property group})",
                     "digest: attributes and datasets of every HDF5 node of the unrelated entities, of their data / group types and the "
                     "project header attributes, read with real h5py; payloads with symbolic content are taken from the proxy's side store",
                     "the object type of P is shared with O when both are point sets (types are compared for data and groups only)"],
        outside=["operations on other entity classes; sequences (C01); reachable states other than this tree", "byte-level identity of the file "
                 "(HDF5 free-space and modification times are not compared)"],
        bounds="one step from {open and close only, set vertices, set values, rename, move, copy, remove a vertex, remove data, add data, "
               "property-group membership, remove object, set flags, set cells, remove a cell, modify values / vertices in place, empty property "
               "group, give a data another (existing) type, add boolean / float data of an existing type} on a point set and a curve",
        expected_outcomes={"FrameStep": {"ok"}},
        budget_s=2400,
    )
