"""C19 -- the reader tolerates missing optional content (symx path exploration over single faults, seam B).

A file with symbolic geometry / values is written by the library; the list of its deletable items (every attribute of the
project group, of every entity and type node; the Root link; Type links; property-group blocks; colour / value maps;
empty child containers; flat containers) is built from the file itself; ONE item, chosen by a symbolic index, is deleted
with real h5py; the library re-opens the file.  z3 decides that every entity not described by the deleted item reads back
term by term as before."""
from __future__ import annotations

import io

import numpy as real_np

from symx import patch, h5shim
from symx.core import And, eq
from .common import Scenario, elems, shape, mk_array, run_property, assume_not_ndv
from .c03 import _same
from .c01 import tree_snapshot

OPTIONAL_ATTRS = {"Allow delete", "Allow move", "Allow rename", "Public", "Visible", "Partially hidden", "Last focus", "Description",
                  "Hidden", "Mapping", "Number of bins", "Transparent no data", "Units", "Contributors", "Distance unit", "GA Version",
                  "Version", "Modifiable", "Clipping IDs", "Allow delete contents", "Allow move contents", "Metadata", "Duplicate type on copy",
                  "Current line property ID", "Properties", "Property Group Type", "Association:pg", "File name"}
MANDATORY_ATTRS = {"ID", "Name"}


def list_items(h5file):
    """-> [(kind, node path, name, owner uid or None)]: everything a single fault can remove"""
    import h5py
    h5file.seek(0)
    items = []
    with h5py.File(h5file, "r") as f:
        root = f["GEOSCIENCE"]
        for a in root.attrs.keys():
            items.append(("attr", "/GEOSCIENCE", a, None))
        items.append(("link", "/GEOSCIENCE", "Root", None))
        for cont in ("Data", "Groups", "Objects"):
            items.append(("link", "/GEOSCIENCE", cont, "<container>"))
            for key in root[cont].keys():
                node = root[cont][key]
                path = f"/GEOSCIENCE/{cont}/{key}"
                owner = key.strip("{}")
                for a in node.attrs.keys():
                    items.append(("attr", path, a, owner))
                for sub in node.keys():
                    if sub == "Type":
                        items.append(("link", path, "Type", owner))
                    elif sub == "PropertyGroups":
                        items.append(("link", path, "PropertyGroups", owner))
                        for pk in node[sub].keys():          # attributes of each property-group block
                            gname = node[sub][pk].attrs.get("Group Name", b"")
                            gname = gname.decode() if isinstance(gname, bytes) else str(gname)
                            for a in node[sub][pk].attrs.keys():
                                items.append(("attr", f"{path}/PropertyGroups/{pk}", a, f"pg:{owner}:{gname}"))
                    elif sub in ("Data", "Groups", "Objects") and isinstance(node[sub], h5py.Group) and len(node[sub]) == 0:
                        items.append(("link", path, sub, owner))        # an empty child container
        for tc in root["Types"].keys():
            for key in root["Types"][tc].keys():
                node = root["Types"][tc][key]
                path = f"/GEOSCIENCE/Types/{tc}/{key}"
                for a in node.attrs.keys():
                    items.append(("attr", path, a, "type:" + key.strip("{}")))
                for sub in node.keys():
                    if sub in ("Color map", "Value map"):
                        items.append(("link", path, sub, "type:" + key.strip("{}")))
                        for a in node[sub].attrs.keys():        # optional attributes of the map dataset itself
                            items.append(("attr", f"{path}/{sub}", a, "type:" + key.strip("{}")))
    return items


def stable_order(h5file, items):
    """order that does not depend on the random identifiers of the run: by container, entity / type NAME, item name"""
    import h5py
    h5file.seek(0)
    with h5py.File(h5file, "r") as f:
        def label(path):
            node = f[path]
            nm = node.attrs.get("Name", b"")
            nm = nm.decode() if isinstance(nm, bytes) else str(nm)
            return "/".join(part for part in path.split("/") if not part.startswith("{")) + ":" + nm
        keyed = sorted(items, key=lambda it: (label(it[1]), it[0], it[2]))
    return keyed


def is_optional(item):
    kind, path, name, owner = item
    if kind == "attr":
        return name in OPTIONAL_ATTRS
    return name in ("Root", "PropertyGroups", "Color map", "Value map") or (name in ("Data", "Groups", "Objects") and owner != "<container>")


class SingleFault(Scenario):
    pid = "C19"
    include_io = True

    def run(self, cx):
        if self.backend == "real":
            return super().run(cx)
        with h5shim.h5_on():
            return super().run(cx)

    def body(self, cx):
        import h5py as real_h5py
        from geoh5py.workspace import Workspace
        from geoh5py.groups import ContainerGroup
        from geoh5py.objects import Points, Curve
        lo, hi = self.params["lo"], self.params["hi"]
        h5shim.reset()
        patch.STUBS_USED.add("h5py -> symx.h5shim proxy over the real in-memory HDF5 file (seam B, A-H5)")
        import uuid as _uuid
        U = [_uuid.UUID(int=i + 1) for i in range(12)]      # fixed identifiers: the reader's recovery paths depend on their order
        ws = Workspace()
        if self.params.get("file", "tree") == "grids":
            from geoh5py.objects import Grid2D, BlockModel
            g = ContainerGroup.create(ws, name="G", uid=U[0])
            o = Grid2D.create(ws, origin=[1.0, 2.0, 3.0], u_cell_size=1.0, v_cell_size=2.0, u_count=2, v_count=2, rotation=30.0, name="O",
                              parent=g, uid=U[1])
            d1 = o.add_data({"D1": {"values": real_np.arange(4.0), "uid": U[2]}})
            r1 = o.add_data({"R1": {"values": "some text", "type": "text", "association": "OBJECT", "uid": U[3]}})
            o.find_or_create_property_group(name="PG", properties=[d1.uid], uid=U[6])
            p = BlockModel.create(ws, origin=[0.0, 0.0, 0.0], u_cell_delimiters=real_np.array([0.0, 1.0, 2.0]),
                                  v_cell_delimiters=real_np.array([0.0, 1.0]), z_cell_delimiters=real_np.array([0.0, -1.0]), name="P", uid=U[4])
            s1 = p.add_data({"S1": {"values": real_np.arange(2.0), "uid": U[5]}})
            uid = {"o": o.uid, "d1": d1.uid, "p": p.uid, "s1": s1.uid}
            type_users = {}
            for e in (g, o, d1, r1, p, s1):
                type_users.setdefault(str(e.entity_type.uid), set()).add(str(e.uid))
            ws.close()
            del g, o, d1, r1, p, s1
            grids = True
        else:
            grids = False
            g = ContainerGroup.create(ws, name="G", uid=U[0])
            o = Curve.create(ws, vertices=real_np.arange(9.0).reshape(3, 3), cells=real_np.array([[0, 1], [1, 2]], dtype="int32"), name="O",
                             parent=g, uid=U[1])
            d1 = o.add_data({"D1": {"values": real_np.arange(3.0), "uid": U[2]}})
            r1 = o.add_data({"R1": {"values": real_np.array([1, 2, 1], dtype="int32"), "type": "referenced", "value_map": {1: "a", 2: "b"},
                                    "uid": U[3]}})
            o.find_or_create_property_group(name="PG", properties=[d1.uid], uid=U[6])
            o.find_or_create_property_group(name="PG2", properties=[r1.uid], uid=U[7])
            from .c03 import _mk_colormap
            d1.entity_type.color_map = _mk_colormap()
            o.metadata = {"k": 1}
            p = Points.create(ws, vertices=real_np.arange(6.0).reshape(2, 3), name="P", uid=U[4])
            s1 = p.add_data({"S1": {"values": real_np.arange(2.0), "uid": U[5]}})
            from geoh5py.groups import DrillholeGroup
            from geoh5py.objects import Drillhole
            dg = DrillholeGroup.create(ws, name="DH", uid=U[8])
            hole = Drillhole.create(ws, parent=dg, name="hole", collar=[0.0, 0.0, 0.0], uid=U[9],
                                    surveys=real_np.c_[[0.0, 10.0], [0.0, 0.0], [-90.0, -90.0]])
            hole.add_data({"log": {"depth": real_np.array([1.0, 2.0]), "values": real_np.array([5.0, 6.0])}})
            uid = {"o": o.uid, "d1": d1.uid, "p": p.uid, "s1": s1.uid}
            type_users = {}
            for e in (g, o, d1, r1, p, s1, dg, hole):
                type_users.setdefault(str(e.entity_type.uid), set()).add(str(e.uid))
            for nm in hole.get_data_list():         # the types of a hole's logs describe the hole (its logs are part of its record here)
                for dd in hole.get_data(nm):
                    type_users.setdefault(str(dd.entity_type.uid), set()).add(str(hole.uid))
            ws.close()
            del g, o, d1, r1, p, s1, dg, hole

        with self.engine(cx) as X:
            ws = Workspace(ws.h5file)
            nd1 = 4 if grids else 3
            if grids:
                ws.get_entity(uid["o"])[0].origin = [cx.real("v0"), cx.real("v1"), cx.real("v2")]
                ws.get_entity(uid["p"])[0].origin = [cx.real("p0"), cx.real("p1"), cx.real("p2")]
            else:
                ws.get_entity(uid["o"])[0].vertices = mk_array(X, [cx.real(f"v{i}") for i in range(9)], (3, 3), "float64")
                ws.get_entity(uid["p"])[0].vertices = mk_array(X, [cx.real(f"p{i}") for i in range(6)], (2, 3), "float64")
            xv = [cx.real(f"x{i}") for i in range(nd1)]
            sv = [cx.real(f"s{i}") for i in range(2)]
            assume_not_ndv(cx, xv + sv)
            ws.get_entity(uid["d1"])[0].values = mk_array(X, xv, (nd1,), "float64")
            ws.get_entity(uid["s1"])[0].values = mk_array(X, sv, (2,), "float64")
            before = tree_snapshot(ws)
            ws.close()
            items = stable_order(ws.h5file, list_items(ws.h5file))
            hi = min(hi, len(items))
            if lo >= hi:
                return "no item in this shard"
            it = cx.int("item", lo, hi)
            root_idx = [q for q, x in enumerate(items) if x[:3] == ("link", "/GEOSCIENCE", "Root")][0]
            self.known_class(cx, "root_link_missing", it == root_idx)
            item = items[int(it)]
            kind, path, name, owner = item
            ws.h5file.seek(0)
            with real_h5py.File(ws.h5file, "r+") as f:
                if kind == "attr":
                    del f[path].attrs[name]
                else:
                    del f[path][name]
            store = h5shim.store_of(ws.h5file)
            for key in [q for q in store if q.startswith(f"{path}/{name}") or q == f"{path}@{name}"]:
                del store[key]
            what = f"{kind} '{name}' of {path.split('/GEOSCIENCE/')[-1].split('/{')[0] or 'the project'}"
            # entities the item describes (they and their descendants may be missing or altered)
            described = set()
            if owner == "<container>":
                described = {k for k in before if not k.startswith("#")}          # a flat container: everything may go
            elif owner and owner.startswith("type:"):
                described = set(type_users.get(owner[5:], set()))
            elif owner and owner.startswith("pg:"):
                described = set()           # only that one property group of the object is described (handled below)
            elif kind == "link" and name in ("Data", "Groups", "Objects"):
                described = set()           # an EMPTY child container describes no entity at all
            elif owner:
                described = {owner}
            grew = True
            while grew:
                grew = False
                for k, rec in before.items():
                    if not k.startswith("#") and rec["parent"] in described and k not in described:
                        described.add(k)
                        grew = True
            try:
                ws2 = Workspace(ws.h5file, mode="r")       # reading a file never needs write access
                after = tree_snapshot(ws2)
                ws2.close()
            except Exception as e:  # noqa: BLE001
                cx.prove(not is_optional(item), f"a file without the optional {what} still opens ({type(e).__name__}: {str(e)[:80]})",
                         "optional item missing: opens")
                return "raised"
            for k, rec in before.items():
                if k.startswith("#") or k in described:
                    continue
                cx.prove(k in after, f"without {what}: the other entity {rec['class']} '{rec['name']}' is still returned", "others unchanged")
                if k not in after:
                    continue
                for fld, val in rec.items():
                    if fld == "parent" and val in described:
                        continue
                    if fld == "property_groups" and owner and owner.startswith("pg:") and owner.split(":")[1] == k:
                        gone_pg = owner.split(":", 2)[2]
                        exp_pg = {a: b for a, b in val.items() if a != gone_pg}
                        # the described group may come back under another (default) name: only the others are compared
                        got_pg = {a: b for a, b in after[k].get("property_groups", {}).items() if a in exp_pg}
                        cx.prove(got_pg == exp_pg, f"without {what}: {rec['class']} '{rec['name']}': its other property groups are unchanged",
                                 "others unchanged")
                        continue
                    cx.prove(fld in after[k] and _same(after[k][fld], val),
                             f"without {what}: {rec['class']} '{rec['name']}': {fld} unchanged", "others unchanged")
            return "ok"


def scenarios(tier, seed):
    # the item list has ~150 entries; sharded over the cores
    S = [SingleFault(lo=a, hi=a + 12) for a in range(0, 204, 12)]
    if tier == "thorough":
        S += [SingleFault(lo=a, hi=a + 12, file="grids") for a in range(0, 180, 12)]
    return S


def main(tier, seed):
    return run_property(
        "C19", scenarios(tier, seed), tier, seed,
        assumptions=["the deleted item is chosen by a symbolic index over the list of items of the file (every attribute of the project group, "
                     "of each entity and type node; Root, Type, PropertyGroups, Color map / Value map links; empty child containers; the "
                     "flat containers); one path per item",
                     "symbolic: vertices and float values of the stored entities (their read-back is compared term by term)",
                     "optional = the attributes listed in OPTIONAL_ATTRS (flags, descriptions, header attributes, metadata), the Root link, "
                     "property-group blocks, colour / value maps, empty child containers; every other item is treated as mandatory "
                     "(the reader may raise)",
                     "the entities 'described by' an item: the owning entity and its descendants; for a type item every entity of that type; "
                     "for a flat container everything"],
        outside=["files of other shapes (grids, drillhole groups, surveys)", "two or more faults", "corrupted (rather than missing) items"],
        bounds="one file (group, curve with float + referenced data, property group, metadata; point set with data), every single deletion",
        expected_outcomes={"SingleFault": {"ok", "raised"}},
    )
