"""C06 -- identifiers are unique within a workspace and stable across copies (xh, kernel level)."""
from __future__ import annotations

from xh.runner import Cond, run_xh

PRELUDE = '''
from typing import List, Optional
import uuid
import warnings
import numpy as np
from geoh5py.shared import weakref_utils
from geoh5py.workspace import Workspace
from geoh5py.objects import Points, Curve
from geoh5py.groups import ContainerGroup

warnings.simplefilter("ignore")


class Obj:
    pass


_ALIVE = Obj()


class FakeRef:
    """stand-in for weakref.ref: a callable returning the referent or None"""

    def __init__(self, alive):
        self.alive = alive

    def __call__(self):
        return _ALIVE if self.alive else None


def _registry(keys, alive):
    return {k: FakeRef(a) for k, a in zip(keys, alive)}


U = [uuid.UUID(int=i + 1) for i in range(6)]


def _make(ws, kind, uid, parent=None):
    kw = {"uid": uid, "name": f"k{kind}"}
    if parent is not None:
        kw["parent"] = parent
    if kind == 0:
        return ContainerGroup.create(ws, **kw)
    if kind == 1:
        return Points.create(ws, vertices=np.zeros((2, 3)), **kw)
    if kind == 2:
        return Curve.create(ws, vertices=np.zeros((2, 3)), **kw)
    raise ValueError(kind)


def _snapshot(ws):
    return (sorted(str(e.uid) for e in ws.groups), sorted(str(e.uid) for e in ws.objects),
            sorted(str(e.uid) for e in ws.data))
'''

CONDS = [
    Cond("insert_once_spec", '''
def insert_once_spec(keys: List[int], alive: List[bool], key: int) -> bool:
    """
    pre: len(keys) == len(alive) and len(keys) <= 3
    pre: all(0 <= k < 4 for k in keys) and 0 <= key < 4
    pre: len(set(keys)) == len(keys)
    post: _
    """
    d = _registry(keys, alive)
    before = dict(d)
    new = Obj()
    try:
        weakref_utils.insert_once(d, key, new)
        raised = False
    except RuntimeError:
        raised = True
    should = any(k == key and a for k, a in zip(keys, alive))
    if raised != should:
        return False
    if raised:
        return d == before                       # a refused insert changes nothing
    if d[key]() is not new:
        return False
    return all(d[k] is before[k] for k in before if k != key) and len(d) == len(before) + (0 if key in before else 1)
''', "insert_once raises iff the key has a live referent; otherwise the key maps to the new value and nothing else changes"),

    Cond("get_clean_ref_spec", '''
def get_clean_ref_spec(keys: List[int], alive: List[bool], key: int) -> bool:
    """
    pre: len(keys) == len(alive) and len(keys) <= 3
    pre: all(0 <= k < 4 for k in keys) and 0 <= key < 4
    pre: len(set(keys)) == len(keys)
    post: _
    """
    d = _registry(keys, alive)
    before = dict(d)
    got = weakref_utils.get_clean_ref(d, key)
    live = any(k == key and a for k, a in zip(keys, alive))
    if live:
        return got is _ALIVE and d == before
    if got is not None:
        return False                             # never returns a dead referent
    return d == {k: v for k, v in before.items() if k != key}
''', "get_clean_ref returns the live owner or None, and drops exactly the dead key it was asked for"),

    Cond("remove_none_referents_spec", '''
def remove_none_referents_spec(keys: List[int], alive: List[bool]) -> bool:
    """
    pre: len(keys) == len(alive) and len(keys) <= 3
    pre: all(0 <= k < 4 for k in keys)
    pre: len(set(keys)) == len(keys)
    post: _
    """
    d = _registry(keys, alive)
    before = dict(d)
    weakref_utils.remove_none_referents(d)
    return d == {k: v for k, v in before.items() if v() is not None}
''', "remove_none_referents removes exactly the entries whose referent is dead"),

]


# ---------------------------------------------------------------------------------------------------------------
# workspace level: real in-memory Workspace driven by the symx explorer with symbolic switches (kinds, flags)
# ---------------------------------------------------------------------------------------------------------------
import uuid as _uuid

import numpy as _np

from symx.core import And, Or, Not
from .common import Scenario, run_property

U = [_uuid.UUID(int=i + 1) for i in range(6)]


def _make(ws, kind, uid, parent=None):
    from geoh5py.objects import Points, Curve
    from geoh5py.groups import ContainerGroup
    kw = {"uid": uid, "name": f"k{kind}"}
    if parent is not None:
        kw["parent"] = parent
    if kind == 0:
        return ContainerGroup.create(ws, **kw)
    if kind == 1:
        return Points.create(ws, vertices=_np.zeros((2, 3)), **kw)
    return Curve.create(ws, vertices=_np.zeros((2, 3)), **kw)


def _snapshot(ws):
    return (sorted(str(e.uid) for e in ws.groups), sorted(str(e.uid) for e in ws.objects), sorted(str(e.uid) for e in ws.data))


class ReuseIdentifier(Scenario):
    """create A (kind ka) with identifier U0, then request B (kind kb) with U0 or a free identifier"""
    pid = "C06"

    def body(self, cx):
        from geoh5py.workspace import Workspace
        ka_s, kb_s, same_s = cx.int("ka", 0, 3), cx.int("kb", 0, 3), cx.bool("same_uid")
        same_reg = Or(And(ka_s == 0, kb_s == 0), And(ka_s > 0, kb_s > 0))
        self.known_class(cx, "refused_creation_same_registry", And(same_s, same_reg))
        self.known_class(cx, "same_identifier_across_registries", And(same_s, Not(same_reg)))
        ka, kb, same = int(ka_s), int(kb_s), bool(same_s)
        sreg = (ka == 0) == (kb == 0)
        ws = Workspace()
        a = _make(ws, ka, U[0])
        snap = _snapshot(ws)
        kids = [c.uid for c in ws.root.children]
        try:
            b = _make(ws, kb, U[0] if same else U[1])
            refused = False
        except RuntimeError:
            refused, b = True, None
        live = [e for e in ws.groups + ws.objects if e.uid == U[0]]
        cx.prove(len(live) <= 1, "no two live entities share an identifier", "uniqueness")
        if same and sreg:
            cx.prove(refused, "an identifier in use is refused", "reuse refused")
        if not same:
            cx.prove((not refused) and b is not None and b.uid == U[1] and ws.get_entity(U[1])[0] is b,
                     "a free identifier is accepted and looked up", "free identifier accepted")
        cx.prove(ws.get_entity(U[0])[0] is a or len(live) > 1, "lookup returns the one owner", "lookup")
        if refused:
            cx.prove(_snapshot(ws) == snap, "refused request leaves the workspace listings unchanged", "refusal side effects")
            cx.prove([c.uid for c in ws.root.children] == kids, "refused request leaves the parent's child list unchanged",
                     "refusal side effects")
        return "refused" if refused else "created"


class ReusePropertyGroupIdentifier(Scenario):
    """a property group requested with the identifier of another live property group (or a free one)"""
    pid = "C06"

    def body(self, cx):
        from geoh5py.workspace import Workspace
        same = bool(cx.bool("same_uid"))
        same_obj = bool(cx.bool("same_object"))
        as_text = bool(cx.bool("identifier_given_as_text"))
        ws = Workspace()
        a = _make(ws, 1, U[0])
        da = a.add_data({"da": {"values": _np.zeros(2)}})
        pga = a.find_or_create_property_group(name="pga", properties=[da.uid], uid=str(U[2]) if as_text else U[2])
        cx.prove(ws.get_entity(U[2])[0] is pga and pga.uid == U[2], "a property group is found by its identifier, however it was given",
                 "lookup")
        b = a if same_obj else _make(ws, 2, U[1])
        db = b.add_data({"db": {"values": _np.zeros(2)}})
        before = sorted((str(p.uid), p.name) for p in ws.property_groups)
        via_foc = bool(cx.bool("requested_through_find_or_create"))
        try:
            if via_foc:
                pgb = b.find_or_create_property_group(name="pgb", properties=[db.uid], uid=U[2] if same else U[3])
            else:
                pgb = b.create_property_group(name="pgb", properties=[db.uid], uid=U[2] if same else U[3])
            refused = False
        except RuntimeError:
            refused, pgb = True, None
        if via_foc and same and same_obj:
            # find-or-create on the owner itself finds the group
            cx.prove(pgb is pga, "find_or_create with the identifier of the object's own group returns that group", "lookup")
        else:
            cx.prove(refused == same, "a property-group identifier in use is refused, a free one accepted", "reuse refused")
            cx.prove(pgb is not pga, "a request on another object never hands out the owner's group", "reuse refused")
        live = [p for p in ws.property_groups if p.uid == U[2]]
        cx.prove(len(live) == 1 and live[0] is pga, "the identifier still belongs to its one owner", "uniqueness")
        if refused:
            cx.prove(sorted((str(p.uid), p.name) for p in ws.property_groups) == before,
                     "refused request leaves the property-group listing unchanged", "refusal side effects")
        ws.close()
        try:
            ws2 = Workspace(ws.h5file)
            ok = True
        except Exception:  # noqa: BLE001
            ok = False
        cx.prove(ok, "the file can still be opened after the request", "refusal side effects")
        if ok:
            ids = [str(p.uid) for o in ws2.objects for p in (o.property_groups or [])]
            cx.prove(len(ids) == len(set(ids)) and ids.count(str(U[2])) == 1,
                     "in the file the identifier occurs once", "refusal side effects")
            ws2.close()
        return "refused" if refused else "created"


class ReuseDataIdentifier(Scenario):
    """data requested on an object with the identifier of one of its own (or another object's) live data"""
    pid = "C06"

    def body(self, cx):
        from geoh5py.workspace import Workspace
        same_s, same_obj_s = cx.bool("same_uid"), cx.bool("same_object")
        self.known_class(cx, "refused_data_on_another_object", And(same_s, Not(same_obj_s)))
        same, same_obj = bool(same_s), bool(same_obj_s)
        ws = Workspace()
        a = _make(ws, 1, U[0])
        da = a.add_data({"da": {"values": _np.zeros(2), "uid": U[2]}})
        b = a if same_obj else _make(ws, 2, U[1])
        kids = [c.uid for c in b.children]
        try:
            nb = b.add_data({"db": {"values": _np.ones(2), "uid": U[2] if same else U[3]}})
            refused = False
        except RuntimeError:
            refused, nb = True, None
        cx.prove(refused == same, "a data identifier in use is refused, a free one accepted", "reuse refused")
        cx.prove(ws.get_entity(U[2])[0] is da, "the identifier still belongs to its one owner", "lookup")
        live = [e for e in ws.data if e.uid == U[2]]
        cx.prove(len(live) == 1, "no two live data share an identifier", "uniqueness")
        if refused:
            now = [c.uid for c in b.children]
            cx.prove(now == kids and len(now) == len(set(now)), "refused request leaves the object's children unchanged",
                     "refusal side effects")
            cx.prove(len(b.get_entity(U[2])) <= 1, "the object's own lookup returns at most one child for the identifier",
                     "refusal side effects")
        return "refused" if refused else "created"


class CopyIdentifiers(Scenario):
    pid = "C06"

    def body(self, cx):
        from geoh5py.workspace import Workspace
        kind = int(cx.int("kind", 1, 3))
        other_ws, occupied = bool(cx.bool("other_ws")), bool(cx.bool("occupied"))
        by_pg = bool(cx.bool("occupied_by_property_group"))
        with_data, with_group = bool(cx.bool("with_data")), bool(cx.bool("with_group"))
        if (occupied and not other_ws) or (by_pg and not occupied):
            cx.assume(False)
        ws = Workspace()
        src = _make(ws, kind, U[0])
        d = pg = None
        if with_data:
            d = src.add_data({"d": {"values": _np.zeros(2)}})
            if with_group:
                pg = src.find_or_create_property_group(name="pg", properties=[d.uid])
        target = Workspace() if other_ws else ws
        if occupied and not by_pg:
            _make(target, kind, U[0])
        elif occupied:
            holder = _make(target, 1, U[2])
            hd = holder.add_data({"hd": {"values": _np.zeros(2)}})
            holder.find_or_create_property_group(name="holder", properties=[hd.uid], uid=U[0])
        cp = src.copy(parent=target)
        cd = [c for c in cp.children if getattr(c, "name", None) == "d"]
        cpg = list(cp.property_groups or [])
        cx.prove((not with_data) or len(cd) == 1, "copied child present", "copy structure")
        cx.prove(pg is None or (len(cpg) == 1 and len(cd) == 1 and list(cpg[0].properties) == [cd[0].uid]),
                 "the copied property group references the copied child", "copy structure")
        ids_src = [src.uid] + ([d.uid] if d and cd else []) + ([pg.uid] if pg and cpg else [])
        ids_cp = [cp.uid] + ([cd[0].uid] if d and cd else []) + ([cpg[0].uid] if pg and cpg else [])
        if not other_ws:
            cx.prove(all(x != y for x, y in zip(ids_cp, ids_src)) and len(set(ids_cp)) == len(ids_cp),
                     "copy into the same workspace: fresh identifiers for entity, child and property group", "copy identifiers")
        elif occupied:
            cx.prove(ids_cp[0] != ids_src[0] and ids_cp[1:] == ids_src[1:],
                     "copy into another workspace: occupied identifier replaced, free ones kept", "copy identifiers")
        else:
            cx.prove(ids_cp == ids_src, "copy into another workspace: identifiers kept when free", "copy identifiers")
            if d is not None and cd:
                cx.prove(cd[0].entity_type.uid == d.entity_type.uid and cp.entity_type.uid == src.entity_type.uid,
                         "copy into another workspace: the types keep their identifiers when free", "copy identifiers")
        for w in {id(ws): ws, id(target): target}.values():
            allids = [e.uid for e in w.groups + w.objects + w.data + w.property_groups]
            cx.prove(len(allids) == len(set(allids)), "no identifier occurs twice in a workspace after the copy", "uniqueness")
        cx.prove(src.uid == U[0] and (d is None or src.children.count(d) == 1), "source unchanged", "copy structure")
        return "ok"


class CopyAfterRemoval(Scenario):
    """copy into another workspace, remove that copy (and drop every reference), copy again: identifiers are free again"""
    pid = "C06"

    def body(self, cx):
        import gc
        from geoh5py.workspace import Workspace
        kind = int(cx.int("kind", 1, 3))
        with_group = bool(cx.bool("with_group"))
        ws, other = Workspace(), Workspace()
        src = _make(ws, kind, U[0])
        d = src.add_data({"d": {"values": _np.zeros(2)}})
        pg = src.find_or_create_property_group(name="pg", properties=[d.uid]) if with_group else None
        first = src.copy(parent=other)
        other.remove_entity(first)
        del first
        gc.collect()
        cp = src.copy(parent=other)
        cd = [c for c in cp.children if getattr(c, "name", None) == "d"]
        cpg = list(cp.property_groups or [])
        cx.prove(cp.uid == src.uid and len(cd) == 1 and cd[0].uid == d.uid,
                 "identifiers of the entity and its child are kept again once the first copy is gone", "copy identifiers")
        if pg is not None:
            cx.prove(len(cpg) == 1 and cpg[0].uid == pg.uid,
                     "the property group keeps its identifier again once the first copy is gone", "copy identifiers")
        return "ok"


class RecreateAfterRemoval(Scenario):
    """remove an entity (every reference dropped, garbage collected), then create an entity of any kind with the same
    identifier: looking the identifier up returns the new owner, a copy from another workspace cannot take it"""
    pid = "C06"

    def body(self, cx):
        import gc
        from geoh5py.workspace import Workspace
        ka, kb = int(cx.int("kind_removed", 0, 4)), int(cx.int("kind_recreated", 0, 4))
        listed = bool(cx.bool("registries_listed_in_between"))
        ws, other = Workspace(), Workspace()
        holder = _make(ws, 1, U[1])

        def make(kind):
            if kind == 3:
                return holder.add_data({"d": {"values": _np.zeros(2), "uid": U[0]}})
            return _make(ws, kind, U[0])
        a = make(ka)
        kids = []
        if ka in (1, 2):        # an object is removed together with its children
            kids = [a.add_data({f"child{q}": {"values": _np.zeros(2) + q, "uid": U[3 + q]}}) for q in range(3)]
        ws.remove_entity(a)
        del a, kids
        gc.collect()
        if listed:
            _ = (ws.groups, ws.objects, ws.data)
        if ka in (1, 2):
            # the identifier of a removed child is free again, for this session and for the file
            again = holder.add_data({"child again": {"values": _np.ones(2) * 9, "uid": U[4]}})
            cx.prove(ws.get_entity(U[4])[0] is again, "the identifier of a removed child can be given to new data", "re-create")
            ws.close()
            ws_r = Workspace(ws.h5file)
            back = ws_r.get_entity(U[4])[0]
            cx.prove(back is not None and back.name == "child again" and [float(v) for v in back.values] == [9.0, 9.0],
                     "after re-opening, the identifier of the removed child belongs to the new data (name and values)", "re-create")
            ws_r.close()
            ws.open()
            holder = ws.get_entity(U[1])[0]
        b = make(kb)
        cx.prove(b.uid == U[0], "a released identifier can be given to a new entity", "re-create")
        got = ws.get_entity(U[0])
        cx.prove(len(got) == 1 and got[0] is b, "looking the identifier up returns its one (new) owner", "lookup")
        twin = _make(other, 1, U[0])
        cp = twin.copy(parent=ws)
        cx.prove(cp.uid != U[0], "a copy from another workspace does not take an identifier in use", "copy identifiers")
        live = [e for e in list(ws.groups) + list(ws.objects) + list(ws.data) if e.uid == U[0]]
        cx.prove(len(live) == 1 and live[0] is b, "one live entity owns the identifier", "uniqueness")
        return "ok"


class MoveThenLookup(Scenario):
    """move a live entity under another parent: it still owns its identifier (lookup, refusal of reuse, copies)"""
    pid = "C06"

    def body(self, cx):
        from geoh5py.workspace import Workspace
        kind = int(cx.int("kind", 0, 4))
        ws, other = Workspace(), Workspace()
        g1, g2 = _make(ws, 0, U[1]), _make(ws, 0, U[2])
        holder = _make(ws, 1, U[3], parent=g1)
        holder2 = _make(ws, 2, U[4], parent=g1)
        if kind == 3:
            e = holder.add_data({"d": {"values": _np.zeros(2), "uid": U[0]}})
            e.parent = holder2
        else:
            e = _make(ws, kind, U[0], parent=g1)
            e.parent = g2
        got = ws.get_entity(U[0])
        cx.prove(len(got) == 1 and got[0] is e, "a moved entity is still found by its identifier", "lookup")
        try:
            if kind == 3:
                holder.add_data({"again": {"values": _np.zeros(2), "uid": U[0]}})
            else:
                _make(ws, kind, U[0])
            refused = False
        except RuntimeError:
            refused = True
        cx.prove(refused, "the identifier of a moved entity cannot be given to a new one", "reuse refused")
        twin = _make(other, 1, U[0])
        cp = twin.copy(parent=ws)
        cx.prove(cp.uid != U[0], "a copy from another workspace does not take the identifier of a moved entity", "copy identifiers")
        return "ok"


class TypeCopy(Scenario):
    """a data type used in / copied to another workspace keeps its identifier when it is free there, else gets a fresh one"""
    pid = "C06"

    def body(self, cx):
        from geoh5py.workspace import Workspace
        via_add_data, second = bool(cx.bool("via_add_data")), bool(cx.bool("copy_twice"))
        ws, other = Workspace(), Workspace()
        src = _make(ws, 1, U[0])
        d = src.add_data({"d": {"values": _np.zeros(2)}})
        t = d.entity_type
        holder = _make(other, 1, U[1])
        if via_add_data:
            first = holder.add_data({"x": {"values": _np.zeros(2), "entity_type": t}}).entity_type
        else:
            first = t.copy(workspace=other)
        cx.prove(first.workspace is other and first.uid == t.uid, "type keeps its identifier in a workspace where it is free",
                 "type identifiers")
        if second:
            again = t.copy(workspace=other)
            cx.prove(again.uid != t.uid and again is not first, "a second copy gets a fresh identifier", "type identifiers")
        ids = [x.uid for x in other.types]
        cx.prove(len(ids) == len(set(ids)), "no two types of a workspace share an identifier", "type identifiers")
        return "ok"


class OneTypePerClass(Scenario):
    pid = "C06"

    def body(self, cx):
        from geoh5py.workspace import Workspace
        ka, kb = int(cx.int("ka", 0, 3)), int(cx.int("kb", 0, 3))
        ws = Workspace()
        a = _make(ws, ka, U[0])
        b = _make(ws, kb, U[1])
        cx.prove((a.entity_type is b.entity_type) == (ka == kb), "entities of one class share a single type object", "types")
        cx.prove(len({t.uid for t in ws.types}) == len(ws.types), "no two types share an identifier", "types")
        return "ok"


def main(tier, seed):
    rc1 = run_property(
        "C06", [ReuseIdentifier(), ReusePropertyGroupIdentifier(), ReuseDataIdentifier(), CopyIdentifiers(), CopyAfterRemoval(), RecreateAfterRemoval(), MoveThenLookup(), TypeCopy(), OneTypePerClass()], tier, seed,
        assumptions=["workspace level: the real in-memory Workspace (real h5py, real numpy) is driven by the symx explorer; only "
                     "entity kinds and flags are symbolic, every feasible combination is one path",
                     "garbage collection is not a variable: entities stay referenced by the harness"],
        outside=["side effects of a refused creation on the file", "cross-workspace copies of subtrees (groups with children)",
                 "remove / re-create histories and GC timing", "data and property-group identifier collisions"],
        bounds="entity kinds {ContainerGroup, Points, Curve} x same/free identifier; copy flags (same/other workspace, occupied, "
               "with data, with property group)",
        expected_outcomes={"ReuseIdentifier": {"refused"}, "ReusePropertyGroupIdentifier": {"refused"}, "ReuseDataIdentifier": {"refused"},
                           "CopyIdentifiers": {"ok"}, "RecreateAfterRemoval": {"ok"}, "MoveThenLookup": {"ok"},
                           "CopyAfterRemoval": {"ok"}, "TypeCopy": {"ok"},
                           "OneTypePerClass": {"ok"}},
        jobs=9,
    )
    rc2 = run_xh(
        "C06", PRELUDE, CONDS, tier, seed,
        assumptions=["registry helpers: the weak-reference dictionary is modelled by parallel symbolic lists keys/alive (<=3 entries, "
                     "keys in 0..3) turned into a dict of callables",
                     "workspace-level conditions run the real in-memory Workspace (real h5py); only kinds / flags are symbolic, so "
                     "CrossHair decides them by exhausting the finitely many paths",
                     "garbage collection is not a variable: entities stay referenced by the harness"],
        outside=["side effects of a refused creation on the file", "cross-workspace copies of subtrees (groups with children)",
                 "remove / re-create histories and GC timing", "data and property-group identifier collisions"],
        bounds="registries of <=3 entries over 4 keys; entity kinds {ContainerGroup, Points, Curve}; copy flags (same/other workspace, "
               "identifier occupied, with data, with property group)",
        functions=["geoh5py.shared.weakref_utils:insert_once/get_clean_ref/remove_none_referents"],
        merge_evidence=True,
    )
    return max(rc1, rc2) if 1 not in (rc1, rc2) else 1
