"""C13 -- spatial selection returns exactly what lies inside the box (symx, seam A)."""
from __future__ import annotations

import itertools
import math

import numpy as real_np

from symx import patch
from symx.core import And, Or, Not, Implies, Iff, Sum, select, eq, ite, is_nan
from .common import Scenario, elems, shape, mk_array, run_property

UTILS = "geoh5py.shared.utils:max,min"


def _box(cx, X, d):
    lo = [cx.real(f"lo{a}") for a in "xyz"[:d]]
    hi = [cx.real(f"hi{a}") for a in "xyz"[:d]]
    for a in range(d):
        cx.assume(lo[a] <= hi[a])
    return lo, hi, mk_array(X, lo + hi, (2, d), "float64")


def _inside(pt, lo, hi, inverse):
    r = And([And(lo[a] <= pt[a], pt[a] <= hi[a]) for a in range(len(lo))])
    return Not(r) if inverse else r


def _bbox_miss(pts, lo, hi):
    """the box misses the axis-aligned bounding box of the points (on the axes of the box)"""
    miss = []
    for a in range(len(lo)):
        mn = pts[0][a]
        mx = pts[0][a]
        for p in pts[1:]:
            mn = ite(p[a] <= mn, p[a], mn)
            mx = ite(p[a] >= mx, p[a], mx)
        miss.append(Or(hi[a] < mn, lo[a] > mx))
    return Or(miss)


def _warm(obj):
    """evaluate everything the object derives from its geometry (bounding box, centres, a selection) while it still has the
    geometry it was created with: whatever is cached must not survive the assignments that follow"""
    _ = obj.extent
    if hasattr(obj, "centroids"):
        _ = obj.centroids
    ext = obj.extent
    if ext is not None:
        _ = obj.mask_by_extent(real_np.asarray(ext))


def _mk_cellobj(kind, n, m):
    from geoh5py.workspace import Workspace
    from geoh5py.objects import Curve, Surface, Points
    ws = Workspace()
    verts = real_np.zeros((n, 3))
    if kind == "points":
        obj = Points.create(ws, vertices=verts)
    elif kind == "curve":
        obj = Curve.create(ws, vertices=verts, cells=real_np.zeros((m, 2), dtype="int32"))
    else:
        obj = Surface.create(ws, vertices=verts, cells=real_np.zeros((m, 3), dtype="int32"))
    vd = obj.add_data({"vd": {"values": real_np.zeros(n), "association": "VERTEX"}})
    cd = obj.add_data({"cd": {"values": real_np.zeros(m), "association": "CELL"}}) if kind != "points" and m else None
    patch.detach(ws, obj, vd, *([cd] if cd is not None else []))
    _warm(obj)
    return ws, obj, vd, cd


class VertexSelection(Scenario):
    """mask_by_extent and copy_from_extent on points / curves / surfaces"""
    pid = "C13"
    builtins_for = (UTILS,)

    def body(self, cx):
        kind, n, m, d, inverse = (self.params[x] for x in ("kind", "n", "m", "d", "inverse"))
        w = {"points": 0, "curve": 2, "surface": 3}[kind]
        ws, obj, vd, cd = _mk_cellobj(kind, n, m)
        with self.engine(cx) as X:
            V = [[cx.real(f"v{i}{a}") for a in "xyz"] for i in range(n)]
            C = [[cx.int(f"c{i}_{a}", 0, n) for a in range(w)] for i in range(m)] if w else []
            D = [cx.real(f"d{i}") for i in range(n)]
            CD = [cx.real(f"e{i}") for i in range(m)] if cd is not None else []
            obj.vertices = mk_array(X, [x for r in V for x in r], (n, 3), "float64")
            if w:
                obj.cells = mk_array(X, [x for r in C for x in r], (m, w), "int32")
            vd.values = mk_array(X, D, (n,), "float64")
            if cd is not None:
                cd.values = mk_array(X, CD, (m,), "float64")
            lo, hi, ext = _box(cx, X, d)
            qual = [_inside(V[j], lo, hi, inverse) for j in range(n)]
            if w:
                cell_in = [And([select(qual, C[c][a]) for a in range(w)]) for c in range(m)]
                vsel = [Or([And(cell_in[c], Or([eq(C[c][a], j) for a in range(w)])) for c in range(m)]) for j in range(n)]
            else:
                cell_in = []
                vsel = qual
            miss = _bbox_miss(V, lo, hi)
            mask = obj.mask_by_extent(ext, inverse=inverse)
            if mask is None:
                cx.prove(Or(miss, Not(Or(vsel))), "None only if the box misses the bounding box or nothing qualifies",
                         "None only when allowed")
            else:
                me = elems(mask)
                cx.prove(shape(mask) == (n,), "mask has one entry per vertex", "mask shape")
                cx.prove(And([Iff(me[j], vsel[j]) for j in range(n)]),
                         "mask == closed-box predicate (vertices used by a kept cell for cell objects)", "mask exact")
                cx.observe("mask", [bool(x) if cx.mode != "sym" else x for x in me])
            if not self.params.get("copy", True):
                return "mask only"
            new = obj.copy_from_extent(ext, inverse=inverse)
            if new is None:
                cx.prove(Or(miss, Not(Or(vsel))), "copy: None only if the box misses the bounding box or nothing qualifies",
                         "None only when allowed")
                return "none"
            nve = elems(new.vertices)
            nv2 = shape(new.vertices)[0]
            cx.prove(eq(nv2, Sum(vsel)), "copy has exactly the selected vertices", "copy vertices")
            below = [Sum(vsel[:j]) for j in range(n)]
            nd_ = [c for c in new.children if getattr(c, "name", None) == "vd"]
            cx.prove(len(nd_) == 1 and shape(nd_[0].values) == (nv2,), "copied vertex data has one entry per vertex",
                     "copy data")
            nde = elems(nd_[0].values) if len(nd_) == 1 else None
            for j in range(n):
                for p in range(nv2):
                    cond = And(vsel[j], eq(below[j], p))
                    same = [eq(nve[p * 3 + a], V[j][a]) for a in range(3)]
                    if nde is not None and len(nde) == nv2:
                        same.append(eq(nde[p], D[j]))
                    cx.prove(Implies(cond, And(same)), f"selected vertex {j}->{p} keeps coordinates and value, in order",
                             "copy vertices")
            if w:
                nce = elems(new.cells)
                nc2 = shape(new.cells)[0]
                cx.prove(eq(nc2, Sum(cell_in)), "copy has exactly the qualifying cells", "copy cells")
                cx.prove(And([And(c >= 0, c < nv2) for c in nce]), "copied cells reference existing vertices", "copy cells")
                cbelow = [Sum(cell_in[:c]) for c in range(m)]
                ncd = [c for c in new.children if getattr(c, "name", None) == "cd"]
                ncde = elems(ncd[0].values) if (cd is not None and len(ncd) == 1) else None
                if cd is not None:
                    cx.prove(len(ncd) == 1 and shape(ncd[0].values) == (nc2,), "copied cell data has one entry per cell",
                             "copy data")
                for c in range(m):
                    for r in range(nc2):
                        cond = And(cell_in[c], eq(cbelow[c], r))
                        same = []
                        for a in range(w):
                            for ax in range(3):
                                same.append(eq(select([nve[q * 3 + ax] for q in range(nv2)], nce[r * w + a]),
                                               select([V[q][ax] for q in range(n)], C[c][a])))
                        if ncde is not None and len(ncde) == nc2:
                            same.append(eq(ncde[r], CD[c]))
                        cx.prove(Implies(cond, And(same)), f"cell {c}->{r} re-indexed onto the same coordinates, keeps value",
                                 "copy cells")
                cx.observe("cells", nce)
            cx.observe("vertices", nve)
            # source untouched
            cx.prove(And([eq(a, b) for a, b in zip(elems(obj.vertices), [x for r in V for x in r])]),
                     "source vertices unchanged", "source unchanged")
            return "ok"


class DataSelection(Scenario):
    """data.mask_by_extent / data.copy_from_extent called on vertex and cell data of a curve or surface"""
    pid = "C13"
    builtins_for = (UTILS,)

    def body(self, cx):
        kind, n, m, d, inverse = (self.params[x] for x in ("kind", "n", "m", "d", "inverse"))
        w = {"curve": 2, "surface": 3}[kind]
        ws, obj, vd, cd = _mk_cellobj(kind, n, m)
        with self.engine(cx) as X:
            V = [[cx.real(f"v{i}{a}") for a in "xyz"] for i in range(n)]
            C = [[cx.int(f"c{i}_{a}", 0, n) for a in range(w)] for i in range(m)]
            D = [cx.real(f"d{i}") for i in range(n)]
            CD = [cx.real(f"e{i}") for i in range(m)]
            obj.vertices = mk_array(X, [x for r in V for x in r], (n, 3), "float64")
            obj.cells = mk_array(X, [x for r in C for x in r], (m, w), "int32")
            vd.values = mk_array(X, D, (n,), "float64")
            cd.values = mk_array(X, CD, (m,), "float64")
            lo, hi, ext = _box(cx, X, d)
            qual = [_inside(V[j], lo, hi, inverse) for j in range(n)]
            # a cell qualifies when all of its vertices pass the (possibly complementary) test
            cell_in = [And([select(qual, C[c][a]) for a in range(w)]) for c in range(m)]
            vm = vd.mask_by_extent(ext, inverse=inverse)
            cx.prove(vm is not None and shape(vm) == (n,) and And([Iff(a, b) for a, b in zip(elems(vm), qual)]),
                     "vertex data mask == closed-box predicate on the parent's vertices", "data mask exact")
            cm = cd.mask_by_extent(ext, inverse=inverse)
            cx.prove(cm is not None and shape(cm) == (m,) and And([Iff(a, b) for a, b in zip(elems(cm), cell_in)]),
                     "cell data mask == cells whose vertices all qualify", "data mask exact")
            cx.observe("vmask", [bool(x) if cx.mode != "sym" else x for x in elems(vm)] if vm is not None else None)
            # data-level extent copy onto the same parent: kept entries stay on their cells / vertices, the others are blanked
            for data, n_, sel, src, tag in ((cd, m, cell_in, CD, "cell"), (vd, n, qual, D, "vertex")):
                cp = data.copy_from_extent(ext, inverse=inverse)
                if cp is None:
                    continue
                cv = elems(cp.values)
                cx.prove(len(cv) == n_, f"{tag} data copy has one entry per {tag}", "data copy")
                if len(cv) == n_:
                    for q in range(n_):
                        if is_nan(cv[q]):
                            cx.prove(Not(sel[q]), f"{tag} {q} blanked only when not selected", "data copy")
                        else:
                            cx.prove(And(sel[q], eq(cv[q], src[q])), f"{tag} {q} keeps its own value iff selected", "data copy")
            return "ok"


def _mk_grid(nu, nv):
    from geoh5py.workspace import Workspace
    from geoh5py.objects import Grid2D
    ws = Workspace()
    g = Grid2D.create(ws, origin=[0.0, 0.0, 0.0], u_cell_size=1.0, v_cell_size=1.0, u_count=nu, v_count=nv)
    d = g.add_data({"gd": {"values": real_np.zeros(nu * nv), "association": "CELL"}})
    patch.detach(ws, g, d)
    _warm(g)
    return ws, g, d


class GridSelection(Scenario):
    """Grid2D: mask_by_extent on cell centres and copy_from_extent (smallest covering sub-grid, blanked values)"""
    pid = "C13"
    builtins_for = (UTILS, "geoh5py.objects.grid2d")

    @property
    def float_sensitive(self):
        return bool(self.params.get("rot"))

    def body(self, cx):
        nu, nv, d, inverse = (self.params[x] for x in ("nu", "nv", "d", "inverse"))
        rot = self.params.get("rot")          # None | (cos, sin) rational pair as strings "3/5","4/5"
        ws, g, gd = _mk_grid(nu, nv)
        from fractions import Fraction
        with self.engine(cx) as X:
            su, sv = cx.real("su"), cx.real("sv")
            cx.assume(su > 0)
            cx.assume(sv > 0)
            o = [cx.real(f"o{a}") for a in "xyz"]
            D = [cx.real(f"g{i}") for i in range(nu * nv)]
            g.u_cell_size, g.v_cell_size = su, sv
            g.origin = list(o)
            if rot:
                c, s = float(Fraction(rot[0])), float(Fraction(rot[1]))
                ang = math.degrees(math.atan2(s, c))
                g.rotation = ang
                if X is not real_np:
                    # exact rational point of the unit circle instead of floating-point cos/sin of the angle
                    from symx import npshim
                    cc, ss = Fraction(rot[0]), Fraction(rot[1])
                    self._trig = (npshim.cos, npshim.sin)
                    rad = math.radians(ang)
                    npshim.cos = lambda x, _c=npshim.cos: cc if x == rad else _c(x)
                    npshim.sin = lambda x, _s=npshim.sin: ss if x == rad else _s(x)
                    cx.on_exit(lambda: (setattr(npshim, "cos", self._trig[0]), setattr(npshim, "sin", self._trig[1])))
                    patch.STUBS_USED.add("cos/sin of the grid rotation replaced by an exact rational unit-circle point")
                    c, s = cc, ss
            else:
                c, s = 1, 0
            gd.values = mk_array(X, D, (nu * nv,), "float64")
            lo, hi, ext = _box(cx, X, d)
            cen = [[(o[0] + c * ((i + 0.5) * su) - s * ((j + 0.5) * sv)), (o[1] + s * ((i + 0.5) * su) + c * ((j + 0.5) * sv)),
                    o[2]] for j in range(nv) for i in range(nu)]          # index i + j*nU
            qual = [_inside(p, lo, hi, inverse) for p in cen]
            miss = _bbox_miss(cen, lo, hi)
            mask = g.mask_by_extent(ext, inverse=inverse)
            if mask is None:
                cx.prove(Or(miss, Not(Or(qual))), "None only if the box misses the bounding box or nothing qualifies",
                         "None only when allowed")
            else:
                me = elems(mask)
                cx.prove(shape(mask) == (nu * nv,) and And([Iff(me[q], qual[q]) for q in range(nu * nv)]),
                         "cell-centre mask == closed-box predicate", "mask exact")
            if not self.params.get("copy", True):
                return "mask only"
            if inverse:
                # the inverse copy keeps the grid and blanks the cells inside the box
                new = g.copy_from_extent(ext, inverse=True)
                if new is None:
                    cx.prove(Or(miss, Not(Or(qual))), "inverse copy: None only if the box misses the bounding box or nothing "
                                                      "qualifies", "None only when allowed")
                    return "none"
                cx.prove(And(eq(new.u_count, nu), eq(new.v_count, nv)), "inverse copy keeps the grid", "inverse copy")
                kids = [k for k in new.children if getattr(k, "name", None) == "gd"]
                cx.prove(len(kids) == 1 and shape(kids[0].values) == (nu * nv,), "inverse copy: one value per cell", "inverse copy")
                if len(kids) == 1 and shape(kids[0].values) == (nu * nv,):
                    vals = elems(kids[0].values)
                    for q in range(nu * nv):
                        if is_nan(vals[q]):
                            cx.prove(Not(qual[q]), f"cell {q} blanked only when it is not selected", "inverse copy")
                        else:
                            cx.prove(And(qual[q], eq(vals[q], D[q])), f"cell {q} keeps its own value iff selected", "inverse copy")
                return "ok"
            col = [Or([qual[i + j * nu] for j in range(nv)]) for i in range(nu)]
            row = [Or([qual[i + j * nu] for i in range(nu)]) for j in range(nv)]
            # known finding F-C13-1: the selected columns / rows are not contiguous (rotated grids only)
            gap_u = Or([And(col[a], col[b], Not(col[t])) for a in range(nu) for b in range(a + 2, nu) for t in range(a + 1, b)])
            gap_v = Or([And(row[a], row[b], Not(row[t])) for a in range(nv) for b in range(a + 2, nv) for t in range(a + 1, b)])
            self.known_class(cx, "noncontiguous_selection_on_rotated_grid", Or(gap_u, gap_v))
            new = g.copy_from_extent(ext)
            if new is None:
                cx.prove(Not(Or(qual)), "copy: None only if no cell centre qualifies", "None only when allowed")
                return "none"
            imin = Sum([And([Not(col[t]) for t in range(i + 1)]) for i in range(nu)])    # first selected column
            jmin = Sum([And([Not(row[t]) for t in range(j + 1)]) for j in range(nv)])
            imax = (nu - 1) - Sum([And([Not(col[t]) for t in range(i, nu)]) for i in range(nu)])
            jmax = (nv - 1) - Sum([And([Not(row[t]) for t in range(j, nv)]) for j in range(nv)])
            cx.prove(And(eq(new.u_count, imax - imin + 1), eq(new.v_count, jmax - jmin + 1)),
                     "sub-grid counts == covering span of the selected cells", "sub-grid")
            no = new.origin
            exp_o = (o[0] + c * (imin * su) - s * (jmin * sv), o[1] + s * (imin * su) + c * (jmin * sv), o[2])
            cx.prove(And([eq(no[a], exp_o[k]) for k, a in enumerate("xyz")]), "sub-grid origin at the first selected column/row",
                     "sub-grid")
            cx.prove(And(eq(new.u_cell_size, su), eq(new.v_cell_size, sv)), "cell sizes kept", "sub-grid")
            kids = [k for k in new.children if getattr(k, "name", None) == "gd"]
            cx.prove(len(kids) == 1, "data copied", "sub-grid data")
            if len(kids) == 1:
                nu2, nv2 = int(new.u_count), int(new.v_count)
                vals = elems(kids[0].values)
                cx.prove(len(vals) == nu2 * nv2, "one value per cell of the sub-grid", "sub-grid data")
                if len(vals) == nu2 * nv2:
                    for j2 in range(nv2):
                        for i2 in range(nu2):
                            for i in range(nu):
                                for j in range(nv):
                                    cond = And(eq(imin + i2, i), eq(jmin + j2, j))
                                    if cond is False:
                                        continue
                                    v = vals[i2 + j2 * nu2]
                                    q = i + j * nu
                                    if is_nan(v):
                                        cx.prove(Implies(cond, Not(qual[q])), f"blank only outside the box ({i},{j})",
                                                 "sub-grid data")
                                    else:
                                        cx.prove(Implies(cond, And(qual[q], eq(v, D[q]))),
                                                 f"cell ({i},{j}) keeps its value iff inside", "sub-grid data")
                    cx.observe("values", [v for v in vals if not is_nan(v)])
            return "ok"


class BlockSelection(Scenario):
    """BlockModel: mask_by_extent on cell centres; copy_from_extent keeps the grid and blanks values outside the box"""
    pid = "C13"
    builtins_for = (UTILS,)

    def body(self, cx):
        from geoh5py.workspace import Workspace
        from geoh5py.objects import BlockModel
        (nu, nv, nz), d, inverse = self.params["shape"], self.params["d"], self.params["inverse"]
        ws = Workspace()
        bm = BlockModel.create(ws, origin=[0.0, 0.0, 0.0], u_cell_delimiters=real_np.arange(nu + 1.0),
                               v_cell_delimiters=real_np.arange(nv + 1.0), z_cell_delimiters=real_np.arange(nz + 1.0))
        n = nu * nv * nz
        bd = bm.add_data({"bd": {"values": real_np.zeros(n), "association": "CELL"}})
        bb = bm.add_data({"bb": {"values": real_np.ones(n, dtype=bool), "association": "CELL", "type": "boolean"}})
        bi = bm.add_data({"bi": {"values": (real_np.arange(n) + 50).astype("int32"), "association": "CELL", "type": "integer"}})
        patch.detach(ws, bm, bd, bb, bi)
        _warm(bm)
        with self.engine(cx) as X:
            du = [0.0] + [cx.real(f"du{i}") for i in range(1, nu + 1)]
            dv = [0.0] + [cx.real(f"dv{i}") for i in range(1, nv + 1)]
            dz = [0.0] + [cx.real(f"dz{i}") for i in range(1, nz + 1)]
            o = [cx.real(f"o{a}") for a in "xyz"]
            D = [cx.real(f"g{i}") for i in range(n)]
            bm.u_cell_delimiters = mk_array(X, du, (nu + 1,), "float64")
            bm.v_cell_delimiters = mk_array(X, dv, (nv + 1,), "float64")
            bm.z_cell_delimiters = mk_array(X, dz, (nz + 1,), "float64")
            bm.origin = list(o)
            bd.values = mk_array(X, D, (n,), "float64")
            bb.values = mk_array(X, [True] * n, (n,), "bool")
            bi.values = mk_array(X, [q + 50 for q in range(n)], (n,), "int32")
            cen = [None] * n
            for i, j, k in itertools.product(range(nu), range(nv), range(nz)):
                cen[k + i * nz + j * nu * nz] = [o[0] + (du[i] + du[i + 1]) / 2, o[1] + (dv[j] + dv[j + 1]) / 2,
                                                 o[2] + (dz[k] + dz[k + 1]) / 2]
            lo, hi, ext = _box(cx, X, d)
            qual = [_inside(p, lo, hi, inverse) for p in cen]
            miss = _bbox_miss(cen, lo, hi)
            mask = bm.mask_by_extent(ext, inverse=inverse)
            if mask is None:
                cx.prove(Or(miss, Not(Or(qual))), "None only if the box misses the bounding box or nothing qualifies",
                         "None only when allowed")
            else:
                me = elems(mask)
                cx.prove(shape(mask) == (n,) and And([Iff(me[q], qual[q]) for q in range(n)]),
                         "cell-centre mask == closed-box predicate (index k + i*nZ + j*nU*nZ)", "mask exact")
            new = bm.copy_from_extent(ext, inverse=inverse)
            if new is None:
                cx.prove(Or(miss, Not(Or(qual))), "copy: None only if the box misses the bounding box or nothing qualifies",
                         "None only when allowed")
                return "none"
            kids = [k_ for k_ in new.children if getattr(k_, "name", None) == "bd"]
            cx.prove(len(kids) == 1 and shape(kids[0].values) == (n,), "copied data has one value per cell", "copy data")
            if len(kids) == 1 and shape(kids[0].values) == (n,):
                vals = elems(kids[0].values)
                for q in range(n):
                    if is_nan(vals[q]):
                        cx.prove(Not(qual[q]), f"cell {q} blanked only outside the selection", "copy data")
                    else:
                        cx.prove(And(qual[q], eq(vals[q], D[q])), f"cell {q} keeps its value iff selected", "copy data")
            for nm, blank in (("bb", False), ("bi", -2147483648)):
                kid = [k_ for k_ in new.children if getattr(k_, "name", None) == nm]
                cx.prove(len(kid) == 1 and shape(kid[0].values) == (n,), f"copied {nm} data has one value per cell", "copy data")
                if len(kid) == 1 and shape(kid[0].values) == (n,):
                    vv = elems(kid[0].values)
                    for q in range(n):
                        orig = True if nm == "bb" else q + 50
                        if vv[q] == orig:
                            cx.prove(qual[q], f"{nm}: cell {q} keeps its value only when selected", "copy data (other kinds)")
                        else:
                            cx.prove(And(Not(qual[q]), vv[q] == blank), f"{nm}: cell {q} outside the selection holds the no-data code",
                                     "copy data (other kinds)")
            return "ok"


class OctreeSelection(Scenario):
    """Octree (rotation 0): mask_by_extent on the centres of its (I, J, K, size) records; copy_from_extent keeps the octree
    and blanks the values of the cells outside the box"""
    pid = "C13"
    builtins_for = (UTILS, "geoh5py.objects.octree")

    def body(self, cx):
        from geoh5py.workspace import Workspace
        from geoh5py.objects import Octree
        (nu, nv, nw), d, inverse = self.params["counts"], self.params["d"], self.params["inverse"]
        ws = Workspace()
        oc = Octree.create(ws, origin=[0.0, 0.0, 0.0], u_count=nu, v_count=nv, w_count=nw, u_cell_size=1.0, v_cell_size=1.0,
                           w_cell_size=1.0)
        recs = [tuple(int(x) for x in r) for r in oc.octree_cells.tolist()]
        n = len(recs)
        od = oc.add_data({"od": {"values": real_np.zeros(n), "association": "CELL"}})
        oi = oc.add_data({"oi": {"values": (real_np.arange(n) + 50).astype("int32"), "association": "CELL", "type": "integer"}})
        patch.detach(ws, oc, od, oi)
        _warm(oc)
        with self.engine(cx) as X:
            su, sv, sw = cx.real("su"), cx.real("sv"), cx.real("sw")
            for z in (su, sv, sw):
                cx.assume(z > 0)
            o = [cx.real(f"o{a}") for a in "xyz"]
            D = [cx.real(f"g{i}") for i in range(n)]
            oc.octree_cells = mk_array(X, [x for r in recs for x in r], (n, 4), "int32")
            oc.u_cell_size, oc.v_cell_size, oc.w_cell_size = su, sv, sw
            oc.origin = list(o)
            od.values = mk_array(X, D, (n,), "float64")
            oi.values = mk_array(X, [q + 50 for q in range(n)], (n,), "int32")
            cen = [[o[0] + (i + m / 2) * su, o[1] + (j + m / 2) * sv, o[2] + (k + m / 2) * sw] for (i, j, k, m) in recs]
            lo, hi, ext = _box(cx, X, d)
            qual = [_inside(p, lo, hi, inverse) for p in cen]
            miss = _bbox_miss(cen, lo, hi)
            mask = oc.mask_by_extent(ext, inverse=inverse)
            if mask is None:
                cx.prove(Or(miss, Not(Or(qual))), "None only if the box misses the bounding box or nothing qualifies",
                         "None only when allowed")
            else:
                me = elems(mask)
                cx.prove(shape(mask) == (n,) and And([Iff(me[q], qual[q]) for q in range(n)]),
                         "octree cell-centre mask == closed-box predicate", "mask exact")
            new = oc.copy_from_extent(ext, inverse=inverse)
            if new is None:
                cx.prove(Or(miss, Not(Or(qual))), "copy: None only if the box misses the bounding box or nothing qualifies",
                         "None only when allowed")
                return "none"
            cx.prove(shape(new.octree_cells)[0] == n and And([eq(a, b) for a, b in zip(elems(new.centroids), [x for p in cen for x in p])]),
                     "the copy keeps the octree cells and their centres", "copy geometry")
            kids = [k_ for k_ in new.children if getattr(k_, "name", None) == "od"]
            cx.prove(len(kids) == 1 and shape(kids[0].values) == (n,), "copied data has one value per cell", "copy data")
            if len(kids) == 1 and shape(kids[0].values) == (n,):
                vals = elems(kids[0].values)
                for q in range(n):
                    if is_nan(vals[q]):
                        cx.prove(Not(qual[q]), f"cell {q} blanked only outside the selection", "copy data")
                    else:
                        cx.prove(And(qual[q], eq(vals[q], D[q])), f"cell {q} keeps its value iff selected", "copy data")
            kid = [k_ for k_ in new.children if getattr(k_, "name", None) == "oi"]
            cx.prove(len(kid) == 1 and shape(kid[0].values) == (n,), "copied integer data has one value per cell", "copy data")
            if len(kid) == 1 and shape(kid[0].values) == (n,):
                vv = elems(kid[0].values)
                for q in range(n):
                    if vv[q] == q + 50:
                        cx.prove(qual[q], f"oi: cell {q} keeps its value only when selected", "copy data (other kinds)")
                    else:
                        cx.prove(And(Not(qual[q]), vv[q] == -2147483648), f"oi: cell {q} outside the selection holds the no-data code",
                                 "copy data (other kinds)")
            return "ok"


class DrillholeSelection(Scenario):
    """a drillhole is selected by its collar (all three coordinates for a 3-D box)"""
    pid = "C13"
    builtins_for = (UTILS, "geoh5py.objects.drillhole:float,int")

    def body(self, cx):
        from geoh5py.workspace import Workspace
        from geoh5py.objects import Drillhole
        d, inverse = self.params["d"], self.params["inverse"]
        ws = Workspace()
        dh = Drillhole.create(ws, collar=[0.0, 0.0, 0.0], surveys=real_np.c_[[0.0, 10.0], [0.0, 0.0], [-90.0, -90.0]])
        patch.detach(ws, dh)
        with self.engine(cx) as X:
            col = [cx.real(f"c{a}") for a in "xyz"]
            dh.collar = list(col)
            lo, hi, ext = _box(cx, X, d)
            inside = _inside(col, lo, hi, False)
            mask = dh.mask_by_extent(ext, inverse=inverse)
            if mask is None:
                cx.prove(Or(Not(inside), Not(Not(inside) if inverse else inside)),
                         "None only if the box misses the collar (its bounding box) or the hole does not qualify", "None only when allowed")
            else:
                me = elems(mask)
                cx.prove(len(me) == 1 and Iff(me[0], Not(inside) if inverse else inside),
                         "the hole is selected iff its collar lies in the closed box (complement under inverse)", "mask exact")
            new = dh.copy_from_extent(ext, inverse=inverse)
            sel = Not(inside) if inverse else inside
            if new is None:
                cx.prove(Or(Not(sel), Not(inside)), "copy: None only if the hole does not qualify or the box misses it",
                         "None only when allowed")
                return "none"
            cx.prove(sel, "the hole is copied only if it qualifies", "copy vertices")
            ne = [new.collar[a] for a in "xyz"]
            cx.prove(And([eq(ne[k], col[k]) for k in range(3)]), "copied hole keeps its collar", "copy vertices")
            return "ok"


class GroupSelection(Scenario):
    """copying a group by extent applies the same selection (and the inverse flag) to every child"""
    pid = "C13"
    builtins_for = (UTILS,)

    def body(self, cx):
        from geoh5py.workspace import Workspace
        from geoh5py.objects import Points
        from geoh5py.groups import ContainerGroup
        n, d, inverse, nested = (self.params[x] for x in ("n", "d", "inverse", "nested"))
        ws = Workspace()
        grp = ContainerGroup.create(ws, name="g")
        holder = ContainerGroup.create(ws, name="inner", parent=grp) if nested else grp
        pts = Points.create(ws, vertices=real_np.zeros((n, 3)), parent=holder, name="p")
        patch.detach(ws, grp, holder, pts)
        with self.engine(cx) as X:
            V = [[cx.real(f"v{i}{a}") for a in "xyz"] for i in range(n)]
            pts.vertices = mk_array(X, [x for r in V for x in r], (n, 3), "float64")
            lo, hi, ext = _box(cx, X, d)
            qual = [_inside(V[j], lo, hi, inverse) for j in range(n)]
            miss = _bbox_miss(V, lo, hi)
            new = grp.copy_from_extent(ext, inverse=inverse)
            if new is None:
                cx.prove(Or(miss, Not(Or(qual))), "None only if the box misses every child or nothing qualifies",
                         "None only when allowed")
                return "none"
            found = []
            stack = list(new.children)
            while stack:
                c = stack.pop()
                if hasattr(c, "vertices"):
                    found.append(c)
                stack.extend(getattr(c, "children", []) if not hasattr(c, "vertices") else [])
            cx.prove(len(found) == 1, "the copied group holds the copied object", "copy vertices")
            if len(found) == 1:
                ve = elems(found[0].vertices)
                nv2 = shape(found[0].vertices)[0]
                cx.prove(eq(nv2, Sum(qual)), "the child copy has exactly the selected vertices", "copy vertices")
                below = [Sum(qual[:j]) for j in range(n)]
                for j in range(n):
                    for p in range(nv2):
                        cx.prove(Implies(And(qual[j], eq(below[j], p)), And([eq(ve[p * 3 + a], V[j][a]) for a in range(3)])),
                                 f"selected vertex {j}->{p} keeps its coordinates", "copy vertices")
            return "ok"


def scenarios(tier, seed):
    S = []
    if tier == "quick":
        S += [VertexSelection(kind="points", n=3, m=0, d=3, inverse=False),
              VertexSelection(kind="points", n=3, m=0, d=2, inverse=True),
              VertexSelection(kind="curve", n=3, m=2, d=3, inverse=False),
              VertexSelection(kind="curve", n=3, m=2, d=2, inverse=True, copy=False),
              VertexSelection(kind="surface", n=3, m=1, d=2, inverse=False),
              GridSelection(nu=2, nv=2, d=2, inverse=False),
              GridSelection(nu=3, nv=1, d=3, inverse=False),
              GridSelection(nu=2, nv=2, d=2, inverse=True),
              GridSelection(nu=4, nv=2, d=2, inverse=False, rot=("3/5", "4/5")),
              DataSelection(kind="curve", n=3, m=2, d=2, inverse=True),
              DataSelection(kind="surface", n=3, m=1, d=3, inverse=False),
              BlockSelection(shape=(2, 1, 2), d=3, inverse=False), OctreeSelection(counts=(2, 1, 1), d=3, inverse=False),
              DrillholeSelection(d=3, inverse=False), DrillholeSelection(d=2, inverse=True),
              GroupSelection(n=2, d=2, inverse=True, nested=False), GroupSelection(n=2, d=3, inverse=False, nested=True)]
    else:
        for d in (2, 3):
            for inv in (False, True):
                S += [VertexSelection(kind="points", n=4, m=0, d=d, inverse=inv),
                      VertexSelection(kind="curve", n=4, m=3, d=d, inverse=inv, copy=(not inv)),
                      VertexSelection(kind="curve", n=3, m=2, d=d, inverse=inv),
                      VertexSelection(kind="surface", n=4, m=2, d=d, inverse=inv, copy=(not inv)),
                      GridSelection(nu=3, nv=2, d=d, inverse=inv), GridSelection(nu=2, nv=3, d=d, inverse=inv)]
        S += [GridSelection(nu=3, nv=3, d=2, inverse=False), GridSelection(nu=4, nv=2, d=2, inverse=False),
              GridSelection(nu=3, nv=2, d=2, inverse=False, rot=("3/5", "4/5")),
              GridSelection(nu=2, nv=3, d=2, inverse=False, rot=("5/13", "12/13")),
              GridSelection(nu=3, nv=2, d=2, inverse=False, rot=("0", "1")),
              GridSelection(nu=4, nv=2, d=2, inverse=False, rot=("3/5", "4/5")),
              GridSelection(nu=2, nv=4, d=2, inverse=False, rot=("5/13", "12/13"))]
        S += [BlockSelection(shape=(2, 1, 2), d=3, inverse=False), BlockSelection(shape=(2, 2, 1), d=2, inverse=True),
              BlockSelection(shape=(1, 2, 2), d=3, inverse=True), BlockSelection(shape=(2, 2, 2), d=3, inverse=False)]
        S += [OctreeSelection(counts=(2, 1, 1), d=3, inverse=False), OctreeSelection(counts=(2, 2, 1), d=2, inverse=True),
              OctreeSelection(counts=(4, 2, 1), d=3, inverse=False), OctreeSelection(counts=(2, 2, 2), d=3, inverse=True)]
        for d in (2, 3):
            for inv in (False, True):
                S.append(DrillholeSelection(d=d, inverse=inv))
                S.append(GroupSelection(n=3, d=d, inverse=inv, nested=inv))
        for kind, n, m in (("curve", 4, 3), ("surface", 4, 2)):
            for d in (2, 3):
                for inv in (False, True):
                    S.append(DataSelection(kind=kind, n=n, m=m, d=d, inverse=inv))
    return S


def main(tier, seed):
    return run_property(
        "C13", scenarios(tier, seed), tier, seed,
        assumptions=[
            "A-REAL: coordinates, box faces and cell sizes are mathematical reals: a point exactly on a face is inside",
            "seam A: real in-memory Workspace, save_entity no-op on the instance; copies are created for real",
            "If-building max/min injected in geoh5py.shared.utils (box_intersect) so that it does not fork 2^6 ways",
            "grid rotation: 0, or an exact rational unit-circle point substituted for cos/sin of the angle (listed stub); dip 0",
            "cell sizes > 0",
        ],
        outside=["GeoImage, rotated octrees and block models, drillhole groups", "arbitrary (irrational) rotations and non-zero dip",
                 "shapes larger than the bounds", "float rounding at box faces"],
        bounds={"quick": "<=3 points, <=2 cells, boxes in 2-D and 3-D, inverse on/off; Grid2D 2x2, 3x1 and a rotated 4x2; data-level masks on curve / surface children",
                "thorough": "<=4 points, <=3 cells; Grid2D up to 3x3 / 4x2, three rational rotations"}[tier],
        expected_outcomes={"VertexSelection": {"ok"}, "GridSelection": {"ok"}, "DataSelection": {"ok"}, "BlockSelection": {"ok"}, "OctreeSelection": {"ok", "none"}, "DrillholeSelection": {"ok"},
                           "GroupSelection": {"ok"}},
        timeout_ms=10000 if tier == "quick" else 30000,
    )
