"""symx core: symbolic scalars, path explorer, obligations.

The engine runs *real* Python functions under CPython.  Values are either plain
Python numbers or instances of SBool / SInt / SReal, which wrap z3 terms.  The
only fork point is ``SBool.__bool__`` (and ``SInt.__index__`` which enumerates
feasible values).  Paths are explored by re-execution DFS.

Modes of a context (``Ctx.mode``):
  "sym"   symbolic inputs, obligations decided by z3
  "conc"  concrete inputs taken from a model dict; obligations evaluated directly
          (used on the shim and on real numpy for validation / replay)
"""
from __future__ import annotations

import builtins
import math
import time
from fractions import Fraction

import z3


# ----------------------------------------------------------------------------
# control flow exceptions -- BaseException so that `except Exception` inside the
# code under analysis cannot swallow them
# ----------------------------------------------------------------------------
class EngineControl(BaseException):
    pass


class PathInfeasible(EngineControl):
    pass


class ShimUnsupported(EngineControl):
    """The model does not cover this operation: the path is inconclusive."""


class SolverUnknown(EngineControl):
    pass


class PathLimit(EngineControl):
    pass


# ----------------------------------------------------------------------------
# context
# ----------------------------------------------------------------------------
class Stats:
    def __init__(self):
        self.paths = 0
        self.decisions = 0
        self.queries = 0
        self.solver_time = 0.0
        self.obligations = 0
        self.discharged = 0
        self.trivial = 0
        self.inconclusive = 0
        self.infeasible = 0
        self.gaps = []          # shim gaps (messages)
        self.unknowns = []      # solver unknown / timeouts (labels)
        self.violations = []    # dicts
        self.outcomes = {}      # scenario outcome label -> count
        self.reached = {}       # obligation family -> count of paths on which it was evaluated
        self.samples = []
        self.functions = set()
        self.violated_families = set()
        self.skipped_after_violation = 0

    def merge(self, o: "Stats"):
        self.violated_families |= o.violated_families
        for k in ("paths", "decisions", "queries", "solver_time", "obligations", "discharged", "trivial",
                  "inconclusive", "infeasible", "skipped_after_violation"):
            setattr(self, k, getattr(self, k) + getattr(o, k))
        self.gaps.extend(o.gaps)
        self.unknowns.extend(o.unknowns)
        self.violations.extend(o.violations)
        for k, v in o.outcomes.items():
            self.outcomes[k] = self.outcomes.get(k, 0) + v
        for k, v in o.reached.items():
            self.reached[k] = self.reached.get(k, 0) + v
        self.samples.extend(o.samples)
        self.functions |= o.functions

    def to_dict(self):
        d = dict(self.__dict__)
        d["functions"] = sorted(self.functions)
        d["violated_families"] = sorted(self.violated_families)
        return d

    @classmethod
    def from_dict(cls, d):
        s = cls()
        s.__dict__.update(d)
        s.functions = set(d.get("functions", ()))
        s.violated_families = set(d.get("violated_families", ()))
        return s


class Ctx:
    """One execution (one path) of a scenario."""

    cur: "Ctx | None" = None

    def __init__(self, mode="sym", prefix=(), model=None, timeout_ms=5000, stats: Stats | None = None):
        self.mode = mode
        self.prefix = list(prefix)
        self.trace = []
        self.pending = []
        self.model = model or {}
        self.stats = stats or Stats()
        self.timeout_ms = timeout_ms
        self.inputs = {}            # name -> z3 const (sym) / python value (conc)
        self.excluded = []          # z3 formulas: known-finding classes assumed away
        self.failed = []            # concrete mode: labels of failed obligations
        self.failed_families = []
        self.observed = {}          # name -> value (for differential validation)
        self._cleanup = []
        if mode == "sym":
            self.solver = z3.Solver()
            self.solver.set("timeout", timeout_ms)
        else:
            self.solver = None

    # -- solver -------------------------------------------------------------
    def check(self, *extra):
        t = time.perf_counter()
        r = self.solver.check(*extra)
        self.stats.solver_time += time.perf_counter() - t
        self.stats.queries += 1
        return r

    def add(self, e):
        if self.mode == "sym":
            self.solver.add(e)

    def branch(self, e) -> bool:
        i = len(self.trace)
        if i < len(self.prefix):
            d = self.prefix[i]
        else:
            rt = self.check(e)
            rf = self.check(z3.Not(e))
            t = rt == z3.sat
            f = rf == z3.sat
            if rt == z3.unknown or rf == z3.unknown:
                # cannot decide feasibility: follow both sides that are not refuted (sound: extra paths only)
                t = rt != z3.unsat
                f = rf != z3.unsat
            if t and f:
                d = True
                self.pending.append(self.trace + [False])
            elif t:
                d = True
            elif f:
                d = False
            else:
                raise PathInfeasible()
        self.trace.append(d)
        self.stats.decisions += 1
        self.solver.add(e if d else z3.Not(e))
        return d

    def concretize(self, e, limit=64):
        i = len(self.trace)
        if i < len(self.prefix):
            v = self.prefix[i]
            self.trace.append(v)
            self.solver.add(e == v)
            return v
        vals = []
        self.solver.push()
        while len(vals) <= limit:
            r = self.check()
            if r != z3.sat:
                if r == z3.unknown:
                    self.solver.pop()
                    raise SolverUnknown("concretize")
                break
            v = self.solver.model().eval(e, model_completion=True).as_long()
            vals.append(v)
            self.solver.add(e != v)
        self.solver.pop()
        if len(vals) > limit:
            raise ShimUnsupported(f"concretize: more than {limit} feasible values for {e}")
        if not vals:
            raise PathInfeasible()
        vals.sort()
        for v in vals[1:]:
            self.pending.append(self.trace + [v])
        self.trace.append(vals[0])
        self.stats.decisions += 1
        self.solver.add(e == vals[0])
        return vals[0]

    # -- inputs -------------------------------------------------------------
    def real(self, name):
        if self.mode == "sym":
            c = z3.Real(name)
            self.inputs[name] = c
            return SReal(c)
        v = self.model.get(name, 0)
        v = float(Fraction(v)) if not isinstance(v, float) else v
        self.inputs[name] = v
        return v

    def int(self, name, lo=None, hi=None):
        """symbolic integer with lo <= x < hi"""
        if self.mode == "sym":
            c = z3.Int(name)
            self.inputs[name] = c
            if lo is not None:
                self.solver.add(c >= lo)
            if hi is not None:
                self.solver.add(c < hi)
            return SInt(c)
        v = builtins.int(self.model.get(name, lo if lo is not None else 0))
        self.inputs[name] = v
        if (lo is not None and v < lo) or (hi is not None and v >= hi):
            raise PathInfeasible()
        return v

    def bool(self, name):
        if self.mode == "sym":
            c = z3.Bool(name)
            self.inputs[name] = c
            return SBool(c)
        v = builtins.bool(self.model.get(name, False))
        self.inputs[name] = v
        return v

    def assume(self, cond):
        if isinstance(cond, SBool):
            if self.mode != "sym":
                raise TypeError("symbolic assumption in concrete mode")
            self.solver.add(cond.e)
            return
        if z3.is_expr(cond):
            self.solver.add(cond)
            return
        if not cond:
            raise PathInfeasible()

    # -- obligations --------------------------------------------------------
    def prove(self, claim, label, family=None):
        """The claim must hold on this path for all inputs satisfying the path condition."""
        st = self.stats
        fam = family or label
        st.reached[fam] = st.reached.get(fam, 0) + 1
        if fam in st.violated_families:
            # a counterexample for this family is already in hand for this scenario: do not pay for more
            st.skipped_after_violation += 1
            return None
        st.obligations += 1
        if isinstance(claim, SBool):
            if self.mode != "sym":
                raise TypeError("symbolic claim in concrete mode")
            e = claim.e
            if z3.is_true(e):
                st.discharged += 1
                st.trivial += 1
                return True
            neg = z3.Not(e)
            # counterexamples inside excluded (known-finding) classes are skipped
            r = self.check(neg, *[z3.Not(x) for x in self.excluded])
            if r == z3.unsat:
                st.discharged += 1
                return True
            if r == z3.unknown:
                st.inconclusive += 1
                st.unknowns.append(label)
                return None
            m0 = self.solver.model()
            m = self.nice_model(neg, *[z3.Not(x) for x in self.excluded]) or m0
            self._violation(label, fam, m)
            return False
        # concrete claim
        ok = builtins.bool(claim)
        if ok:
            st.discharged += 1
            st.trivial += 1
            return True
        if self.mode == "sym":
            r = self.check(*[z3.Not(x) for x in self.excluded])
            if r == z3.sat:
                self._violation(label, fam, self.solver.model())
                return False
            if r == z3.unknown:
                st.inconclusive += 1
                st.unknowns.append(label)
                return None
            st.discharged += 1     # path infeasible outside the excluded classes: nothing to show
            return True
        self.failed.append(label)
        self.failed_families.append(fam)
        return False

    def _violation(self, label, fam, m):
        mod = {}
        for name, c in self.inputs.items():
            v = m.eval(c, model_completion=True)
            mod[name] = model_value(v)
        self.stats.violations.append({"label": label, "family": fam, "model": mod, "trace": list(self.trace)})
        self.stats.violated_families.add(fam)

    def observe(self, name, value):
        self.observed[name] = value

    def nice_model(self, *extra, denom=8, timeout_ms=1500):
        """a model of the path condition (plus extra) whose real inputs are multiples of 1/denom if one exists
        (float arithmetic on such values is exact, so a replay on real numpy is not blurred by rounding);
        falls back to any model.  Returns a z3 model or None."""
        self.solver.push()
        try:
            for e in extra:
                self.solver.add(e)
            reals = [c for c in self.inputs.values() if z3.is_real(c)]
            m = None
            # 1st choice: dyadic values in generic position (non-zero, pairwise distinct): a replay on real numpy is then
            # exact and not masked by coincidences (e.g. rotation 0, origin 0); 2nd choice: dyadic only
            # within each choice small magnitudes first (|x| <= 64): replays stay inside every machine range
            for generic, bound in ((True, 64), (True, None), (False, 64), (False, None)):
                self.solver.push()
                for n, c in enumerate(reals):
                    k = z3.Int(f"__dy{n}")
                    self.solver.add(c * denom == z3.ToReal(k))
                    if bound is not None:
                        self.solver.add(c <= bound, c >= -bound)
                if generic and len(reals) <= 24:
                    for i, c in enumerate(reals):
                        self.solver.add(c != 0)
                        for c2 in reals[i + 1:]:
                            self.solver.add(c != c2)
                self.solver.set("timeout", timeout_ms // 3 if generic else timeout_ms)
                r = self.check()
                m = self.solver.model() if r == z3.sat else None
                self.solver.pop()
                self.solver.set("timeout", self.timeout_ms)
                if m is not None:
                    return m
            if self.check() == z3.sat:
                return self.solver.model()
            return None
        finally:
            self.solver.pop()

    def current_model(self):
        """Some model of the current path condition (sym mode)."""
        r = self.check()
        if r != z3.sat:
            return None
        m = self.solver.model()
        return {name: model_value(m.eval(c, model_completion=True)) for name, c in self.inputs.items()}

    def on_exit(self, fn):
        self._cleanup.append(fn)

    def close(self):
        while self._cleanup:
            fn = self._cleanup.pop()
            try:
                fn()
            except Exception:  # pragma: no cover
                pass


def model_value(v):
    if z3.is_int_value(v):
        return v.as_long()
    if z3.is_rational_value(v):
        return f"{v.numerator_as_long()}/{v.denominator_as_long()}"
    if z3.is_true(v):
        return True
    if z3.is_false(v):
        return False
    if z3.is_algebraic_value(v):
        a = v.approx(20)
        return f"{a.numerator_as_long()}/{a.denominator_as_long()}"
    return str(v)


# ----------------------------------------------------------------------------
# symbolic scalars
# ----------------------------------------------------------------------------
class Sym:
    __slots__ = ("e",)
    __hash__ = None

    def __deepcopy__(self, memo):
        return self         # immutable

    def __copy__(self):
        return self

    def item(self):
        return self


def _nonfinite(x):
    return isinstance(x, float) and (x != x or x in (math.inf, -math.inf))


def lift(x):
    """python value / Sym -> z3 term"""
    if isinstance(x, Sym):
        return x.e
    if isinstance(x, builtins.bool):
        return z3.BoolVal(x)
    if isinstance(x, builtins.int):
        return z3.IntVal(x)
    if isinstance(x, builtins.float):
        if _nonfinite(x):
            raise ShimUnsupported("non-finite float in a symbolic term")
        return z3.RealVal(Fraction(repr(x)))
    if isinstance(x, Fraction):
        return z3.RealVal(x)
    if z3.is_expr(x):
        return x
    try:
        import numpy as _np
        if isinstance(x, _np.bool_):
            return z3.BoolVal(builtins.bool(x))
        if isinstance(x, _np.integer):
            return z3.IntVal(builtins.int(x))
        if isinstance(x, _np.floating):
            return lift(builtins.float(x))
    except ImportError:  # pragma: no cover
        pass
    raise TypeError(f"cannot lift {type(x).__name__}")


def toreal(e):
    return z3.ToReal(e) if z3.is_int(e) else e


def mk(e):
    e = z3.simplify(e)
    if z3.is_bool(e):
        if z3.is_true(e):
            return True
        if z3.is_false(e):
            return False
        return SBool(e)
    if z3.is_int(e):
        if z3.is_int_value(e):
            return e.as_long()
        return SInt(e)
    return SReal(e)


class SBool(Sym):
    __slots__ = ()

    def __init__(self, e):
        self.e = e

    def __bool__(self):
        if z3.is_true(self.e):
            return True
        if z3.is_false(self.e):
            return False
        c = Ctx.cur
        if c is None or c.mode != "sym":
            raise ShimUnsupported("symbolic branch outside a symbolic context")
        return c.branch(self.e)

    def __invert__(self):
        return mk(z3.Not(self.e))

    def __and__(self, o):
        if isinstance(o, (builtins.bool, SBool)):
            return mk(z3.And(self.e, lift(o)))
        return NotImplemented

    __rand__ = __and__

    def __or__(self, o):
        if isinstance(o, (builtins.bool, SBool)):
            return mk(z3.Or(self.e, lift(o)))
        return NotImplemented

    __ror__ = __or__

    def __xor__(self, o):
        if isinstance(o, (builtins.bool, SBool)):
            return mk(z3.Xor(self.e, lift(o)))
        return NotImplemented

    __rxor__ = __xor__

    def __eq__(self, o):
        if isinstance(o, (builtins.bool, SBool)):
            return mk(self.e == lift(o))
        if isinstance(o, (builtins.int, SInt)):
            return mk(z3.If(self.e, 1, 0) == lift(o))
        return False

    def __ne__(self, o):
        r = self.__eq__(o)
        return (not r) if isinstance(r, builtins.bool) else ~r

    # arithmetic on booleans (True == 1)
    def _i(self):
        return SInt(z3.If(self.e, z3.IntVal(1), z3.IntVal(0)))

    def __add__(self, o):
        return self._i() + o

    __radd__ = __add__

    def __mul__(self, o):
        return self._i() * o

    __rmul__ = __mul__

    def __sub__(self, o):
        return self._i() - o

    def __rsub__(self, o):
        return o - self._i()

    def __repr__(self):
        return f"<{self.e}>"


class SNum(Sym):
    __slots__ = ()

    def __init__(self, e):
        self.e = e

    def __bool__(self):
        # truthiness of a number (`if value:`): a fork on value != 0
        return bool(self != 0)

    def _bin(self, o, f, kind):
        if isinstance(o, SBool):
            o = o._i()
        if _nonfinite(o):
            return _nonfinite_op(self, o, kind, False)
        try:
            oe = lift(o)
        except TypeError:
            return NotImplemented
        if z3.is_bool(oe):
            oe = z3.If(oe, z3.IntVal(1), z3.IntVal(0))
        return mk(f(self.e, oe))

    def _rbin(self, o, f, kind):
        if _nonfinite(o):
            return _nonfinite_op(self, o, kind, True)
        try:
            oe = lift(o)
        except TypeError:
            return NotImplemented
        if z3.is_bool(oe):
            oe = z3.If(oe, z3.IntVal(1), z3.IntVal(0))
        return mk(f(oe, self.e))

    def __add__(self, o):
        return self._bin(o, lambda a, b: a + b, "add")

    __radd__ = __add__

    def __sub__(self, o):
        return self._bin(o, lambda a, b: a - b, "sub")

    def __rsub__(self, o):
        return self._rbin(o, lambda a, b: a - b, "sub")

    def __mul__(self, o):
        return self._bin(o, lambda a, b: a * b, "mul")

    __rmul__ = __mul__

    def __truediv__(self, o):
        return self._bin(o, lambda a, b: toreal(a) / toreal(b), "div")

    def __rtruediv__(self, o):
        return self._rbin(o, lambda a, b: toreal(a) / toreal(b), "div")

    def __neg__(self):
        return mk(-self.e)

    def __pos__(self):
        return self

    def __abs__(self):
        return mk(z3.If(self.e >= 0, self.e, -self.e))

    def __pow__(self, o):
        if isinstance(o, builtins.int) and 0 <= o <= 4:
            r = 1
            for _ in range(o):
                r = r * self
            return r
        if o == 0.5 or o == 2.0:
            if o == 2.0:
                return self * self
        raise ShimUnsupported(f"pow {o}")

    def __lt__(self, o):
        return self._bin(o, lambda a, b: a < b, "lt")

    def __le__(self, o):
        return self._bin(o, lambda a, b: a <= b, "le")

    def __gt__(self, o):
        return self._bin(o, lambda a, b: a > b, "gt")

    def __ge__(self, o):
        return self._bin(o, lambda a, b: a >= b, "ge")

    def __eq__(self, o):
        r = self._bin(o, lambda a, b: a == b, "eq")
        return False if r is NotImplemented else r

    def __ne__(self, o):
        r = self._bin(o, lambda a, b: a != b, "ne")
        return True if r is NotImplemented else r

    def __repr__(self):
        return f"<{self.e}>"


def _nonfinite_op(s, o, kind, reflected):
    """SNum (finite by construction) op concrete nan/inf"""
    if o != o:  # nan
        if kind in ("lt", "le", "gt", "ge", "eq"):
            return False
        if kind == "ne":
            return True
        return math.nan
    pos = o > 0
    if kind in ("add",):
        return o
    if kind == "sub":
        return o if reflected else -o
    if kind in ("lt", "le"):
        return (not pos) if reflected else pos
    if kind in ("gt", "ge"):
        return pos if reflected else (not pos)
    if kind == "eq":
        return False
    if kind == "ne":
        return True
    if kind == "div" and not reflected:
        return 0.0
    raise ShimUnsupported(f"{kind} with infinity")


class SInt(SNum):
    __slots__ = ()

    def __index__(self):
        c = Ctx.cur
        if c is None or c.mode != "sym":
            raise ShimUnsupported("symbolic index outside a symbolic context")
        return c.concretize(self.e)

    __int__ = __index__

    def __hash__(self):
        # hashing needs a concrete value: fork over the feasible ones (sets / dict keys of symbolic ints)
        return hash(self.__index__())

    def __floordiv__(self, o):
        if isinstance(o, builtins.int) and o > 0:
            return mk(self.e / z3.IntVal(o))
        raise ShimUnsupported("floordiv by non-positive / symbolic")

    def __mod__(self, o):
        if isinstance(o, builtins.int) and o > 0:
            return mk(self.e % z3.IntVal(o))
        raise ShimUnsupported("mod by non-positive / symbolic")


_MOD360 = z3.Function("mod360", z3.RealSort(), z3.RealSort())


class SReal(SNum):
    __slots__ = ()

    def __hash__(self):
        raise ShimUnsupported("hash() of a symbolic real (set / dict key)")

    def __float__(self):
        raise ShimUnsupported("float() of a symbolic real")

    def __int__(self):
        raise ShimUnsupported("int() of a symbolic real")

    def __mod__(self, o):
        if o == 360.0 or o == 360:
            return SReal(_MOD360(toreal(self.e)))
        raise ShimUnsupported(f"real % {o}")

    def __round__(self, n=None):
        raise ShimUnsupported("round() of a symbolic real")


# ----------------------------------------------------------------------------
# value algebra usable in both modes (oracles are written with these)
# ----------------------------------------------------------------------------
def is_sym(x):
    return isinstance(x, Sym)


def ite(c, a, b):
    if isinstance(c, SBool):
        if isinstance(a, (builtins.bool, SBool)) and isinstance(b, (builtins.bool, SBool)):
            return mk(z3.If(c.e, lift(a), lift(b)))
        if _nonfinite(a) or _nonfinite(b):
            # selection between special floats cannot be a term: fork
            return a if builtins.bool(c) else b
        ae, be = lift(a), lift(b)
        if z3.is_bool(ae):
            ae = z3.If(ae, z3.IntVal(1), z3.IntVal(0))
        if z3.is_bool(be):
            be = z3.If(be, z3.IntVal(1), z3.IntVal(0))
        if z3.is_int(ae) and z3.is_real(be):
            ae = z3.ToReal(ae)
        if z3.is_real(ae) and z3.is_int(be):
            be = z3.ToReal(be)
        return mk(z3.If(c.e, ae, be))
    return a if c else b


def And(*xs):
    if len(xs) == 1 and isinstance(xs[0], (list, tuple)):
        xs = xs[0]
    acc = True
    for x in xs:
        if isinstance(x, SBool):
            acc = x & acc if not isinstance(acc, builtins.bool) else (x if acc else False)
        else:
            if not x:
                return False
    return acc


def Or(*xs):
    if len(xs) == 1 and isinstance(xs[0], (list, tuple)):
        xs = xs[0]
    acc = False
    for x in xs:
        if isinstance(x, SBool):
            acc = x | acc if not isinstance(acc, builtins.bool) else (True if acc else x)
        else:
            if x:
                return True
    return acc


def Not(x):
    if isinstance(x, SBool):
        return ~x
    return not x


def Implies(a, b):
    return Or(Not(a), b)


def Iff(a, b):
    if isinstance(a, SBool) or isinstance(b, SBool):
        return mk(lift(a) == lift(b))
    return builtins.bool(a) == builtins.bool(b)


def b2i(x):
    if isinstance(x, SBool):
        return x._i()
    if isinstance(x, builtins.bool):
        return builtins.int(x)
    try:
        import numpy as _np
        if isinstance(x, _np.bool_):
            return builtins.int(x)
    except ImportError:  # pragma: no cover
        pass
    return x


def Sum(xs):
    acc = 0
    for x in xs:
        acc = acc + b2i(x)
    return acc


def select(lst, idx):
    """lst[idx] with a possibly symbolic idx (If-chain; out of range -> last element)."""
    if not isinstance(idx, Sym):
        idx = builtins.int(idx)
        return lst[idx] if 0 <= idx < len(lst) else lst[-1]
    acc = lst[-1]
    for q in range(len(lst) - 2, -1, -1):
        acc = ite(idx == q, lst[q], acc)
    return acc


REL_TOL = 1e-9


def eq(a, b):
    """equality; in concrete mode floats compare with a tiny relative tolerance (rounding is outside every claim)
    and NaN equals NaN"""
    if isinstance(a, Sym) or isinstance(b, Sym):
        if _nonfinite(a) or _nonfinite(b):
            return False
        return a == b
    try:
        fa, fb = builtins.float(a), builtins.float(b)
    except (TypeError, ValueError):
        return a == b
    if fa != fa or fb != fb:
        return fa != fa and fb != fb
    if fa == fb:
        return True
    if math.isinf(fa) or math.isinf(fb):
        return False
    return abs(fa - fb) <= REL_TOL * (1.0 + abs(fa) + abs(fb))


def is_nan(x):
    return isinstance(x, builtins.float) and x != x or (type(x).__module__ == "numpy" and x != x)


# ----------------------------------------------------------------------------
# explorer
# ----------------------------------------------------------------------------
def explore(scenario_fn, *, timeout_ms=5000, max_paths=20000, excluded_fn=None, profile_first=False,
            time_budget_s=None, stats: Stats | None = None, on_path=None):
    """Run scenario_fn(ctx) over all paths.  scenario_fn returns an outcome label (str).

    excluded_fn(ctx) -> list of z3 formulas (known-finding classes) evaluated after inputs exist; the scenario
    calls ctx.excluded itself normally -- this hook is for the runner.
    on_path(ctx, outcome) is called at the end of every completed path (for validation sampling)."""
    st = stats or Stats()
    work = [[]]
    t0 = time.time()
    first = True
    while work:
        if st.paths >= max_paths or (time_budget_s and time.time() - t0 > time_budget_s):
            st.gaps.append(f"path/time limit reached with {len(work)} prefixes unexplored")
            st.inconclusive += len(work)
            break
        prefix = work.pop()
        ctx = Ctx("sym", prefix=prefix, timeout_ms=timeout_ms, stats=st)
        Ctx.cur = ctx
        outcome = None
        ctx.want_profile = bool(profile_first and first)
        ctx.profiler = None
        try:
            outcome = scenario_fn(ctx)
            if outcome is None:
                outcome = "ok"
        except PathInfeasible:
            outcome = None
            st.infeasible += 1
        except ShimUnsupported as e:
            outcome = None
            st.inconclusive += 1
            import traceback as _tb
            fr = [f"{f.filename.rsplit('/', 1)[-1]}:{f.lineno}" for f in _tb.extract_tb(e.__traceback__)
                  if "/geoh5py/" in f.filename][-2:]
            st.gaps.append(f"shim gap: {str(e)[:300]} @ {fr}")
        except SolverUnknown as e:
            outcome = None
            st.inconclusive += 1
            st.unknowns.append(f"solver unknown: {e}")
        finally:
            Ctx.cur = None
            ctx.close()
            if ctx.profiler is not None:
                st.functions |= ctx.profiler.names
        first = False
        st.paths += 1
        if outcome is not None:
            st.outcomes[outcome] = st.outcomes.get(outcome, 0) + 1
            if on_path is not None:
                on_path(ctx, outcome)
        work.extend(ctx.pending)
    return st


def run_concrete(scenario_fn, model, stats=None):
    """Run a scenario once with concrete inputs. Returns (outcome, failed labels, observed)."""
    ctx = Ctx("conc", model=model, stats=stats or Stats())
    Ctx.cur = ctx
    try:
        outcome = scenario_fn(ctx)
        if outcome is None:
            outcome = "ok"
    except PathInfeasible:
        outcome = "__infeasible__"
    finally:
        Ctx.cur = None
        ctx.close()
    return outcome, ctx.failed, ctx.observed


class _Profiler:
    def __init__(self):
        self.names = set()

    def _cb(self, frame, event, arg):
        if event == "call":
            fn = frame.f_code.co_filename
            if "/geoh5py/" in fn:
                mod = fn.split("/geoh5py/", 1)[1][:-3].replace("/", ".")
                self.names.add(f"geoh5py.{mod}:{frame.f_code.co_qualname}")

    def start(self):
        import sys
        sys.setprofile(self._cb)

    def stop(self):
        import sys
        sys.setprofile(None)
