"""symx numpy model, part 1: dtypes, ndarray, record arrays, indexing.

Arrays have a concrete shape; elements are Python scalars or symbolic scalars (core.SBool/SInt/SReal).
Anything not modelled raises ShimUnsupported (the path becomes inconclusive: fail-closed).
"""
from __future__ import annotations

import builtins
import math

import numpy as _rnp
import z3

from .core import (Ctx, SBool, SInt, SReal, SNum, Sym, ShimUnsupported, ite, lift, mk, toreal, b2i, And, Or, Not)

_pyint, _pyfloat, _pybool = builtins.int, builtins.float, builtins.bool


# ----------------------------------------------------------------------------
# dtypes
# ----------------------------------------------------------------------------
class _Abstract(type):
    """np.integer, np.floating ...: abstract scalar types (usable in isinstance and issubdtype)"""

    def __instancecheck__(cls, x):
        return isinstance(x, getattr(_rnp, cls.__name__))

    def __repr__(cls):
        return f"symx.{cls.__name__}"


def _abstract(name, kinds):
    return _Abstract(name, (), {"kinds": kinds})


generic = _abstract("generic", "biufOSU")
number = _abstract("number", "iuf")
integer = _abstract("integer", "iu")
signedinteger = _abstract("signedinteger", "i")
unsignedinteger = _abstract("unsignedinteger", "u")
floating = _abstract("floating", "f")


class dtype:
    """Scalar dtype tag. Instances double as scalar constructors (np.int32(3))."""

    _by_name: dict = {}

    def __new__(cls, spec=None, *a, **k):
        if a and isinstance(a[0], _pyint):      # internal construction: dtype(name, kind, bits)
            return object.__new__(cls)
        return as_dtype(spec)

    def __init__(self, name, kind=None, bits=None):
        if kind is None:
            return
        self.name = name
        self.kind = kind
        self.bits = bits
        self.itemsize = bits // 8 if bits else 8
        self.names = None
        self.type = self
        dtype._by_name[name] = self

    # numpy semantics of dtype equality with python types / strings
    def __eq__(self, o):
        try:
            return as_dtype(o) is self
        except (TypeError, ShimUnsupported):
            return False

    def __ne__(self, o):
        return not self.__eq__(o)

    def __hash__(self):
        return hash(self.name)

    def __repr__(self):
        return f"dtype('{self.name}')"

    def __call__(self, x=0):
        return cast_scalar(x, self)

    def __len__(self):
        return 0

    def __bool__(self):
        return True

    @property
    def str(self):
        return {"float64": "<f8", "float32": "<f4", "int32": "<i4", "int64": "<i8", "uint32": "<u4", "bool": "|b1",
                "int8": "|i1", "uint8": "|u1", "int16": "<i2", "uint16": "<u2", "uint64": "<u8"}.get(self.name, "|O")

    def range(self):
        if self.kind == "i":
            return -(1 << (self.bits - 1)), (1 << (self.bits - 1)) - 1
        if self.kind == "u":
            return 0, (1 << self.bits) - 1
        if self.kind == "b":
            return 0, 1
        return None


def _mk(name, kind, bits):
    d = object.__new__(dtype)
    dtype.__init__(d, name, kind, bits)
    return d


bool_ = _mk("bool", "b", 8)
int8 = _mk("int8", "i", 8)
int16 = _mk("int16", "i", 16)
int32 = _mk("int32", "i", 32)
int64 = _mk("int64", "i", 64)
uint8 = _mk("uint8", "u", 8)
uint16 = _mk("uint16", "u", 16)
uint32 = _mk("uint32", "u", 32)
uint64 = _mk("uint64", "u", 64)
float32 = _mk("float32", "f", 32)
float64 = _mk("float64", "f", 64)
object_ = _mk("object", "O", 64)
str_ = _mk("str", "U", 64)
bytes_ = _mk("bytes", "S", 64)
intp = int64
int_ = int64
float_ = float64

class _ScalarMeta(type):
    """np.int8, np.float64 ... as *types*: usable in isinstance(), as constructors and as dtype specs"""

    def __instancecheck__(cls, x):
        return isinstance(x, cls._np)

    def __call__(cls, x=0):
        r = cast_scalar(x, cls._dt)
        if isinstance(r, (_pybool, _pyint, _pyfloat)) and cls._dt.kind in "biuf":
            return cls._np(r)
        return r

    def __repr__(cls):
        return f"symx.{cls.__name__}"


def _scalar_type(dt, npname=None):
    return _ScalarMeta(dt.name, (), {"_dt": dt, "_np": getattr(_rnp, npname or dt.name), "kind": dt.kind,
                                     "bits": dt.bits, "itemsize": dt.itemsize, "name": dt.name,
                                     "range": staticmethod(dt.range)})


SCALAR_TYPES = {
    "bool_": _scalar_type(bool_, "bool_"), "int8": _scalar_type(int8), "int16": _scalar_type(int16),
    "int32": _scalar_type(int32), "int64": _scalar_type(int64), "uint8": _scalar_type(uint8),
    "uint16": _scalar_type(uint16), "uint32": _scalar_type(uint32), "uint64": _scalar_type(uint64),
    "float32": _scalar_type(float32), "float64": _scalar_type(float64), "object_": _scalar_type(object_, "object_"),
    "str_": _scalar_type(str_, "str_"), "bytes_": _scalar_type(bytes_, "bytes_"),
}

_ALIASES = {
    "bool": bool_, "?": bool_, "|b1": bool_, "b1": bool_,
    "int": int64, "int64": int64, "<i8": int64, "i8": int64,
    "int32": int32, "<i4": int32, "i4": int32,
    "int16": int16, "<i2": int16, "i2": int16,
    "int8": int8, "|i1": int8, "i1": int8,
    "uint8": uint8, "|u1": uint8, "u1": uint8,
    "uint16": uint16, "<u2": uint16, "u2": uint16,
    "uint32": uint32, "<u4": uint32, "u4": uint32,
    "uint64": uint64, "<u8": uint64, "u8": uint64, "uint": uint64,
    "float": float64, "float64": float64, "<f8": float64, "f8": float64, "d": float64,
    "float32": float32, "<f4": float32, "f4": float32, "f": float32,
    "object": object_, "O": object_, "|O": object_,
    "str": str_, "U": str_, "S": bytes_,
}


class RecDtype:
    """structured dtype: ordered (name, scalar dtype) fields"""

    kind = "V"

    def __init__(self, fields, real=None):
        self.real = real            # the original numpy dtype spec when known (keeps h5py vlen-string metadata)
        self.fields_ = [(n, d) for n, d in fields]
        self.names = tuple(n for n, _ in self.fields_)
        self.name = "record"

    def __eq__(self, o):
        return isinstance(o, RecDtype) and o.names == self.names

    def __ne__(self, o):
        return not self.__eq__(o)

    def __hash__(self):
        return hash(self.names)

    def __repr__(self):
        return f"RecDtype({self.fields_})"

    def __len__(self):
        return len(self.fields_)

    def __bool__(self):
        return True

    @property
    def base(self):
        return self

    @property
    def fields(self):
        return {n: (d, None) for n, d in self.fields_}

    def field(self, name):
        for n, d in self.fields_:
            if n == name:
                return d
        raise KeyError(name)


def as_dtype(d):
    if d is None:
        return None
    if isinstance(d, (dtype, RecDtype)):
        return d
    if isinstance(d, _ScalarMeta):
        return d._dt
    if d is _pybool or d is builtins.bool:
        return bool_
    if d is _pyint:
        return int64
    if d is _pyfloat:
        return float64
    if d is str:
        return str_
    if d is bytes:
        return bytes_
    if d is object:
        return object_
    nm = getattr(d, "__name__", None)
    if nm in ("SymFloat", "float"):
        return float64
    if nm in ("SymInt", "int"):
        return int64
    if nm in ("SymBool", "bool"):
        return bool_
    if isinstance(d, str):
        if d in _ALIASES:
            return _ALIASES[d]
        if d[:1] in "<>|=" and d[1:] in _ALIASES:
            return _ALIASES[d[1:]]
        if d[:1] in "SU" or d[1:2] in "SU":
            return str_ if "U" in d[:2] else bytes_
        raise ShimUnsupported(f"dtype string {d!r}")
    if isinstance(d, list) and builtins.all(isinstance(t, tuple) for t in d):
        return RecDtype([(t[0], _field_dtype(t[1])) for t in d], real=_real_spec(d))
    if isinstance(d, dict) and "names" in d and "formats" in d:
        return RecDtype([(n, _field_dtype(f)) for n, f in zip(d["names"], d["formats"])], real=_real_spec(d))
    if isinstance(d, _rnp.dtype):
        if d.names:
            return RecDtype([(n, _field_dtype(d.fields[n][0])) for n in d.names], real=d)
        if d.kind in "OSU":
            return {"O": object_, "S": bytes_, "U": str_}[d.kind]
        return _ALIASES[d.name]
    if isinstance(d, type) and issubclass(d, _rnp.generic):
        return as_dtype(_rnp.dtype(d))
    raise ShimUnsupported(f"dtype {d!r}")


def _real_spec(d):
    """the same structured dtype spec with model scalar types mapped back to numpy names"""
    def conv(t):
        if isinstance(t, (dtype,)):
            return t.name if t.kind in "biuf" else "O"
        if isinstance(t, _ScalarMeta):
            return t._dt.name
        if t is _pyfloat or getattr(t, "__name__", "") in ("float", "SymFloat"):
            return "<f8"
        if t is _pyint or getattr(t, "__name__", "") in ("int", "SymInt"):
            return "<i8"
        return t
    try:
        if isinstance(d, list):
            return _rnp.dtype([(t[0], conv(t[1])) for t in d])
        return _rnp.dtype({"names": list(d["names"]), "formats": [conv(f) for f in d["formats"]]})
    except Exception:  # noqa: BLE001
        return None


def _field_dtype(t):
    try:
        return as_dtype(t)
    except ShimUnsupported:
        return object_
    except TypeError:
        return object_


def issubdtype(d, g):
    d = as_dtype(d) if not isinstance(d, _Abstract) else d
    if isinstance(g, _Abstract):
        if isinstance(d, _Abstract):
            return set(d.kinds) <= set(g.kinds)
        return d.kind in g.kinds
    if g is _pyfloat:
        g = floating
        return d.kind in "f"
    if g is _pyint:
        return d.kind in "iu" and False or d.kind == "i"
    g = as_dtype(g)
    return d is g


def promote(a, b):
    if a is None:
        return b
    if b is None:
        return a
    if a is b:
        return a
    ka, kb = a.kind, b.kind
    if "O" in (ka, kb) or ka in "SUV" or kb in "SUV":
        return object_
    if ka == "f" or kb == "f":
        if ka == "f" and kb == "f":
            return a if a.bits >= b.bits else b
        f = a if ka == "f" else b
        o = b if ka == "f" else a
        if f is float32 and o.kind in "iu" and o.bits >= 32:
            return float64
        return f if f is float64 or o.kind == "b" or o.bits <= 16 else float64
    if ka == "b":
        return b
    if kb == "b":
        return a
    if ka == kb:
        return a if a.bits >= b.bits else b
    # signed / unsigned mix
    s, u = (a, b) if ka == "i" else (b, a)
    if u.bits < s.bits:
        return s
    if u.bits >= 64:
        return float64
    return {8: int16, 16: int32, 32: int64}[u.bits]


def scalar_dtype(x):
    if isinstance(x, (_pybool, SBool, _rnp.bool_)):
        return bool_
    if isinstance(x, (_pyint, SInt)):
        return int64
    if isinstance(x, (_pyfloat, SReal)):
        return float64
    if isinstance(x, _rnp.generic):
        return as_dtype(x.dtype)
    if isinstance(x, str):
        return str_
    if isinstance(x, bytes):
        return bytes_
    return object_


def infer_dtype(flat):
    dt = None
    for x in flat:
        dt = promote(dt, scalar_dtype(x))
        if dt is object_:
            break
    return dt or float64


# ----------------------------------------------------------------------------
# casts
# ----------------------------------------------------------------------------
def _py(x):
    """numpy scalar -> python scalar"""
    if isinstance(x, _rnp.generic):
        return x.item()
    return x


def _in_range_under_pc(terms, lo, hi):
    """True if the path condition implies lo <= t <= hi for every term (one query)."""
    c = Ctx.cur
    if c is None or c.mode != "sym" or not terms:
        return False
    bad = z3.Or(*[z3.Or(t < lo, t > hi) for t in terms])
    return c.check(bad) == z3.unsat


_fresh_n = [0]


def fresh_int(tag="unspec"):
    _fresh_n[0] += 1
    return z3.Int(f"__{tag}{_fresh_n[0]}")


def fresh_real(tag="uninit"):
    _fresh_n[0] += 1
    return z3.Real(f"__{tag}{_fresh_n[0]}")


def trunc_term(e):
    e = toreal(e)
    f = z3.ToInt(e)           # floor; only one ToInt term keeps the mixed int/real reasoning easy for z3
    return z3.If(z3.Or(e >= 0, e == z3.ToReal(f)), f, f + 1)


def cast_scalar(x, dt, assume_in_range=False):
    """C-level cast of one element to dt (numpy astype semantics, see DESIGN 2.1)."""
    x = _py(x)
    k = dt.kind
    if k == "O":
        return x
    if k in "SU":
        return x
    if k == "b":
        if isinstance(x, Sym):
            if isinstance(x, SBool):
                return x
            return x != 0
        if isinstance(x, _pyfloat) and x != x:
            return True
        return _pybool(x)
    if k == "f":
        if isinstance(x, SBool):
            return SReal(toreal(x._i().e))
        if isinstance(x, SInt):
            return SReal(z3.ToReal(x.e))
        if isinstance(x, SReal):
            return x            # float32 rounding is outside every claim (A-REAL)
        if isinstance(x, (bytes, str)) or x is None:
            raise ValueError("could not convert to float")
        if dt is float32 and isinstance(x, (_pyint, _pyfloat)):
            return _pyfloat(_rnp.float32(x))
        return _pyfloat(x)
    # integer targets
    lo, hi = dt.range()
    span = hi - lo + 1
    if isinstance(x, SBool):
        return x._i()
    if isinstance(x, SInt):
        if assume_in_range:
            return x
        return mk(((x.e - lo) % span) + lo)
    if isinstance(x, SReal):
        t = trunc_term(x.e)
        if assume_in_range:
            return mk(t)
        # out-of-range float -> int is unspecified in C: fresh value
        return mk(z3.If(z3.And(t >= lo, t <= hi), t, fresh_int()))
    if isinstance(x, _pyfloat):
        if x != x or x in (math.inf, -math.inf):
            return _pyint(_rnp.array([x]).astype(dt.name)[0]) if False else _nonfinite_to_int(x, dt)
        return _pyint(_rnp.float64(x).astype(dt.name)) if abs(x) < 2 ** 62 else _nonfinite_to_int(x, dt)
    if isinstance(x, (_pybool, _pyint)):
        return ((_pyint(x) - lo) % span) + lo
    if x is None or isinstance(x, (bytes, str)):
        raise ValueError("invalid literal for int()")
    raise ShimUnsupported(f"cast of {type(x).__name__} to {dt.name}")


def _nonfinite_to_int(x, dt):
    import warnings
    with warnings.catch_warnings():
        warnings.simplefilter("ignore")
        return _pyint(_rnp.array([x], dtype="float64").astype(dt.name)[0])


# ----------------------------------------------------------------------------
# ndarray
# ----------------------------------------------------------------------------
def _prod(shape):
    n = 1
    for s in shape:
        n *= s
    return n


class _NdMeta(type):
    def __instancecheck__(cls, x):
        # a 0-d structured value (np.asarray(record): origin, collar) is an ndarray for the code under analysis
        return type.__instancecheck__(cls, x) or (cls is ndarray and (isinstance(x, _rnp.ndarray) or type(x).__name__ == "RecScalar"))


def isnd(x):
    """a model array (real numpy arrays satisfy isinstance(x, np.ndarray) for the code under analysis, not this)"""
    return type.__instancecheck__(ndarray, x)


class ndarray(metaclass=_NdMeta):
    __array_priority__ = 1000
    __hash__ = None

    def __init__(self, flat, shape, dtype=None):
        self._d = flat if isinstance(flat, list) else list(flat)
        if isinstance(shape, _pyint):
            shape = (shape,)
        self.shape = tuple(shape)
        if _prod(self.shape) != len(self._d):
            raise ValueError(f"cannot reshape array of size {len(self._d)} into shape {self.shape}")
        self.dtype = as_dtype(dtype) if dtype is not None else infer_dtype(self._d)

    # -- basic attributes ----------------------------------------------------
    @property
    def ndim(self):
        return len(self.shape)

    @property
    def size(self):
        return len(self._d)

    def __len__(self):
        if not self.shape:
            raise TypeError("len() of unsized object")
        return self.shape[0]

    def _strides(self):
        st, acc = [], 1
        for s in reversed(self.shape):
            st.append(acc)
            acc *= s
        return list(reversed(st))

    def tolist(self):
        def rec(off, dim):
            if dim == self.ndim:
                return self._d[off]
            st = strides[dim]
            return [rec(off + i * st, dim + 1) for i in range(self.shape[dim])]
        strides = self._strides()
        return rec(0, 0)

    def item(self, *a):
        if a:
            return self._d[a[0]]
        if len(self._d) != 1:
            raise ValueError("can only convert an array of size 1 to a Python scalar")
        return self._d[0]

    def rows(self):
        if self.ndim == 1:
            return list(self._d)
        w = _prod(self.shape[1:])
        return [ndarray(self._d[i * w:(i + 1) * w], self.shape[1:], self.dtype) for i in range(self.shape[0])]

    def __iter__(self):
        if self.ndim == 0:
            raise TypeError("iteration over a 0-d array")
        return iter(self.rows())

    def __repr__(self):
        return f"sarray({self.tolist()!r}, {self.dtype.name})"

    def __bool__(self):
        if len(self._d) != 1:
            raise ValueError("The truth value of an array with more than one element is ambiguous.")
        return _pybool(self._d[0])

    def __index__(self):
        if len(self._d) == 1 and self.dtype.kind in "iu":
            x = self._d[0]
            return x.__index__()
        raise TypeError("only integer scalar arrays can be converted to a scalar index")

    def __float__(self):
        if len(self._d) == 1:
            return _pyfloat(self._d[0])
        raise TypeError("only size-1 arrays can be converted")

    def __int__(self):
        if len(self._d) == 1:
            return _pyint(self._d[0])
        raise TypeError("only size-1 arrays can be converted")

    # -- shape manipulation ----------------------------------------------------
    @property
    def T(self):
        return self.transpose()

    def transpose(self, *axes):
        if self.ndim < 2:
            return self
        if self.ndim == 2:
            r, c = self.shape
            return ndarray([self._d[i * c + j] for j in range(c) for i in range(r)], (c, r), self.dtype)
        raise ShimUnsupported("transpose of ndim > 2")

    def reshape(self, *shp, order="C"):
        if len(shp) == 1 and not isinstance(shp[0], _pyint):
            shp = tuple(shp[0])
        shp = [s.__index__() if not isinstance(s, _pyint) else s for s in shp]
        if order == "F":
            if len(shp) == 2 and self.ndim == 1:
                r, c = _fix_shape(shp, len(self._d))
                return ndarray([self._d[j * r + i] for i in range(r) for j in range(c)], (r, c), self.dtype)
            raise ShimUnsupported("reshape order=F")
        return ndarray(list(self._d), _fix_shape(shp, len(self._d)), self.dtype)

    def flatten(self, order="C"):
        if order == "F" and self.ndim == 2:
            return self.T.flatten()
        return ndarray(list(self._d), (len(self._d),), self.dtype)

    ravel = flatten

    def squeeze(self):
        return ndarray(list(self._d), tuple(s for s in self.shape if s != 1), self.dtype)

    def copy(self):
        return ndarray(list(self._d), self.shape, self.dtype)

    def __deepcopy__(self, memo):
        return self.copy()

    def view(self, dt=None):
        if dt is None:
            return self
        d = as_dtype(dt)
        if d is self.dtype:
            return self
        raise ShimUnsupported(f"view {self.dtype} as {dt}")

    def astype(self, dt, copy=True):
        d = as_dtype(dt)
        if isinstance(d, RecDtype):
            raise ShimUnsupported("astype to record dtype")
        return ndarray(cast_list(self._d, self.dtype, d), self.shape, d)

    def fill(self, v):
        self._d[:] = [v] * len(self._d)

    # -- reductions ------------------------------------------------------------
    def min(self, axis=None):
        return _reduce(self, axis, lambda a, b: ite(le(a, b), a, b), "minimum")

    def max(self, axis=None):
        return _reduce(self, axis, lambda a, b: ite(le(b, a), a, b), "maximum")

    def sum(self, axis=None):
        return _reduce(self, axis, lambda a, b: a + b, None, ident=0, pre=b2i)

    def all(self, axis=None):
        return _npbool(_reduce(self, axis, lambda a, b: And(truth(a), truth(b)), None, ident=True, pre=truth))

    def any(self, axis=None):
        return _npbool(_reduce(self, axis, lambda a, b: Or(truth(a), truth(b)), None, ident=False, pre=truth))

    def mean(self, axis=None):
        n = len(self._d) if axis is None else self.shape[axis]
        return self.sum(axis) / n

    def argsort(self, axis=-1):
        from . import npshim
        return npshim.argsort(self)

    def nonzero(self):
        from . import npshim
        return npshim.where(self)

    def dot(self, o):
        from . import npshim
        return npshim.dot(self, o)

    def cumsum(self, axis=None):
        from . import npshim
        return npshim.cumsum(self, axis)

    def round(self, decimals=0):
        from . import npshim
        return npshim.round(self, decimals)

    def repeat(self, n, axis=None):
        from . import npshim
        return npshim.repeat(self, n, axis)

    # -- elementwise -------------------------------------------------------------
    def _ew(self, o, f, dt=None, div=False):
        if isinstance(o, RecArray) or isinstance(o, RecScalar):
            raise ShimUnsupported("arithmetic with record arrays")
        if isinstance(o, (list, tuple, _rnp.ndarray)):
            o = array(o)
        if isnd(o):
            a, b = broadcast(self, o)
            res = [f(x, y) for x, y in zip(a._d, b._d)]
            rdt = dt or (float64 if div and promote(self.dtype, o.dtype).kind != "f" else promote(self.dtype, o.dtype))
            return ndarray(res, a.shape, rdt)
        o = _py(o)
        res = [f(x, o) for x in self._d]
        if dt is None:
            sd = scalar_dtype(o)
            # python scalars are weak: they do not upcast within a kind
            if sd.kind == self.dtype.kind or (sd.kind in "bi" and self.dtype.kind in "iuf") or (sd.kind == "b"):
                dt = self.dtype
            else:
                dt = promote(self.dtype, sd)
            if div and dt.kind != "f":
                dt = float64
        return ndarray(res, self.shape, dt)

    def __add__(self, o):
        return self._ew(o, add)

    __radd__ = __add__

    def __sub__(self, o):
        return self._ew(o, lambda a, b: sub(a, b))

    def __rsub__(self, o):
        return self._ew(o, lambda a, b: sub(b, a))

    def __mul__(self, o):
        return self._ew(o, mul)

    __rmul__ = __mul__

    def __truediv__(self, o):
        return self._ew(o, lambda a, b: div(a, b), div=True)

    def __rtruediv__(self, o):
        return self._ew(o, lambda a, b: div(b, a), div=True)

    def __floordiv__(self, o):
        return self._ew(o, lambda a, b: a // b)

    def __mod__(self, o):
        return self._ew(o, lambda a, b: mod(a, b))

    def __pow__(self, o):
        return self._ew(o, lambda a, b: power(a, b))

    def __neg__(self):
        return ndarray([neg(x) for x in self._d], self.shape, self.dtype)

    def __abs__(self):
        return ndarray([abs_(x) for x in self._d], self.shape, self.dtype)

    def __lt__(self, o):
        return self._ew(o, lambda a, b: lt(a, b), bool_)

    def __le__(self, o):
        return self._ew(o, lambda a, b: le(a, b), bool_)

    def __gt__(self, o):
        return self._ew(o, lambda a, b: lt(b, a), bool_)

    def __ge__(self, o):
        return self._ew(o, lambda a, b: le(b, a), bool_)

    def __eq__(self, o):
        if o is None:
            return ndarray([x is None for x in self._d], self.shape, bool_)
        return self._ew(o, lambda a, b: eq_(a, b), bool_)

    def __ne__(self, o):
        return self._ew(o, lambda a, b: Not(eq_(a, b)), bool_)

    def __invert__(self):
        if self.dtype.kind != "b":
            raise ShimUnsupported(f"~ on non-bool array ({self.dtype}, {self._d[:3]})")
        return ndarray([Not(x) for x in self._d], self.shape, bool_)

    def __and__(self, o):
        return self._ew(o, lambda a, b: And(truth(a), truth(b)), bool_)

    __rand__ = __and__

    def __or__(self, o):
        return self._ew(o, lambda a, b: Or(truth(a), truth(b)), bool_)

    __ror__ = __or__

    def __xor__(self, o):
        return self._ew(o, lambda a, b: Not(eq_(truth(a), truth(b))), bool_)

    def __matmul__(self, o):
        from . import npshim
        return npshim.dot(self, o)

    def __rmatmul__(self, o):
        from . import npshim
        return npshim.dot(array(o), self)

    # in-place operators keep dtype (numpy casts back)
    def _iop(self, o, f):
        r = f(self, o)
        r = broadcast_to(r, self.shape) if r.shape != self.shape else r
        self._d[:] = cast_list(r._d, r.dtype, self.dtype)
        return self

    def __iadd__(self, o):
        return self._iop(o, lambda a, b: a + b)

    def __isub__(self, o):
        return self._iop(o, lambda a, b: a - b)

    def __imul__(self, o):
        return self._iop(o, lambda a, b: a * b)

    def __iand__(self, o):
        return self._iop(o, lambda a, b: a & b)

    def __ior__(self, o):
        return self._iop(o, lambda a, b: a | b)

    def __itruediv__(self, o):
        return self._iop(o, lambda a, b: a / b)

    # -- indexing ----------------------------------------------------------------
    def __getitem__(self, key):
        if isinstance(key, str):
            raise IndexError("only integers, slices (`:`), ellipsis (`...`), numpy.newaxis (`None`) and integer or "
                             "boolean arrays are valid indices")
        return _getitem(self, key)

    def __setitem__(self, key, val):
        _setitem(self, key, val)

    def __contains__(self, x):
        r = False
        for e in self._d:
            r = Or(r, eq_(e, x))
        return _pybool(r)


def _npbool(r):
    """numpy returns np.bool_ from reductions: `~np.all(x)` must be a logical not, not Python's ~True == -2"""
    if isinstance(r, _pybool):
        return _rnp.bool_(r)
    if isnd(r) and r.dtype.kind != "b":
        r.dtype = bool_
    return r


def _fix_shape(shp, size):
    shp = list(shp)
    if -1 in shp:
        k = shp.index(-1)
        rest = 1
        for i, s in enumerate(shp):
            if i != k:
                rest *= s
        shp[k] = size // rest if rest else 0
    return tuple(shp)


def cast_list(flat, src, dst):
    if dst is src or dst.kind == "O":
        return list(flat)
    if dst.kind in "iub" and dst.kind != "b":
        lo, hi = dst.range()
        terms = []
        for x in flat:
            if isinstance(x, SInt):
                terms.append(x.e)
            elif isinstance(x, SReal):
                terms.append(x.e)
        ok = _in_range_under_pc(terms, lo, hi) if terms else False
        return [cast_scalar(x, dst, assume_in_range=ok) for x in flat]
    return [cast_scalar(x, dst) for x in flat]


# ----------------------------------------------------------------------------
# scalar kernels (work on python scalars, numpy scalars, Sym, None/bytes for equality)
# ----------------------------------------------------------------------------
def truth(x):
    x = _py(x)
    if isinstance(x, (SBool, _pybool)):
        return x
    if isinstance(x, SNum):
        return x != 0
    if isinstance(x, _pyfloat) and x != x:
        return True
    return _pybool(x)


def _num(x):
    x = _py(x)
    if isinstance(x, SBool):
        return x._i()
    return x


def add(a, b):
    return _num(a) + _num(b)


def sub(a, b):
    return _num(a) - _num(b)


def mul(a, b):
    a, b = _num(a), _num(b)
    if isinstance(a, _pyfloat) and a in (math.inf, -math.inf) and isinstance(b, Sym):
        raise ShimUnsupported("inf * symbolic")
    return a * b


def div(a, b):
    a, b = _num(a), _num(b)
    if isinstance(b, Sym) or isinstance(a, Sym):
        if not isinstance(b, Sym) and b == 0:
            raise ShimUnsupported("symbolic / 0")
        if isinstance(b, Sym):
            # division by a symbolic value: the caller must have excluded 0 on this path
            c = Ctx.cur
            if c is not None and c.mode == "sym":
                if c.check(b.e == 0) != z3.unsat:
                    if _pybool(b == 0):
                        raise ShimUnsupported("division by a symbolic zero (inf/nan result)")
        if isinstance(a, Sym):
            return a / b
        return b.__rtruediv__(a)
    if b == 0:
        a = _pyfloat(a)
        if a != a or a == 0:
            return math.nan
        return math.inf if a > 0 else -math.inf
    return a / b


def mod(a, b):
    a, b = _num(a), _num(b)
    if isinstance(a, _pyfloat) and not isinstance(b, Sym):
        return math.fmod(a, b) if (a != a or a in (math.inf, -math.inf)) else a % b
    if isinstance(a, (_pyint, _pyfloat)) and isinstance(b, (_pyint, _pyfloat)):
        return a % b
    if isinstance(a, SReal) or (isinstance(a, SInt) and isinstance(b, _pyfloat)):
        if isinstance(a, SInt):
            a = SReal(z3.ToReal(a.e))
        return a % b
    return a % b


def power(a, b):
    a = _num(a)
    if isinstance(a, Sym):
        return a ** b
    return a ** b


def neg(a):
    return -_num(a)


def abs_(a):
    return abs(_num(a))


def lt(a, b):
    return _num(a) < _num(b)


def le(a, b):
    return _num(a) <= _num(b)


def eq_(a, b):
    a, b = _py(a), _py(b)
    if isinstance(a, Sym) or isinstance(b, Sym):
        if isinstance(a, (bytes, str)) or isinstance(b, (bytes, str)) or a is None or b is None:
            return False
        if isinstance(a, SBool) or isinstance(b, SBool):
            if isinstance(a, SBool):
                return a == b
            return b == a
        r = a == b
        return r
    return a == b


# ----------------------------------------------------------------------------
# broadcasting
# ----------------------------------------------------------------------------
def broadcast_shapes(s1, s2):
    n = builtins.max(len(s1), len(s2))
    a = (1,) * (n - len(s1)) + tuple(s1)
    b = (1,) * (n - len(s2)) + tuple(s2)
    out = []
    for x, y in zip(a, b):
        if x == y or y == 1:
            out.append(x)
        elif x == 1:
            out.append(y)
        else:
            raise ValueError(f"operands could not be broadcast together with shapes {s1} {s2}")
    return tuple(out)


def broadcast_to(a, shape):
    shape = tuple(shape)
    if a.shape == shape:
        return a
    n = len(shape)
    src = (1,) * (n - a.ndim) + a.shape
    for x, y in zip(src, shape):
        if x != y and x != 1:
            raise ValueError(f"cannot broadcast {a.shape} to {shape}")
    sst = []
    acc = 1
    for s in reversed(src):
        sst.append(acc)
        acc *= s
    sst = list(reversed(sst))
    out = []
    idx = [0] * n
    total = _prod(shape)
    for _ in range(total):
        off = 0
        for d in range(n):
            if src[d] != 1:
                off += idx[d] * sst[d]
        out.append(a._d[off])
        for d in range(n - 1, -1, -1):
            idx[d] += 1
            if idx[d] < shape[d]:
                break
            idx[d] = 0
    return ndarray(out, shape, a.dtype)


def broadcast(a, b):
    if a.shape == b.shape:
        return a, b
    shp = broadcast_shapes(a.shape, b.shape)
    return broadcast_to(a, shp), broadcast_to(b, shp)


def _reduce(a, axis, f, name, ident=None, pre=None):
    p = pre or (lambda x: x)
    if axis is None:
        if not a._d:
            if ident is None:
                raise ValueError(f"zero-size array to reduction operation {name} which has no identity")
            return ident
        acc = p(a._d[0])
        for x in a._d[1:]:
            acc = f(acc, p(x))
        return acc
    if axis < 0:
        axis += a.ndim
    if a.ndim == 1 and axis == 0:
        return _reduce(a, None, f, name, ident, pre)
    if a.ndim == 2:
        r, c = a.shape
        if axis == 0:
            if r == 0 and ident is None:
                raise ValueError(f"zero-size array to reduction operation {name} which has no identity")
            out = []
            for j in range(c):
                col = [a._d[i * c + j] for i in range(r)]
                out.append(_reduce(ndarray(col, (r,), a.dtype), None, f, name, ident, pre))
            return ndarray(out, (c,), None if out else a.dtype)
        if axis == 1:
            if c == 0 and ident is None:
                raise ValueError(f"zero-size array to reduction operation {name} which has no identity")
            out = [_reduce(ndarray(a._d[i * c:(i + 1) * c], (c,), a.dtype), None, f, name, ident, pre)
                   for i in range(r)]
            return ndarray(out, (r,), None if out else a.dtype)
    if a.ndim == 3:
        # reduce by moving through take
        n = a.shape[axis]
        if n == 0 and ident is None:
            raise ValueError(f"zero-size array to reduction operation {name} which has no identity")
        parts = [take_axis(a, axis, [i], True) for i in range(n)]
        acc = ndarray([p(x) for x in parts[0]._d], parts[0].shape, parts[0].dtype)
        for q in parts[1:]:
            acc = ndarray([f(x, p(y)) for x, y in zip(acc._d, q._d)], acc.shape, None)
        return acc
    raise ShimUnsupported("reduce on ndim > 3")


# ----------------------------------------------------------------------------
# array construction
# ----------------------------------------------------------------------------
def _shape_of(v):
    if isnd(v):
        return v.shape
    if isinstance(v, _rnp.ndarray):
        return v.shape
    if isinstance(v, RecScalar):
        return (len(v),)
    if isinstance(v, (list, tuple)):
        if not v:
            return (0,)
        s0 = _shape_of(v[0])
        for e in v[1:]:
            if _shape_of(e) != s0:
                raise ValueError("setting an array element with a sequence. The requested array has an "
                                 "inhomogeneous shape")
        return (len(v),) + s0
    return ()


def _flat_of(v, out):
    if isnd(v):
        out.extend(v._d)
    elif isinstance(v, _rnp.ndarray):
        out.extend(v.ravel().tolist() if v.dtype.kind != "V" else list(v.ravel()))
    elif isinstance(v, RecScalar):
        out.extend(v.vals)
    elif isinstance(v, (list, tuple)):
        for e in v:
            _flat_of(e, out)
    else:
        out.append(_py(v))


def from_real(a):
    """real numpy array -> shim array (record arrays -> RecArray)"""
    if a.dtype.names:
        if a.ndim == 0:
            return RecScalar(list(a.dtype.names), [_py(a[n]) for n in a.dtype.names], as_dtype(a.dtype))
        return RecArray(list(a.dtype.names), [from_real(_rnp.asarray(a[n])) for n in a.dtype.names], as_dtype(a.dtype))
    return ndarray(a.ravel().tolist(), a.shape, as_dtype(a.dtype))


def array(x, dtype=None, copy=True, ndmin=0):
    d = as_dtype(dtype)
    if isinstance(d, RecDtype) and isinstance(x, (RecArray, list, _rnp.ndarray)) and not isinstance(x, tuple):
        return _rec_from(x, d)
    if hasattr(x, "_symx_payload"):
        x = x._symx_payload
    elif hasattr(x, "__array__") and not isnd(x) and not isinstance(x, (_rnp.ndarray, _rnp.generic)):
        x = _rnp.asarray(x)         # e.g. a real h5py dataset
    if isinstance(x, RecArray):
        return x
    if isinstance(d, RecDtype):
        if isinstance(x, tuple):
            return RecScalar(list(d.names), [cast_scalar(v, d.field(n)) if d.field(n).kind in "iuf" else v
                                             for n, v in zip(d.names, x)], d)
        if isinstance(x, _rnp.ndarray) and x.dtype.names:
            x = from_real(x)
        if isinstance(x, RecArray):
            if tuple(x.names) != tuple(d.names):
                raise ShimUnsupported("array() record dtype with different field names")
            return x.astype(d)
        if isinstance(x, list) and builtins.all(isinstance(r, (tuple, list)) and len(r) == len(d.names) for r in x):
            cols = [[r[j] for r in x] for j in range(len(d.names))]
            return fromarrays([ndarray(c, (len(c),), None) if c else ndarray([], (0,), d.field(n))
                               for c, n in zip(cols, d.names)], dtype=d)
        raise ShimUnsupported("array() with record dtype from this input")
    if isinstance(x, _rnp.ndarray):
        x = from_real(x)
        if isinstance(x, (RecArray, RecScalar)):
            return x
    if isnd(x):
        r = ndarray(list(x._d), x.shape, x.dtype)
        return r.astype(d) if d is not None and d is not x.dtype else r
    if isinstance(x, (set, frozenset, dict)) or hasattr(x, "__next__"):
        return ndarray([x], (), object_)
    if isinstance(x, range):
        x = list(x)
    shp = _shape_of(x)
    flat = []
    _flat_of(x, flat)
    r = ndarray(flat, shp, None)
    if builtins.any(isinstance(e, (bytes, str)) for e in flat):
        r.dtype = bytes_ if builtins.all(isinstance(e, bytes) for e in flat) else (
            str_ if builtins.all(isinstance(e, str) for e in flat) else object_)
    if d is not None and d is not r.dtype:
        r = r.astype(d)
    if ndmin == 2 and r.ndim < 2:
        r = ndarray(r._d, (1,) * (2 - r.ndim) + r.shape, r.dtype)
    return r


def _rec_from(x, d):
    if isinstance(x, _rnp.ndarray) and x.dtype.names:
        x = from_real(x)
    if isinstance(x, RecArray):
        if tuple(x.names) != tuple(d.names):
            raise ShimUnsupported("array() record dtype with different field names")
        return x.astype(d)
    if isinstance(x, list) and builtins.all(isinstance(r, (tuple, list)) and len(r) == len(d.names) for r in x):
        cols = [[r[j] for r in x] for j in range(len(d.names))]
        return fromarrays([ndarray(c, (len(c),), None) if c else ndarray([], (0,), d.field(n))
                           for c, n in zip(cols, d.names)], dtype=d)
    raise ShimUnsupported("array() with record dtype from this input")


def asarray(x, dtype=None):
    if isinstance(x, (RecArray, RecScalar)) and dtype is None:
        return x
    if isnd(x) and (dtype is None or as_dtype(dtype) is x.dtype):
        return x
    return array(x, dtype)


# ----------------------------------------------------------------------------
# record arrays
# ----------------------------------------------------------------------------
class RecScalar:
    """0-d structured value (origin, collar, one row of a record array)"""
    __hash__ = None

    def __init__(self, names, vals, dt=None):
        self.names = list(names)
        self.vals = list(vals)
        self.dtype = dt or RecDtype([(n, scalar_dtype(v)) for n, v in zip(names, vals)])
        self.shape = ()
        self.ndim = 0

    def __getitem__(self, k):
        if isinstance(k, str):
            return self.vals[self.names.index(k)]
        if isinstance(k, SInt):
            k = k.__index__()
        return self.vals[k]

    def __setitem__(self, k, v):
        if isinstance(k, str):
            k = self.names.index(k)
        self.vals[k] = _py(v) if not isnd(v) else v.item()

    def tolist(self):
        return tuple(self.vals)

    def item(self):
        return tuple(self.vals)

    def __len__(self):
        return len(self.vals)

    def __iter__(self):
        return iter(self.vals)

    def view(self, dt):
        d = as_dtype(dt)
        return ndarray([cast_scalar(v, d) for v in self.vals], (len(self.vals),), d)

    def copy(self):
        return RecScalar(self.names, list(self.vals), self.dtype)

    def astype(self, dt):
        return self

    def __eq__(self, o):
        if isinstance(o, RecScalar):
            return And([eq_(a, b) for a, b in zip(self.vals, o.vals)])
        return NotImplemented

    def __repr__(self):
        return f"rec{tuple(self.vals)!r}"


class _RecMeta(_NdMeta):
    pass


class RecArray(ndarray):
    """1-d structured array with write-through column views"""

    def __init__(self, names, cols, dt=None):
        self.names = list(names)
        self.cols = {}
        for n, c in zip(names, cols):
            if not isnd(c):
                c = array(list(c)) if len(c) else ndarray([], (0,), dt.field(n) if dt else float64)
            self.cols[n] = c
        n0 = self.cols[self.names[0]].shape[0] if self.names else 0
        self.shape = (n0,)
        self.dtype = dt or RecDtype([(n, self.cols[n].dtype) for n in self.names])
        self._d = None

    @property
    def size(self):
        return self.shape[0]

    def __len__(self):
        return self.shape[0]

    def _row(self, i):
        return RecScalar(self.names, [self.cols[n]._d[i] for n in self.names], self.dtype)

    def _select(self, idx):
        return RecArray(self.names, [ndarray([self.cols[n]._d[i] for i in idx], (len(idx),), self.cols[n].dtype)
                                     for n in self.names], self.dtype)

    def __getitem__(self, k):
        if isinstance(k, str):
            return self.cols[k]
        if isinstance(k, list) and k and builtins.all(isinstance(s, str) for s in k):
            return RecArray(k, [self.cols[n] for n in k], RecDtype([(n, self.dtype.field(n)) for n in k]))
        if isinstance(k, (_pyint, SInt, _rnp.integer)) or (isnd(k) and k.ndim == 0):
            k = k.__index__()
            if k < 0:
                k += self.shape[0]
            if not 0 <= k < self.shape[0]:
                raise IndexError("index out of bounds")
            return self._row(k)
        pos = _positions_1d(self.shape[0], k)
        pos = [p.__index__() if isinstance(p, SInt) else p for p in pos]
        return self._select(pos)

    def __setitem__(self, k, v):
        if isinstance(k, str):
            col = self.cols[k]
            col[slice(None)] = v
            return
        raise ShimUnsupported("record array row assignment")

    def __iter__(self):
        return iter([self._row(i) for i in range(self.shape[0])])

    def tolist(self):
        return [tuple(self.cols[n]._d[i] for n in self.names) for i in range(self.shape[0])]

    def astype(self, dt, copy=True):
        d = as_dtype(dt)
        if isinstance(d, RecDtype):
            if d.names != tuple(self.names):
                raise ShimUnsupported("record astype with different names")
            return RecArray(self.names, [self.cols[n].astype(d.field(n)) for n in self.names], d)
        raise ShimUnsupported("record astype to scalar dtype")

    def copy(self):
        return RecArray(self.names, [self.cols[n].copy() for n in self.names], self.dtype)

    def __deepcopy__(self, memo):
        return self.copy()

    def view(self, dt=None):
        d = as_dtype(dt)
        if isinstance(d, RecDtype) or d is None:
            return self
        if not builtins.all(self.cols[n].dtype is d for n in self.names):
            raise ShimUnsupported(f"view of mixed record array as {dt}")
        flat = []
        for i in range(self.shape[0]):
            for n in self.names:
                flat.append(self.cols[n]._d[i])
        return ndarray(flat, (len(flat),), d)

    def flatten(self, order="C"):
        return self.copy()

    ravel = flatten

    def __eq__(self, o):
        raise ShimUnsupported("record array comparison")

    def __repr__(self):
        return f"srec({self.tolist()!r})"


def fromarrays(cols, dtype=None, names=None, formats=None):
    if isinstance(names, str):
        names = [n.strip() for n in names.split(",")]
    d = as_dtype(dtype) if dtype is not None else None
    if isnd(cols):
        cols = cols.rows()
    cols = list(cols)
    if d is None:
        if names is None:
            raise ShimUnsupported("fromarrays without names")
        fmts = None
        if isinstance(formats, str):
            fmts = [as_dtype(f.strip()) for f in formats.split(",")]
        elif formats is not None:
            fmts = [as_dtype(f) for f in formats]
        arrs = [asarray(c) if isinstance(c, (ndarray, list, tuple, _rnp.ndarray)) else c for c in cols]
        d = RecDtype([(n, fmts[i] if fmts else (arrs[i].dtype if isinstance(arrs[i], ndarray) else scalar_dtype(arrs[i])))
                      for i, n in enumerate(names)])
    scalar = not builtins.any(isinstance(c, (ndarray, list, tuple, _rnp.ndarray)) for c in cols)
    if scalar:
        vals = [cast_list([_py(c)], None, d.field(n))[0] if d.field(n).kind in "iufb" else c
                for n, c in zip(d.names, cols)]
        return RecScalar(list(d.names), vals, d)
    out = []
    for n, c in zip(d.names, cols):
        a = asarray(c)
        if a.ndim != 1:
            a = a.flatten()
        fd = d.field(n)
        out.append(a.astype(fd) if fd.kind in "iufb" and fd is not a.dtype else a)
    lens = {c.shape[0] for c in out}
    if len(lens) > 1:
        raise ValueError("array-shape mismatch in array")
    return RecArray(list(d.names), out, d)


# ----------------------------------------------------------------------------
# indexing machinery
# ----------------------------------------------------------------------------
def _norm_index(n, k):
    """one (possibly symbolic) integer index -> normalised (raises IndexError like numpy)"""
    if isinstance(k, SInt):
        ok = And(k >= -n, k < n)
        if not _pybool(ok):
            raise IndexError(f"index is out of bounds for axis with size {n}")
        neg_ = k < 0
        if isinstance(neg_, _pybool):
            return k + n if neg_ else k
        if not _pybool(neg_):       # fork: negative indices are rare, keep terms simple
            return k
        return k + n
    k = k.__index__()
    if not -n <= k < n:
        raise IndexError(f"index {k} is out of bounds for axis with size {n}")
    return k + n if k < 0 else k


def _positions_1d(n, k):
    """selector for one axis of length n -> list of positions (python int or SInt)"""
    if isinstance(k, slice):
        st = [None if s is None else (s.__index__() if not isinstance(s, _pyint) else s)
              for s in (k.start, k.stop, k.step)]
        return list(range(*slice(*st).indices(n)))
    if isinstance(k, (list, tuple, _rnp.ndarray, range)):
        k = array(k) if not isnd(k) else k
    if isnd(k):
        if k.dtype.kind == "b":
            if k.ndim != 1 or k.shape[0] != n:
                raise IndexError(f"boolean index did not match indexed array; dimension is {n} "
                                 f"but corresponding boolean dimension is {k.shape}")
            return [i for i, m in enumerate(k._d) if _pybool(m)]       # forks on symbolic masks
        if k.dtype.kind not in "iu" and k.size:
            raise IndexError("arrays used as indices must be of integer (or boolean) type")
        return [_norm_index(n, e) for e in k._d]
    raise IndexError(f"unsupported index {type(k).__name__}")


def _gather(parts, idx):
    """parts: list of equally shaped element lists; idx: SInt already in range -> elementwise If-chain"""
    n = len(parts)
    acc = list(parts[-1])
    for j in range(n - 2, -1, -1):
        c = idx == j
        pj = parts[j]
        acc = [ite(c, a, b) for a, b in zip(pj, acc)]
    return acc


def take_axis(a, axis, positions, keep=True):
    """select positions (ints or SInts, in range) along axis"""
    shp = a.shape
    outer = _prod(shp[:axis])
    n = shp[axis]
    inner = _prod(shp[axis + 1:])
    out = []
    d = a._d
    for o in range(outer):
        base = o * n * inner
        slabs = None
        for p in positions:
            if isinstance(p, SInt):
                if slabs is None:
                    slabs = [d[base + i * inner: base + (i + 1) * inner] for i in range(n)]
                out.extend(_gather(slabs, p))
            else:
                out.extend(d[base + p * inner: base + (p + 1) * inner])
    if keep:
        nshp = shp[:axis] + (len(positions),) + shp[axis + 1:]
    else:
        nshp = shp[:axis] + shp[axis + 1:]
    return ndarray(out, nshp, a.dtype)


def _is_scalar_index(k):
    return isinstance(k, (_pyint, SInt, _rnp.integer)) or (isnd(k) and k.ndim == 0 and k.dtype.kind in "iu")


def _getitem(a, key):
    if not isinstance(key, tuple):
        key = (key,)
    # full boolean mask
    if len(key) == 1 and isinstance(key[0], (ndarray, _rnp.ndarray)) and a.ndim > 1:
        m = asarray(key[0])
        if m.dtype.kind == "b" and m.shape == a.shape:
            sel = [i for i, x in enumerate(m._d) if _pybool(x)]
            return ndarray([a._d[i] for i in sel], (len(sel),), a.dtype)
    if builtins.any(k is Ellipsis for k in key):
        i = [j for j, k in enumerate(key) if k is Ellipsis][0]
        nreal = len([k for k in key if k is not None and k is not Ellipsis])
        key = key[:i] + (slice(None),) * (a.ndim - nreal) + key[i + 1:]
    nreal = len([k for k in key if k is not None])
    if nreal > a.ndim:
        raise IndexError(f"too many indices for array: array is {a.ndim}-dimensional, but {nreal} were indexed")
    adv = [k for k in key if isinstance(k, (ndarray, list, _rnp.ndarray)) or
           (isinstance(k, tuple))]
    adv_int = [k for k in adv if asarray(k).dtype.kind != "b" or True]
    if len(adv) >= 2:
        return _getitem_zip(a, key)
    res = a
    axis = 0
    newaxes = []
    for k in key:
        if k is None:
            newaxes.append(axis)
            axis += 1
            continue
        n = res.shape[axis]
        if _is_scalar_index(k):
            if isnd(k):
                k = k.item()
            p = _norm_index(n, k)
            res = take_axis(res, axis, [p], keep=False)
            continue
        if isinstance(k, slice) and k == slice(None):
            axis += 1
            continue
        karr = None
        if isinstance(k, (ndarray, list, _rnp.ndarray)):
            karr = asarray(k) if not isinstance(k, list) else array(k)
            if isinstance(k, list) and not k:
                karr = ndarray([], (0,), int64)
        pos = _positions_1d(n, karr if karr is not None else k)
        res = take_axis(res, axis, pos, keep=True)
        if karr is not None and karr.dtype.kind != "b" and karr.ndim != 1:
            # index array of other rank replaces the axis by its shape
            nshp = res.shape[:axis] + karr.shape + res.shape[axis + 1:]
            res = ndarray(res._d, nshp, res.dtype)
            axis += karr.ndim
        else:
            axis += 1
    if newaxes:
        shp = list(res.shape)
        for ax in newaxes:
            shp.insert(ax, 1)
        res = ndarray(res._d, tuple(shp), res.dtype)
    if res.ndim == 0:
        return res._d[0]
    return res


def _getitem_zip(a, key):
    """two or more advanced indices: numpy zips (broadcasts) them.  Supported: all advanced indices are
    1-d of equal length (or scalars), remaining keys are full slices."""
    key = list(key) + [slice(None)] * (a.ndim - len(key))
    advs = []
    for ax, k in enumerate(key):
        if isinstance(k, (ndarray, list, _rnp.ndarray, tuple)):
            arr = asarray(k) if not isinstance(k, (list, tuple)) else array(list(k))
            if arr.dtype.kind == "b":
                arr = ndarray(_positions_1d(a.shape[ax], arr), None or (len(_positions_1d(a.shape[ax], arr)),), int64)
            advs.append((ax, arr))
        elif _is_scalar_index(k):
            advs.append((ax, ndarray([k if not isnd(k) else k.item()], (1,), int64)))
        elif not (isinstance(k, slice) and k == slice(None)):
            raise ShimUnsupported("mixed slice + multiple advanced indices")
    m = builtins.max(x.size for _, x in advs)
    if builtins.any(x.ndim > 1 for _, x in advs):
        raise ShimUnsupported("multi-dimensional zipped advanced indices")
    axes = [ax for ax, _ in advs]
    if axes != list(range(axes[0], axes[0] + len(axes))):
        raise ShimUnsupported("non-adjacent advanced indices")
    rows = []
    for t in range(m):
        sub = a
        for (ax, arr) in reversed(advs):
            k = arr._d[t if arr.size > 1 else 0]
            sub = take_axis(sub, ax, [_norm_index(sub.shape[ax], k)], keep=False)
        rows.append(sub)
    if not rows:
        shp = a.shape[:axes[0]] + (0,) + a.shape[axes[-1] + 1:]
        return ndarray([], shp, a.dtype)
    if axes[0] == 0:
        flat = []
        for r in rows:
            flat.extend(r._d if isnd(r) else [r])
        return ndarray(flat, (m,) + rows[0].shape, a.dtype)
    raise ShimUnsupported("zipped advanced indices not on leading axes")


def _setitem(a, key, val):
    # positions = same key applied to an array of flat offsets
    offs = ndarray(list(range(len(a._d))), a.shape, int64)
    tgt = _getitem(offs, key)
    if not isnd(tgt):
        tgt = ndarray([tgt], (), int64)
    if isinstance(val, (RecArray, RecScalar)):
        raise ShimUnsupported("assigning records into a plain array")
    if isinstance(val, (list, tuple, _rnp.ndarray)):
        val = array(val)
    if isnd(val):
        if val.size == 1 and tgt.size != 1:
            vals = [val._d[0]] * tgt.size
        else:
            try:
                vals = broadcast_to(val, tgt.shape)._d
            except ValueError:
                # numpy allows dropping leading 1-axes of the value
                if val.size == tgt.size:
                    vals = val._d
                else:
                    raise ValueError(f"shape mismatch: value array of shape {val.shape} could not be broadcast "
                                     f"to indexing result of shape {tgt.shape}") from None
        src_dt = val.dtype
    else:
        v = _py(val)
        if a.dtype.kind in "iu" and isinstance(v, _pyfloat):
            if v != v:
                raise ValueError("cannot convert float NaN to integer")
            if v in (math.inf, -math.inf):
                raise OverflowError("cannot convert float infinity to integer")
        vals = [v] * tgt.size
        src_dt = scalar_dtype(v)
    if a.dtype.kind in "iufb" and src_dt.kind in "iufb":
        if not (src_dt is a.dtype):
            if a.dtype.kind in "iu" and builtins.any(isinstance(v, _pyfloat) and v != v for v in vals):
                raise ValueError("cannot convert float NaN to integer")
            vals = cast_list(vals, src_dt, a.dtype)
    elif a.dtype.kind in "iuf" and src_dt.kind in "OSU":
        vals = [cast_scalar(v, a.dtype) for v in vals]
    d = a._d
    for p, v in zip(tgt._d, vals):
        if isinstance(p, SInt):
            for q in range(len(d)):
                c = p == q
                if c is False:
                    continue
                d[q] = v if c is True else ite(c, v, d[q])
        else:
            d[p] = v
