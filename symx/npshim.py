"""symx numpy model, part 2: the module that is bound to the name ``np`` inside geoh5py modules."""
from __future__ import annotations

import builtins
import math

import numpy as _rnp
import z3

from . import nd
from .core import (Ctx, SBool, SInt, SReal, SNum, Sym, ShimUnsupported, ite, lift, mk, toreal, b2i, And, Or, Not)
from .nd import (ndarray, RecArray, RecScalar, RecDtype, dtype, array, asarray, as_dtype, issubdtype, promote,
                 bool_, int8, int16, int32, int64, uint8, uint16, uint32, uint64, float32, float64, object_, str_,
                 bytes_, intp, int_, float_, generic, number, integer, signedinteger, unsignedinteger, floating,
                 broadcast, broadcast_to, take_axis, cast_list, cast_scalar, truth, le, lt, eq_, fresh_real,
                 from_real, infer_dtype, scalar_dtype, _prod, _py, isnd)

_pyint, _pyfloat, _pybool = builtins.int, builtins.float, builtins.bool

nan = math.nan
inf = math.inf
pi = math.pi
newaxis = None
recarray = RecArray


def _a(x):
    if isinstance(x, _rnp.ndarray):
        return from_real(x)
    return x if isnd(x) else asarray(x)


# ---- creation -----------------------------------------------------------------
def _shape(n):
    if isinstance(n, (_pyint, SInt, _rnp.integer)):
        return (n.__index__(),)
    if isnd(n):
        return tuple(x.__index__() for x in n._d)
    return tuple(x.__index__() for x in n)


def full(shape, v, dtype=None):
    shp = _shape(shape)
    dt = as_dtype(dtype) or scalar_dtype(v)
    v = cast_scalar(v, dt) if dt.kind in "iufb" else v
    return ndarray([v] * _prod(shp), shp, dt)


def ones(shape, dtype=None):
    return full(shape, 1, as_dtype(dtype) or float64)


def zeros(shape, dtype=None):
    dt = as_dtype(dtype) or float64
    if isinstance(dt, RecDtype):
        raise ShimUnsupported("zeros with record dtype")
    return full(shape, 0, dt)


def empty(shape, dtype=None):
    dt = as_dtype(dtype) or float64
    shp = _shape(shape)
    if dt.kind == "f" and Ctx.cur is not None and Ctx.cur.mode == "sym":
        return ndarray([SReal(fresh_real()) for _ in range(_prod(shp))], shp, dt)
    return zeros(shp, dt)


def ones_like(a, dtype=None):
    a = _a(a)
    return ones(a.shape, dtype or a.dtype)


def zeros_like(a, dtype=None):
    a = _a(a)
    return zeros(a.shape, dtype or a.dtype)


def full_like(a, v, dtype=None):
    a = _a(a)
    return full(a.shape, v, dtype or a.dtype)


def arange(*args, dtype=None):
    args = [_py(x) for x in args]
    if builtins.any(isinstance(x, SReal) for x in args):
        raise ShimUnsupported("arange with symbolic real")
    if builtins.any(isinstance(x, SInt) for x in args):
        if len(args) == 1:
            n = args[0].__index__()
            return ndarray(list(range(n)), (n,), int64)
        if len(args) == 2:
            start, stop = args
            n = mk(lift(stop) - lift(start))
            if isinstance(n, SInt):
                n = n.__index__()
            n = builtins.max(n, 0)
            return ndarray([start + j for j in range(n)], (n,), int64)
        raise ShimUnsupported("arange with symbolic step")
    if builtins.any(isinstance(x, _pyfloat) for x in args):
        r = _rnp.arange(*args)
        return ndarray(r.tolist(), r.shape, as_dtype(dtype) or float64)
    r = list(range(*args))
    return ndarray(r, (len(r),), as_dtype(dtype) or int64)


def linspace(a, b, n):
    return from_real(_rnp.linspace(a, b, n))


def eye(n):
    return ndarray([1.0 if i == j else 0.0 for i in range(n) for j in range(n)], (n, n), float64)


# ---- stacking -----------------------------------------------------------------
def concatenate(parts, axis=0):
    parts = [p if isnd(p) else asarray(p) for p in parts]
    if builtins.any(isinstance(p, RecArray) for p in parts):
        if not builtins.all(isinstance(p, RecArray) for p in parts):
            raise ShimUnsupported("concatenate record with plain array")
        names = parts[0].names
        for p in parts[1:]:
            if p.names != names:
                raise TypeError("invalid type promotion with structured datatype(s)")
        cols = [concatenate([p.cols[n] for p in parts]) for n in names]
        return RecArray(names, cols, parts[0].dtype)
    if axis is None:
        parts = [p.flatten() for p in parts]
        axis = 0
    nd_ = parts[0].ndim
    if nd_ == 0:
        raise ValueError("zero-dimensional arrays cannot be concatenated")
    for p in parts:
        if p.ndim != nd_:
            raise ValueError("all the input array dimensions except for the concatenation axis must match exactly")
    if axis < 0:
        axis += nd_
    dt = None
    for p in parts:
        dt = promote(dt, p.dtype)
    base = parts[0].shape
    for p in parts[1:]:
        if p.shape[:axis] != base[:axis] or p.shape[axis + 1:] != base[axis + 1:]:
            raise ValueError("all the input array dimensions except for the concatenation axis must match exactly")
    parts = [p if p.dtype is dt else p.astype(dt) for p in parts]
    if axis == 0:
        flat = []
        for p in parts:
            flat.extend(p._d)
        return ndarray(flat, (builtins.sum(p.shape[0] for p in parts),) + base[1:], dt)
    outer = _prod(base[:axis])
    flat = []
    for o in range(outer):
        for p in parts:
            w = _prod(p.shape[axis:])
            flat.extend(p._d[o * w:(o + 1) * w])
    return ndarray(flat, base[:axis] + (builtins.sum(p.shape[axis] for p in parts),) + base[axis + 1:], dt)


def _atleast(p, n):
    p = p if isnd(p) else asarray(p)
    if isinstance(p, RecArray):
        return p
    if isinstance(p, RecScalar):
        return RecArray(p.names, [ndarray([v], (1,), p.dtype.field(nm)) for nm, v in zip(p.names, p.vals)], p.dtype)
    while p.ndim < n:
        p = ndarray(p._d, (1,) + p.shape, p.dtype)
    return p


def atleast_2d(p):
    return _atleast(p, 2)


def atleast_1d(p):
    return _atleast(p, 1)


def vstack(parts):
    parts = list(parts)
    if not parts:
        raise ValueError("need at least one array to concatenate")
    return concatenate([_atleast(p, 2) for p in parts], 0)


def hstack(parts):
    parts = [_atleast(p, 1) for p in parts]
    if not parts:
        raise ValueError("need at least one array to concatenate")
    if isinstance(parts[0], RecArray) or parts[0].ndim == 1:
        return concatenate(parts, 0)
    return concatenate(parts, 1)


def column_stack(parts):
    cols = []
    for p in parts:
        p = _a(p)
        if p.ndim < 2:
            p = ndarray(p._d, (p.size, 1), p.dtype)
        cols.append(p)
    return concatenate(cols, 1)


def stack(parts, axis=0):
    parts = [_a(p) for p in parts]
    if axis == 0:
        return concatenate([ndarray(p._d, (1,) + p.shape, p.dtype) for p in parts], 0)
    raise ShimUnsupported("stack axis != 0")


class _CClass:
    def __getitem__(self, k):
        if not isinstance(k, tuple):
            k = (k,)
        cols = []
        for c in k:
            if isinstance(c, slice):
                raise ShimUnsupported("np.c_ with slice")
            c = asarray(c) if not isnd(c) else c
            if c.ndim == 0:
                c = ndarray(c._d, (1, 1), c.dtype)
            elif c.ndim == 1:
                c = ndarray(c._d, (c.size, 1), c.dtype)
            cols.append(c)
        n = builtins.max(c.shape[0] for c in cols)
        cols = [broadcast_to(c, (n, c.shape[1])) if c.shape[0] == 1 and n != 1 and False else c for c in cols]
        return concatenate(cols, -1)


class _RClass:
    def __getitem__(self, k):
        if not isinstance(k, tuple):
            k = (k,)
        parts = []
        for c in k:
            if isinstance(c, slice):
                raise ShimUnsupported("np.r_ with slice")
            c = asarray(c) if not isnd(c) else c
            if c.ndim == 0:
                c = ndarray(c._d, (1,), c.dtype)
            parts.append(c)
        return concatenate(parts, 0)


c_ = _CClass()
r_ = _RClass()


def tile(a, reps):
    a = _a(a)
    if isinstance(reps, _pyint):
        reps = (reps,)
    if a.ndim == 1 and len(reps) == 1:
        return ndarray(a._d * reps[0], (a.size * reps[0],), a.dtype)
    if a.ndim <= 2 and len(reps) == 2:
        a2 = _atleast(a, 2)
        row = concatenate([a2] * reps[1], 1)
        return concatenate([row] * reps[0], 0)
    raise ShimUnsupported("tile")


def repeat(a, n, axis=None):
    a = _a(a)
    if isinstance(n, (ndarray, list)):
        ns = [x.__index__() for x in (_a(n)._d)]
    else:
        ns = None
        n = n.__index__()
    if axis is None:
        flat = a._d
        out = []
        for i, x in enumerate(flat):
            out.extend([x] * (ns[i] if ns else n))
        return ndarray(out, (len(out),), a.dtype)
    if axis == 0 or (axis == -1 and a.ndim == 1):
        rows = a.rows()
        out = []
        for i, r in enumerate(rows):
            for _ in range(ns[i] if ns else n):
                out.append(r)
        if a.ndim == 1:
            return ndarray(out, (len(out),), a.dtype)
        return concatenate([ndarray(r._d, (1,) + r.shape, r.dtype) for r in out], 0) if out else ndarray([], (0,) + a.shape[1:], a.dtype)
    if axis in (1, -1) and a.ndim == 2:
        return repeat(a.T, n, 0).T
    raise ShimUnsupported("repeat axis")


def kron(a, b):
    a, b = _a(a), _a(b)
    if a.ndim == 1 and b.ndim == 1:
        if a.dtype.kind == "b" and b.dtype.kind == "b":
            return ndarray([And(x, y) for x in a._d for y in b._d], (a.size * b.size,), bool_)
        return ndarray([nd.mul(x, y) for x in a._d for y in b._d], (a.size * b.size,), promote(a.dtype, b.dtype))
    raise ShimUnsupported("kron ndim")


def meshgrid(*xs, indexing="xy"):
    xs = [_a(x) for x in xs]
    if indexing != "xy":
        raise ShimUnsupported("meshgrid indexing=ij")
    if len(xs) == 2:
        x, y = xs
        nx, ny = x.size, y.size
        X = ndarray([x._d[i] for j in range(ny) for i in range(nx)], (ny, nx), x.dtype)
        Y = ndarray([y._d[j] for j in range(ny) for i in range(nx)], (ny, nx), y.dtype)
        return [X, Y]
    if len(xs) == 3:
        x, y, z = xs
        nx, ny, nz = x.size, y.size, z.size
        X = ndarray([x._d[i] for j in range(ny) for i in range(nx) for k in range(nz)], (ny, nx, nz), x.dtype)
        Y = ndarray([y._d[j] for j in range(ny) for i in range(nx) for k in range(nz)], (ny, nx, nz), y.dtype)
        Z = ndarray([z._d[k] for j in range(ny) for i in range(nx) for k in range(nz)], (ny, nx, nz), z.dtype)
        return [X, Y, Z]
    raise ShimUnsupported("meshgrid arity")


def expand_dims(a, axis):
    a = _a(a)
    if axis < 0:
        axis += a.ndim + 1
    return ndarray(a._d, a.shape[:axis] + (1,) + a.shape[axis:], a.dtype)


def squeeze(a):
    return _a(a).squeeze()


def ravel(a, order="C"):
    return _a(a).flatten(order)


def reshape(a, shp, order="C"):
    return _a(a).reshape(shp, order=order)


def transpose(a):
    return _a(a).T


def copy(a):
    return _a(a).copy()


def pad(a, width, mode="constant", constant_values=0):
    a = _a(a)
    if mode != "constant":
        raise ShimUnsupported("pad mode")
    if a.ndim == 1:
        if isinstance(width, _pyint):
            width = (width, width)
        if isinstance(width[0], (tuple, list)):
            width = width[0]
        l, r = width
        cv = constant_values
        if isinstance(cv, (tuple, list)):
            cl, cr = cv
        else:
            cl = cr = cv
        cl = cast_scalar(cl, a.dtype) if a.dtype.kind in "iufb" else cl
        cr = cast_scalar(cr, a.dtype) if a.dtype.kind in "iufb" else cr
        return ndarray([cl] * l + list(a._d) + [cr] * r, (a.size + l + r,), a.dtype)
    if a.ndim == 2:
        (t, b), (l, r) = width
        cv = cast_scalar(constant_values, a.dtype) if a.dtype.kind in "iufb" else constant_values
        rows = [list(x._d) for x in a.rows()]
        w = a.shape[1] + l + r
        out = []
        for _ in range(t):
            out.extend([cv] * w)
        for row in rows:
            out.extend([cv] * l + row + [cv] * r)
        for _ in range(b):
            out.extend([cv] * w)
        return ndarray(out, (a.shape[0] + t + b, w), a.dtype)
    raise ShimUnsupported("pad ndim")


# ---- selection ------------------------------------------------------------------
def where(c, x=None, y=None):
    c = _a(c)
    if x is None and y is None:
        if c.ndim == 1:
            sel = [i for i, m in enumerate(c._d) if _pybool(truth(m))]
            return (ndarray(sel, (len(sel),), int64),)
        if c.ndim == 2:
            rr, cc = [], []
            ncol = c.shape[1]
            for i, m in enumerate(c._d):
                if _pybool(truth(m)):
                    rr.append(i // ncol)
                    cc.append(i % ncol)
            return (ndarray(rr, (len(rr),), int64), ndarray(cc, (len(cc),), int64))
        raise ShimUnsupported("where ndim")
    xs = _a(x)
    ys = _a(y)
    shp = nd.broadcast_shapes(nd.broadcast_shapes(c.shape, xs.shape), ys.shape)
    cb, xb, yb = broadcast_to(c, shp), broadcast_to(xs, shp), broadcast_to(ys, shp)
    dt = promote(xs.dtype, ys.dtype)
    out = [ite(truth(m), p, q) for m, p, q in zip(cb._d, xb._d, yb._d)]
    out = cast_list(out, None, dt) if False else out
    return ndarray(out, shp, dt)


def nonzero(a):
    return where(a)


def argwhere(a):
    w = where(a)
    return column_stack(list(w))


def flatnonzero(a):
    return where(_a(a).flatten())[0]


def delete(a, idx, axis=None):
    a = _a(a)
    if axis is None:
        a = a.flatten()
        axis = 0
    if axis < 0:
        axis += a.ndim
    n = a.shape[axis] if not isinstance(a, RecArray) else a.shape[0]
    if isinstance(idx, slice):
        ids = list(range(*idx.indices(n)))
    elif isinstance(idx, (list, tuple, ndarray, _rnp.ndarray)):
        ia = _a(idx) if not isinstance(idx, (list, tuple)) else array(list(idx))
        if isinstance(idx, tuple) and len(idx) == 1 and isnd(idx[0]):
            ia = idx[0]
        if ia.dtype.kind == "b":
            if ia.size != n:
                raise ValueError("boolean array argument obj to delete must be one dimensional and match the axis length")
            ids = [i for i, m in enumerate(ia._d) if _pybool(m)]
        else:
            if ia.size and ia.dtype.kind not in "iu":
                raise IndexError("arrays used as indices must be of integer (or boolean) type")
            ids = list(ia._d)
    else:
        ids = [idx]
    # membership per position; symbolic ids give symbolic membership -> fork (shape depends on it)
    norm = []
    for k in ids:
        k = _py(k)
        if isinstance(k, SInt):
            ok = And(k >= -n, k < n)
            if not _pybool(ok):
                raise IndexError(f"index out of bounds for axis {axis} with size {n}")
            norm.append(k)
        else:
            k = k.__index__()
            if not -n <= k < n:
                raise IndexError(f"index {k} is out of bounds for axis {axis} with size {n}")
            norm.append(k + n if k < 0 else k)
    keep = []
    for i in range(n):
        hit = False
        for k in norm:
            if isinstance(k, SInt):
                hit = Or(hit, Or(k == i, k == i - n))
            elif k == i:
                hit = True
                break
        if not _pybool(hit):
            keep.append(i)
    if isinstance(a, RecArray):
        return a._select(keep)
    return take_axis(a, axis, keep, keep=True)


def insert(a, pos, vals, axis=None):
    a = _a(a)
    if a.ndim != 1:
        raise ShimUnsupported("insert ndim")
    pos = pos.__index__()
    v = _a(vals).flatten()._d if not isinstance(vals, (_pyint, _pyfloat, Sym)) else [vals]
    d = list(a._d)
    return ndarray(d[:pos] + list(v) + d[pos:], (len(d) + len(v),), a.dtype)


def append(a, vals, axis=None):
    a = _a(a)
    if axis is None:
        return concatenate([a.flatten(), _a(vals).flatten()], 0)
    return concatenate([a, _a(vals)], axis)


def take(a, idx, axis=None):
    a = _a(a)
    if axis is None:
        return a.flatten()[idx]
    key = (slice(None),) * axis + (idx,)
    return a[key]


# ---- reductions -------------------------------------------------------------------
def all(a, axis=None):
    return _a(a).all(axis)


def any(a, axis=None):
    return _a(a).any(axis)


def sum(a, axis=None):
    if isinstance(a, (list, tuple)) and not builtins.any(isinstance(x, (ndarray, list, tuple)) for x in a):
        acc = 0
        for x in a:
            acc = acc + b2i(x)
        return acc
    return _a(a).sum(axis)


def prod(a, axis=None):
    a = _a(a)
    acc = 1
    for x in a._d:
        acc = nd.mul(acc, x)
    return acc


def max(a, axis=None):
    return _a(a).max(axis)


def min(a, axis=None):
    return _a(a).min(axis)


amax = max
amin = min


def _drop_nan(a):
    a = _a(a)
    vals = [x for x in a._d if not (isinstance(x, _pyfloat) and x != x)]
    return ndarray(vals, (len(vals),), a.dtype)


def nanmax(a, axis=None):
    if axis is not None:
        raise ShimUnsupported("nanmax axis")
    return _drop_nan(a).max()


def nanmin(a, axis=None):
    if axis is not None:
        raise ShimUnsupported("nanmin axis")
    return _drop_nan(a).min()


def mean(a, axis=None):
    return _a(a).mean(axis)


def cumsum(a, axis=None):
    a = _a(a)
    if a.ndim != 1 and axis is not None:
        raise ShimUnsupported("cumsum axis")
    out, acc = [], 0
    for x in a.flatten()._d:
        acc = acc + b2i(x)
        out.append(acc)
    dt = a.dtype if a.dtype.kind == "f" else (int64 if a.dtype.kind in "bi" else a.dtype)
    return ndarray(out, (len(out),), dt)


def diff(a, axis=-1):
    a = _a(a)
    if a.ndim == 1:
        return ndarray([nd.sub(a._d[i + 1], a._d[i]) for i in range(a.size - 1)], (builtins.max(a.size - 1, 0),),
                       a.dtype)
    if a.ndim == 2 and axis == 0:
        return a[1:, :] - a[:-1, :]
    if a.ndim == 2 and axis in (1, -1):
        return a[:, 1:] - a[:, :-1]
    raise ShimUnsupported("diff ndim")


def _arg_along(fn, a, axis):
    """argmax / argmin of a 2-d array along one axis: one 1-d reduction per row (or column); forks on the comparisons
    because the result is used as an index"""
    if a.ndim != 2 or axis not in (0, 1, -1):
        raise ShimUnsupported("argmax/argmin axis on ndim != 2")
    rows, cols = a.shape
    out = []
    if axis == 0:
        for j in range(cols):
            out.append(_pyint(fn(ndarray([a._d[i * cols + j] for i in range(rows)], (rows,), a.dtype))))
        return ndarray(out, (cols,), int64)
    for i in range(rows):
        out.append(_pyint(fn(ndarray(a._d[i * cols:(i + 1) * cols], (cols,), a.dtype))))
    return ndarray(out, (rows,), int64)


def argmax(a, axis=None):
    a = _a(a)
    if axis is not None and a.ndim == 2:
        return _arg_along(argmax, a, axis)
    if (axis not in (None, 0, -1)) or a.ndim != 1:
        raise ShimUnsupported("argmax axis")
    if not a.size:
        raise ValueError("attempt to get argmax of an empty sequence")
    if a.dtype.kind == "b":
        res = 0
        none_before = True
        # first True (0 if none): build from the end
        for i in range(a.size - 1, -1, -1):
            res = ite(truth(a._d[i]), i, res)
        return res
    best, bi = a._d[0], 0
    for i in range(1, a.size):
        c = lt(best, a._d[i])
        bi = ite(c, i, bi)
        best = ite(c, a._d[i], best)
    return bi


def argmin(a, axis=None):
    a = _a(a)
    if axis is not None and a.ndim == 2:
        return _arg_along(argmin, a, axis)
    if (axis not in (None, 0, -1)) or a.ndim != 1:
        raise ShimUnsupported("argmin axis")
    if not a.size:
        raise ValueError("attempt to get argmin of an empty sequence")
    best, bi = a._d[0], 0
    for i in range(1, a.size):
        c = lt(a._d[i], best)
        bi = ite(c, i, bi)
        best = ite(c, a._d[i], best)
    return bi


# ---- sorting (forks: the permutation is made concrete per path) ----------------------
def _sort_perm(vals, stable=True):
    """insertion sort with forking comparisons -> permutation (stable)"""
    def isn(x):
        return isinstance(x, _pyfloat) and x != x

    def less(a, b):         # numpy sorts NaN last
        if isn(a):
            return False
        if isn(b):
            return True
        return _pybool(lt(a, b))
    order = []
    for i, v in enumerate(vals):
        pos = len(order)
        # find insertion point from the right: keep stability
        while pos > 0 and less(v, vals[order[pos - 1]]):
            pos -= 1
        order.insert(pos, i)
    return order


def argsort(a, axis=-1, kind=None):
    a = _a(a)
    if a.ndim != 1:
        raise ShimUnsupported("argsort ndim")
    p = _sort_perm(a._d)
    return ndarray(p, (len(p),), int64)


def sort(a, axis=-1, order=None):
    a = _a(a)
    if isinstance(a, RecArray):
        if order is None:
            raise ShimUnsupported("sort of a record array without order")
        key = order if isinstance(order, str) else order[0]
        return a._select(_sort_perm(a.cols[key]._d))
    if a.ndim == 1:
        p = _sort_perm(a._d)
        return ndarray([a._d[i] for i in p], a.shape, a.dtype)
    if a.ndim == 2:
        if axis in (-1, 1):
            rows = [sort(r) for r in a.rows()]
            return vstack(rows) if rows else a.copy()
        if axis == 0:
            return sort(a.T, 1).T
    raise ShimUnsupported("sort ndim")


def unique(a, return_index=False, return_inverse=False, return_counts=False, axis=None):
    a = _a(a)
    if axis is not None:
        raise ShimUnsupported("unique axis")
    flat = a.flatten()._d
    p = _sort_perm(flat)
    uniq, first, inverse, counts = [], [], [None] * len(flat), []
    for i in p:
        if uniq and _pybool(eq_(flat[i], uniq[-1])):
            counts[-1] += 1
        else:
            uniq.append(flat[i])
            first.append(i)
            counts.append(1)
        inverse[i] = len(uniq) - 1
    out = [ndarray(uniq, (len(uniq),), a.dtype)]
    if return_index:
        out.append(ndarray(first, (len(first),), int64))
    if return_inverse:
        out.append(ndarray(inverse, (len(inverse),), int64))
    if return_counts:
        out.append(ndarray(counts, (len(counts),), int64))
    return out[0] if len(out) == 1 else tuple(out)


def searchsorted(a, v, side="left"):
    a = _a(a)
    scalar = not isinstance(v, (ndarray, list, tuple, _rnp.ndarray))
    vs = [_py(v)] if scalar else _a(v).flatten()._d
    out = []
    for q in vs:
        cnt = 0
        for x in a._d:
            c = lt(x, q) if side == "left" else le(x, q)
            if _pybool(c):          # fork: result is used as an index
                cnt += 1
        out.append(cnt)
    if scalar:
        return out[0]
    return ndarray(out, _a(v).shape, int64)


def isin(a, b, invert=False):
    a = _a(a)
    bs = _a(b).flatten()._d if not isinstance(b, (set, frozenset)) else list(b)
    out = []
    for x in a._d:
        r = False
        for y in bs:
            r = Or(r, eq_(x, y))
        out.append(Not(r) if invert else r)
    return ndarray(out, a.shape, bool_)


in1d = isin


def intersect1d(a, b):
    a = unique(_a(a))
    m = isin(a, b)
    return a[m]


def array_equal(a, b):
    a, b = _a(a), _a(b)
    if a.shape != b.shape:
        return False
    return _pybool(And([eq_(x, y) for x, y in zip(a._d, b._d)]))


def allclose(a, b, rtol=1e-05, atol=1e-08, equal_nan=False):
    a, b = _a(a), _a(b)
    a, b = broadcast(a, b)
    res = True
    for x, y in zip(a._d, b._d):
        xn = isinstance(x, _pyfloat) and x != x
        yn = isinstance(y, _pyfloat) and y != y
        if xn or yn:
            if not (equal_nan and xn and yn):
                return False
            continue
        d = nd.abs_(nd.sub(x, y))
        res = And(res, le(d, nd.add(atol, nd.mul(rtol, nd.abs_(y)))))
    return _pybool(res)


def isclose(a, b, rtol=1e-05, atol=1e-08):
    a, b = broadcast(_a(a), _a(b))
    return ndarray([le(nd.abs_(nd.sub(x, y)), nd.add(atol, nd.mul(rtol, nd.abs_(y)))) for x, y in zip(a._d, b._d)],
                   a.shape, bool_)


# ---- elementwise math ----------------------------------------------------------------
def _ew1(f, dt=None):
    def g(a, *args, **kw):
        if isinstance(a, (ndarray, list, tuple, _rnp.ndarray)):
            a = _a(a)
            return ndarray([f(x) for x in a._d], a.shape, dt or a.dtype)
        return f(_py(a))
    return g


def _isnan1(x):
    if isinstance(x, Sym):
        return False            # symbolic reals are finite by construction
    if isinstance(x, (_pyfloat, _rnp.floating)):
        return x != x
    if isinstance(x, (_pyint, _pybool)):
        return False
    raise TypeError("ufunc 'isnan' not supported for the input types")


def _isfinite1(x):
    if isinstance(x, Sym):
        return True
    if isinstance(x, (_pyfloat, _pyint, _pybool, _rnp.number)):
        return math.isfinite(x)
    raise TypeError("ufunc 'isfinite' not supported for the input types")


def _isinf1(x):
    if isinstance(x, Sym):
        return False
    return isinstance(x, (_pyfloat, _rnp.floating)) and x in (math.inf, -math.inf)


def isnan(a):
    if isinstance(a, (ndarray, list, tuple, _rnp.ndarray)):
        a = _a(a)
        if a.dtype.kind in "OSU":
            raise TypeError("ufunc 'isnan' not supported for the input types")
        return ndarray([_isnan1(x) for x in a._d], a.shape, bool_)
    return _isnan1(_py(a))


isfinite = _ew1(_isfinite1, bool_)
isinf = _ew1(_isinf1, bool_)
abs = _ew1(nd.abs_)
absolute = abs


def _sign1(x):
    x = nd._num(x)
    if isinstance(x, Sym):
        return ite(x > 0, 1, ite(x < 0, -1, 0))
    return (x > 0) - (x < 0)


sign = _ew1(_sign1)


def _floor1(x):
    if isinstance(x, SReal):
        return SReal(z3.ToReal(z3.ToInt(x.e)))
    if isinstance(x, SInt):
        return x
    return _pyfloat(math.floor(x)) if math.isfinite(x) else x


def _ceil1(x):
    if isinstance(x, SReal):
        return SReal(-z3.ToReal(z3.ToInt(-x.e)))
    if isinstance(x, SInt):
        return x
    return _pyfloat(math.ceil(x)) if math.isfinite(x) else x


floor = _ew1(_floor1)
ceil = _ew1(_ceil1)


def _round1(x):
    """round half to even (numpy rint)"""
    if isinstance(x, SReal):
        f = z3.ToInt(x.e)
        fr = x.e - z3.ToReal(f)
        r = z3.If(fr < 0.5, f, z3.If(fr > 0.5, f + 1, z3.If(f % 2 == 0, f, f + 1)))
        return SReal(z3.ToReal(r))
    if isinstance(x, SBool):
        return x._i()
    if isinstance(x, (_pybool, _rnp.bool_)):
        return _pyint(x)
    if isinstance(x, (SInt, _pyint)):
        return x
    return _pyfloat(_rnp.round(x))


def round(a, decimals=0):
    if decimals != 0:
        if isnd(a) and builtins.any(isinstance(x, Sym) for x in a._d):
            raise ShimUnsupported("round with decimals on symbolic values")
        if isnd(a):
            return from_real(_rnp.round(_rnp.array(a.tolist()), decimals))
        return _rnp.round(a, decimals)
    return _ew1(_round1)(a)


around = round
rint = _ew1(_round1)


def modf(a):
    a = _a(a)
    fr, ip = [], []
    for x in a._d:
        x = nd._num(x)
        if isinstance(x, SReal):
            t = nd.trunc_term(x.e)
            ip.append(SReal(z3.ToReal(t)))
            fr.append(mk(x.e - z3.ToReal(t)))
        elif isinstance(x, SInt):
            ip.append(SReal(z3.ToReal(x.e)))
            fr.append(0.0)
        else:
            f, i = math.modf(x) if not (isinstance(x, _pyfloat) and math.isinf(x)) else (math.copysign(0.0, x), x)
            fr.append(f)
            ip.append(i)
    dt = a.dtype if a.dtype.kind == "f" else float64
    return ndarray(fr, a.shape, dt), ndarray(ip, a.shape, dt)


def _sqrt1(x):
    x = nd._num(x)
    if isinstance(x, Sym):
        c = Ctx.cur
        r = fresh_real("sqrt")
        c.add(z3.And(r >= 0, r * r == toreal(x.e)))
        return SReal(r)
    return math.sqrt(x) if x >= 0 else math.nan


sqrt = _ew1(_sqrt1, float64)


def square(a):
    a = _a(a)
    return a * a


def power(a, b):
    return _a(a) ** b


def _log2_1(x):
    x = nd._num(x)
    if isinstance(x, Sym):
        v = x.__index__() if isinstance(x, SInt) else None
        if v is None:
            raise ShimUnsupported("log2 of symbolic real")
        x = v
    return math.log2(x) if x > 0 else (-math.inf if x == 0 else math.nan)


log2 = _ew1(_log2_1, float64)


def _log1(x):
    x = nd._num(x)
    if isinstance(x, Sym):
        raise ShimUnsupported("log of symbolic")
    return math.log(x)


log = _ew1(_log1, float64)
log10 = _ew1(lambda x: math.log10(nd._num(x)) if not isinstance(x, Sym) else (_ for _ in ()).throw(ShimUnsupported("log10")), float64)


def maximum(a, b):
    f = lambda x, y: ite(le(y, x), x, y)
    if isnd(a) or isnd(b):
        return _a(a)._ew(b, f)
    return f(_py(a), _py(b))


def minimum(a, b):
    f = lambda x, y: ite(le(x, y), x, y)
    if isnd(a) or isnd(b):
        return _a(a)._ew(b, f)
    return f(_py(a), _py(b))


def clip(a, lo, hi):
    return minimum(maximum(a, lo), hi)


def logical_or(a, b):
    return _a(a) | b


def logical_and(a, b):
    return _a(a) & b


def logical_not(a):
    a = _a(a)
    return ndarray([Not(truth(x)) for x in a._d], a.shape, bool_)


def divide(a, b, out=None, where=True):
    a, b = _a(a), _a(b)
    a, b = broadcast(a, b)
    if where is True:
        return a / b
    w = broadcast_to(_a(where), a.shape)
    res = []
    for i, (x, y, m) in enumerate(zip(a._d, b._d, w._d)):
        if _pybool(truth(m)):
            res.append(nd.div(x, y))
        elif out is not None:
            res.append(out._d[i])
        else:
            # numpy leaves these slots uninitialised: an arbitrary value
            c = Ctx.cur
            res.append(SReal(fresh_real()) if c is not None and c.mode == "sym" else 0.0)
    r = ndarray(res, a.shape, float64)
    if out is not None:
        out._d[:] = r._d
        return out
    return r


true_divide = divide


def multiply(a, b):
    return _a(a) * b


def add(a, b):
    return _a(a) + b


def subtract(a, b):
    return _a(a) - b


def dot(a, b):
    a, b = _a(a), _a(b)
    if a.ndim == 1 and b.ndim == 1:
        acc = 0
        for x, y in zip(a._d, b._d):
            acc = nd.add(acc, nd.mul(x, y))
        return acc
    if a.ndim == 2 and b.ndim == 1:
        return dot(a, ndarray(b._d, (b.size, 1), b.dtype)).flatten()
    if a.ndim == 1 and b.ndim == 2:
        return dot(ndarray(a._d, (1, a.size), a.dtype), b).flatten()
    if a.ndim == 2 and b.ndim == 2:
        if a.shape[1] != b.shape[0]:
            raise ValueError(f"shapes {a.shape} and {b.shape} not aligned")
        n, m, p = a.shape[0], a.shape[1], b.shape[1]
        out = []
        for i in range(n):
            for j in range(p):
                acc = 0
                for k in range(m):
                    x, y = a._d[i * m + k], b._d[k * p + j]
                    if (not isinstance(x, Sym) and x == 0) or (not isinstance(y, Sym) and y == 0):
                        continue
                    acc = nd.add(acc, nd.mul(x, y))
                out.append(acc if not (isinstance(acc, _pyint) and not isinstance(acc, _pybool)) else _pyfloat(acc)
                           if promote(a.dtype, b.dtype).kind == "f" else acc)
        return ndarray(out, (n, p), promote(a.dtype, b.dtype))
    raise ShimUnsupported("dot ndim")


matmul = dot


def cross(a, b):
    a, b = _a(a), _a(b)
    if a.shape == (3,) and b.shape == (3,):
        x = a._d
        y = b._d
        return ndarray([x[1] * y[2] - x[2] * y[1], x[2] * y[0] - x[0] * y[2], x[0] * y[1] - x[1] * y[0]], (3,), None)
    raise ShimUnsupported("cross shape")


# ---- trigonometry: never interpreted (uninterpreted functions of the degree value) ----
_COSD = z3.Function("cosd", z3.RealSort(), z3.RealSort())
_SIND = z3.Function("sind", z3.RealSort(), z3.RealSort())
_COSR = z3.Function("cosr", z3.RealSort(), z3.RealSort())
_SINR = z3.Function("sinr", z3.RealSort(), z3.RealSort())
TRIG_OVERRIDE = {}     # harnesses may map a degree/radian term (by z3 term id) to a (cos, sin) pair


class Deg:
    """result of deg2rad(x) for symbolic x: remembers the degree value"""

    def __init__(self, x):
        self.x = x

    def __neg__(self):
        return Deg(-self.x)


def deg2rad(x):
    if isnd(x):
        if builtins.any(isinstance(v, Sym) for v in x._d):
            return ndarray([Deg(v) if isinstance(v, Sym) else Deg(v) for v in x._d], x.shape, object_)
        return ndarray([math.radians(v) for v in x._d], x.shape, float64)
    x = _py(x)
    if isinstance(x, Sym):
        return Deg(x)
    return math.radians(x)


radians = deg2rad


def rad2deg(x):
    x = _py(x)
    if isinstance(x, Deg):
        return x.x
    if isinstance(x, Sym):
        raise ShimUnsupported("rad2deg of symbolic")
    return math.degrees(x)


def _trig1(x, which):
    if isinstance(x, Deg):
        v = x.x
        if not isinstance(v, Sym):
            return math.cos(math.radians(v)) if which == 0 else math.sin(math.radians(v))
        key = v.e.get_id()
        if key in TRIG_OVERRIDE:
            return TRIG_OVERRIDE[key][which]
        return SReal((_COSD if which == 0 else _SIND)(toreal(v.e)))
    x = nd._num(x)
    if isinstance(x, Sym):
        key = x.e.get_id()
        if key in TRIG_OVERRIDE:
            return TRIG_OVERRIDE[key][which]
        return SReal((_COSR if which == 0 else _SINR)(toreal(x.e)))
    return math.cos(x) if which == 0 else math.sin(x)


def cos(x):
    if isnd(x):
        return ndarray([_trig1(v, 0) for v in x._d], x.shape, float64)
    return _trig1(_py(x), 0)


def sin(x):
    if isnd(x):
        return ndarray([_trig1(v, 1) for v in x._d], x.shape, float64)
    return _trig1(_py(x), 1)


def arctan2(y, x):
    if isinstance(y, Sym) or isinstance(x, Sym):
        raise ShimUnsupported("arctan2 symbolic")
    return math.atan2(y, x)


# ---- linalg ------------------------------------------------------------------------------
class _Linalg:
    @staticmethod
    def norm(a, axis=None):
        a = _a(a)
        if axis is None:
            acc = 0
            for x in a._d:
                acc = nd.add(acc, nd.mul(x, x))
            return _sqrt1(acc)
        if a.ndim == 2 and axis in (1, -1):
            return ndarray([_Linalg.norm(r) for r in a.rows()], (a.shape[0],), float64)
        if a.ndim == 2 and axis == 0:
            return _Linalg.norm(a.T, 1)
        raise ShimUnsupported("norm axis")


linalg = _Linalg()


# ---- records --------------------------------------------------------------------------------
class _Records:
    fromarrays = staticmethod(nd.fromarrays)


class _Core:
    records = _Records


core = _Core
rec = _Records


# ---- char ---------------------------------------------------------------------------------------
class _Char:
    @staticmethod
    def encode(a, encoding="utf-8"):
        a = _a(a)
        return ndarray([x.encode(encoding) if isinstance(x, str) else x for x in a._d], a.shape, bytes_)

    @staticmethod
    def decode(a, encoding="utf-8"):
        a = _a(a)
        return ndarray([x.decode(encoding) if isinstance(x, bytes) else x for x in a._d], a.shape, str_)


char = _Char


class _Testing:
    @staticmethod
    def assert_array_almost_equal(a, b, decimal=6):
        if not allclose(a, b, rtol=0, atol=1.5 * 10 ** (-decimal)):
            raise AssertionError("Arrays are not almost equal")

    assert_almost_equal = assert_array_almost_equal


testing = _Testing


class _IInfo:
    def __init__(self, dt):
        self.min, self.max = dt.range()
        self.bits = dt.bits
        self.dtype = dt


def iinfo(dt):
    return _IInfo(as_dtype(dt))


class _FInfo:
    def __init__(self, dt):
        fi = _rnp.finfo(dt.name)
        self.min, self.max, self.eps, self.tiny = float(fi.min), float(fi.max), float(fi.eps), float(fi.tiny)


def finfo(dt):
    return _FInfo(as_dtype(dt))


def isscalar(x):
    return isinstance(x, (_pyint, _pyfloat, _pybool, Sym, str, bytes, _rnp.generic))


def ndim(x):
    return _a(x).ndim


def shape(x):
    return _a(x).shape


def size(x):
    return _a(x).size


def iterable(x):
    try:
        iter(x)
    except TypeError:
        return False
    return True


def count_nonzero(a):
    return sum(_a(a) != 0)


# exported scalar types (must be real classes: the code under analysis uses them in isinstance())
for _n, _t in nd.SCALAR_TYPES.items():
    globals()[_n] = _t
intp = int_ = nd.SCALAR_TYPES["int64"]
float_ = double = nd.SCALAR_TYPES["float64"]

# ---- set / order helpers built on the primitives above ------------------------------------------------------
def setdiff1d(a, b, assume_unique=False):
    a = _a(a).flatten() if assume_unique else unique(_a(a))
    return a[isin(a, b, invert=True)]


def union1d(a, b):
    return unique(concatenate([_a(a).flatten(), _a(b).flatten()]))


def flip(a, axis=None):
    a = _a(a)
    if a.ndim == 1:
        return a[::-1]
    if a.ndim == 2 and axis in (0, None):
        a = a[::-1, :]
        if axis == 0:
            return a
    if a.ndim == 2 and axis in (1, -1, None):
        return a[:, ::-1]
    raise ShimUnsupported("flip ndim/axis")


def flipud(a):
    return flip(a, 0)


def fliplr(a):
    return flip(a, 1)


def roll(a, shift, axis=None):
    a = _a(a)
    if a.ndim != 1 or not isinstance(_py(shift), _pyint):
        raise ShimUnsupported("roll ndim / symbolic shift")
    n = a.size
    if not n:
        return a.copy()
    k = _py(shift) % n
    return ndarray(a._d[n - k:] + a._d[:n - k], a.shape, a.dtype)


def empty_like(a, dtype=None):
    return zeros_like(a, dtype)


def nansum(a, axis=None):
    if axis is not None:
        raise ShimUnsupported("nansum axis")
    return _drop_nan(a).sum()


def nanmean(a, axis=None):
    if axis is not None:
        raise ShimUnsupported("nanmean axis")
    return _drop_nan(a).mean()


def ediff1d(a):
    return diff(_a(a).flatten())


def ptp(a, axis=None):
    if axis is not None:
        raise ShimUnsupported("ptp axis")
    a = _a(a)
    return nd.sub(a.max(), a.min())


def compress(cond, a, axis=None):
    if axis is not None:
        raise ShimUnsupported("compress axis")
    return _a(a).flatten()[_a(cond)]


def extract(cond, a):
    return _a(a).flatten()[_a(cond).flatten()]


def asanyarray(a, dtype=None):
    return asarray(a, dtype) if dtype is not None else asarray(a)


ascontiguousarray = asanyarray


def swapaxes(a, i, j):
    a = _a(a)
    if a.ndim == 2 and {i % 2, j % 2} == {0, 1}:
        return a.T
    raise ShimUnsupported("swapaxes ndim")


def identity(n, dtype=None):
    return eye(n) if dtype is None else eye(n).astype(dtype)


def outer(a, b):
    a, b = _a(a).flatten(), _a(b).flatten()
    return ndarray([nd.mul(x, y) for x in a._d for y in b._d], (a.size, b.size), promote(a.dtype, b.dtype))


def logical_xor(a, b):
    return logical_or(logical_and(a, logical_not(b)), logical_and(logical_not(a), b))


def equal(a, b):
    return _a(a) == b


def not_equal(a, b):
    return _a(a) != b


def less(a, b):
    return _a(a) < b


def less_equal(a, b):
    return _a(a) <= b


def greater(a, b):
    return _a(a) > b


def greater_equal(a, b):
    return _a(a) >= b


class errstate:
    def __init__(self, **kw):
        pass

    def __enter__(self):
        return self

    def __exit__(self, *a):
        return False


def cumprod(a, axis=None):
    a = _a(a)
    if a.ndim != 1 and axis is not None:
        raise ShimUnsupported("cumprod axis")
    out, acc = [], 1
    for x in a.flatten()._d:
        acc = nd.mul(acc, b2i(x))
        out.append(acc)
    return ndarray(out, (len(out),), a.dtype if a.dtype.kind == "f" else int64)



def __getattr__(name):
    raise ShimUnsupported(f"numpy.{name} is not modelled")
