"""Rebinding of module globals of the imported geoh5py tree (np, h5py, float/int, max/min) and the seams."""
from __future__ import annotations

import builtins
import contextlib
import sys

import numpy as real_np

from . import npshim
from .core import SBool, SInt, SReal, Sym, ite, lift  # noqa: F401
from . import nd


# -- stand-ins for builtin types used in isinstance()/conversion inside setters ---------------
class _FloatMeta(type):
    def __instancecheck__(cls, x):
        return builtins.isinstance(x, (builtins.float, SReal))


class SymFloat(metaclass=_FloatMeta):
    __name__ = "float"

    def __new__(cls, x=0.0):
        if builtins.isinstance(x, SReal):
            return x
        if builtins.isinstance(x, SInt):
            return nd.cast_scalar(x, nd.float64)
        if builtins.isinstance(x, nd.ndarray):
            x = x.item()
            return SymFloat(x)
        return builtins.float(x)


class _IntMeta(type):
    def __instancecheck__(cls, x):
        return builtins.isinstance(x, (builtins.int, SInt))


class SymInt(metaclass=_IntMeta):
    __name__ = "int"

    def __new__(cls, x=0, *a):
        if builtins.isinstance(x, SInt):
            return x
        if builtins.isinstance(x, SReal):
            return nd.mk(nd.trunc_term(x.e))
        if builtins.isinstance(x, nd.ndarray):
            return SymInt(x.item())
        return builtins.int(x, *a)


class _BoolMeta(type):
    def __instancecheck__(cls, x):
        return builtins.isinstance(x, (builtins.bool, SBool))


class SymBool(metaclass=_BoolMeta):
    __name__ = "bool"

    def __new__(cls, x=False):
        if builtins.isinstance(x, SBool):
            return x
        if builtins.isinstance(x, (SInt, SReal)):
            return x != 0
        return builtins.bool(x)


def sym_max(*args, **kw):
    if len(args) == 1:
        args = list(args[0])
    if not builtins.any(builtins.isinstance(a, Sym) for a in args) or kw:
        return builtins.max(*args, **kw)
    acc = args[0]
    for a in args[1:]:
        acc = ite(nd.le(a, acc), acc, a)
    return acc


def sym_min(*args, **kw):
    if len(args) == 1:
        args = list(args[0])
    if not builtins.any(builtins.isinstance(a, Sym) for a in args) or kw:
        return builtins.min(*args, **kw)
    acc = args[0]
    for a in args[1:]:
        acc = ite(nd.le(acc, a), acc, a)
    return acc


def sym_abs(x):
    if builtins.isinstance(x, Sym):
        return nd.abs_(x)
    return builtins.abs(x)


def sym_round(x, n=None):
    if builtins.isinstance(x, Sym):
        return npshim._round1(x) if not n else (_ for _ in ()).throw(nd.ShimUnsupported("round(x, n)"))
    return builtins.round(x, n) if n is not None else builtins.round(x)


DEFAULT_BUILTINS = {"max": sym_max, "min": sym_min, "float": SymFloat, "int": SymInt, "abs": sym_abs}

IO_PREFIXES = ("geoh5py.io.",)

STUBS_USED = set()


@contextlib.contextmanager
def shim_on(include_io=False, builtins_for=(), extra=None, np_module=None):
    """Rebind ``np`` in every imported geoh5py module (not geoh5py.io.* unless include_io) to the symbolic numpy
    model and inject If-building max/min and float/int stand-ins into the modules listed in builtins_for."""
    npm = np_module or npshim
    saved_np = {}
    saved_bi = []
    for name, mod in list(sys.modules.items()):
        if not name.startswith("geoh5py") or mod is None:
            continue
        if not include_io and name.startswith(IO_PREFIXES):
            continue
        if getattr(mod, "np", None) is real_np:
            saved_np[name] = mod.np
            mod.np = npm
    for name in builtins_for:
        only = None
        if ":" in name:
            name, only = name.split(":")
            only = only.split(",")
        mod = sys.modules[name]
        for k, v in DEFAULT_BUILTINS.items():
            if only is not None and k not in only:
                continue
            saved_bi.append((mod, k, mod.__dict__.get(k, _MISSING)))
            mod.__dict__[k] = v
            STUBS_USED.add(f"{name}.{k} -> symx.{v.__name__}")
    for (modname, k), v in (extra or {}).items():
        mod = sys.modules[modname]
        saved_bi.append((mod, k, mod.__dict__.get(k, _MISSING)))
        mod.__dict__[k] = v
        STUBS_USED.add(f"{modname}.{k} -> {getattr(v, '__name__', type(v).__name__)}")
    try:
        yield
    finally:
        for name, v in saved_np.items():
            sys.modules[name].np = v
        for mod, k, old in reversed(saved_bi):
            if old is _MISSING:
                mod.__dict__.pop(k, None)
            else:
                mod.__dict__[k] = old


_MISSING = object()


def detach(ws, *entities):
    """Seam A: cut the HDF5 write of a real in-memory workspace (instance-level, public names only)."""
    ws.save_entity = lambda *a, **k: None
    for e in entities:
        e.on_file = False
    STUBS_USED.add("Workspace.save_entity (instance) -> no-op; entity.on_file = False (seam A)")


def import_all():
    """import every geoh5py module that the harnesses may reach, so that shim_on sees them"""
    import geoh5py  # noqa: F401
    import geoh5py.workspace  # noqa: F401
    import geoh5py.objects  # noqa: F401
    import geoh5py.groups  # noqa: F401
    import geoh5py.data  # noqa: F401
    import geoh5py.shared.merging  # noqa: F401
    import geoh5py.shared.concatenation  # noqa: F401
    import geoh5py.shared.utils  # noqa: F401
