"""Seam B: a proxy over the *real* h5py file that additionally carries symbolic payloads.

The names ``h5py`` in geoh5py.workspace.workspace, geoh5py.shared.utils, geoh5py.io.h5_reader and
geoh5py.io.h5_writer are rebound to ``MODULE`` below.  ``MODULE.File(target, mode)`` opens the real h5py file and
wraps it; every group / dataset / attribute operation is delegated to real h5py, except that a dataset or attribute
whose value contains symbolic scalars is kept in a side store (keyed by HDF5 path) next to a real placeholder node, and
handed back unchanged when read (assumption A-H5: h5py's own conversions are not modelled for symbolic payloads;
concrete payloads go through real h5py).
"""
from __future__ import annotations

import contextlib
import sys

import h5py as real_h5py
import numpy as real_np

from . import nd
from .core import Sym

_STORES = {}       # id(target) -> {path: payload}
_KEEP = {}


def has_sym(x):
    if isinstance(x, Sym):
        return True
    if isinstance(x, nd.RecArray):
        return any(has_sym(c) for c in x.cols.values())
    if isinstance(x, nd.RecScalar):
        return any(isinstance(v, Sym) for v in x.vals)
    if nd.isnd(x):
        return any(isinstance(v, Sym) for v in x._d)
    if isinstance(x, (list, tuple)):
        return any(has_sym(v) for v in x)
    return False


def _real_rec_dtype(x):
    if getattr(x.dtype, "real", None) is not None:
        return real_np.dtype(x.dtype.real)
    return real_np.dtype([(n, x.dtype.field(n).str if x.dtype.field(n).kind in "biuf" else "O") for n in x.names])


def to_real(x):
    """model array without symbolic content -> real numpy value"""
    if isinstance(x, nd.RecArray):
        dt = _real_rec_dtype(x)
        out = real_np.zeros(x.shape[0], dtype=dt)
        for n in x.names:
            out[n] = x.cols[n].tolist()
        return out
    if isinstance(x, nd.RecScalar):
        return real_np.array(tuple(x.vals), dtype=_real_rec_dtype(x))
    if False:
        dt = real_np.dtype([(n, x.dtype.field(n).str if x.dtype.field(n).kind in "biuf" else "O") for n in x.names])
        out = real_np.zeros(x.shape[0], dtype=dt)
        for n in x.names:
            out[n] = x.cols[n].tolist()
        return out
    if isinstance(x, nd.RecScalar):
        dt = real_np.dtype([(n, x.dtype.field(n).str if x.dtype.field(n).kind in "biuf" else "O") for n in x.names])
        return real_np.array(tuple(x.vals), dtype=dt)
    if nd.isnd(x):
        k = x.dtype.kind
        if k in "biuf":
            return real_np.array(x.tolist(), dtype=x.dtype.name).reshape(x.shape)
        return real_np.array(x.tolist(), dtype="O").reshape(x.shape)
    if isinstance(x, (list, tuple)):
        return type(x)(to_real(v) for v in x)
    return x


class FakeDataset:
    """dataset node whose payload is symbolic"""

    def __init__(self, payload, real, path):
        self._symx_payload = payload
        self._real = real
        self.name = path
        self.attrs = real.attrs

    def __getitem__(self, k):
        p = self._symx_payload
        if k == () or k is Ellipsis or (isinstance(k, slice) and k == slice(None)):
            return p
        return p[k]

    def __len__(self):
        return len(self._symx_payload)

    def __iter__(self):
        return iter(self._symx_payload)

    @property
    def shape(self):
        return self._symx_payload.shape

    @property
    def dtype(self):
        return self._symx_payload.dtype

    @property
    def ndim(self):
        return len(self._symx_payload.shape)


class RealDataset:
    """dataset node with concrete content: everything is delegated to the real h5py dataset, but what is read from it is
    handed to the code under analysis as an array of the numpy model (a real numpy array would escape the model)"""

    def __init__(self, real):
        object.__setattr__(self, "_real", real)

    @staticmethod
    def _conv(v):
        rd = sys.modules.get("geoh5py.io.h5_reader")
        if rd is None or getattr(rd, "np", None) is real_np:
            return v            # the reader runs on real numpy right now (outside the engine): nothing to convert
        if isinstance(v, real_np.ndarray):
            if v.dtype.names and v.ndim == 0:
                return v
            from . import npshim
            try:
                return npshim._a(v)
            except Exception:  # noqa: BLE001 -- dtypes the model does not know stay real
                return v
        return v

    def __getitem__(self, k):
        return self._conv(self._real[k])

    @property
    def _symx_payload(self):
        return self._conv(self._real[()]) if self._real.shape == () else self._conv(self._real[:])

    def __len__(self):
        return len(self._real)

    def __iter__(self):
        return iter(self[:])

    def __getattr__(self, k):
        return getattr(self._real, k)

    def __setitem__(self, k, v):
        self._real[k] = to_real(v)

    def __eq__(self, o):
        return self._real == _unwrap(o)

    def __hash__(self):
        return hash(self._real)

    def __bool__(self):
        return bool(self._real)


class PAttrs:
    def __init__(self, real_attrs, path, store):
        self._r = real_attrs
        self._p = path + "@"
        self._s = store

    def create(self, key, value, dtype=None, **kw):
        if has_sym(value):
            self._s[self._p + key] = value
            self._r.create(key, 0)
            return
        self._s.pop(self._p + key, None)
        value = to_real(value)
        if isinstance(dtype, nd.RecDtype):
            dtype = None
        elif isinstance(dtype, nd.dtype):
            dtype = dtype.name if dtype.kind in "biuf" else None
        elif isinstance(dtype, type) and hasattr(dtype, "_dt"):
            dtype = dtype._dt.name
        if dtype is not None:
            self._r.create(key, value, dtype=dtype, **kw)
        else:
            self._r.create(key, value, **kw)

    def __setitem__(self, key, value):
        self.create(key, value)

    def modify(self, key, value):
        """h5py semantics: keep the attribute's existing dtype and cast the new value to it"""
        if key not in self._r:
            return self.create(key, value)
        if has_sym(value):
            if self._p + key not in self._s:
                old = real_np.asarray(self._r[key])
                if old.dtype.kind in "iu" and not isinstance(value, (list, tuple, nd.ndarray, nd.RecScalar)):
                    value = nd.cast_list([value], None, nd.as_dtype(old.dtype))[0]
            self._s[self._p + key] = value
            return None
        self._s.pop(self._p + key, None)
        return self._r.modify(key, to_real(value))

    def __getitem__(self, key):
        if self._p + key in self._s:
            return self._s[self._p + key]
        return self._r[key]

    def get(self, key, default=None):
        if self._p + key in self._s:
            return self._s[self._p + key]
        return self._r.get(key, default)

    def __contains__(self, key):
        return key in self._r

    def __delitem__(self, key):
        self._s.pop(self._p + key, None)
        del self._r[key]

    def __iter__(self):
        return iter(self._r)

    def keys(self):
        return self._r.keys()

    def items(self):
        return [(k, self[k]) for k in self._r.keys()]

    def values(self):
        return [self[k] for k in self._r.keys()]

    def __len__(self):
        return len(self._r)

    def pop(self, key, *d):
        try:
            v = self[key]
        except KeyError:
            if d:
                return d[0]
            raise
        del self[key]
        return v


def _unwrap(x):
    return x._r if isinstance(x, PNode) else (x._real if isinstance(x, (FakeDataset, RealDataset)) else x)


class PNode:
    """proxy of an h5py Group / File / Dataset"""

    def __init__(self, real, store):
        object.__setattr__(self, "_r", real)
        object.__setattr__(self, "_s", store)

    def _wrap(self, obj):
        if isinstance(obj, real_h5py.Dataset):
            if obj.name in self._s:
                return FakeDataset(self._s[obj.name], obj, obj.name)
            return RealDataset(obj)
        if isinstance(obj, (real_h5py.Group, real_h5py.File)):
            return PNode(obj, self._s)
        return obj

    @property
    def attrs(self):
        return PAttrs(self._r.attrs, self._r.name, self._s)

    @property
    def name(self):
        return self._r.name

    @property
    def file(self):
        return PNode(self._r.file, self._s)

    @property
    def parent(self):
        return PNode(self._r.parent, self._s)

    @property
    def mode(self):
        return self._r.mode

    @property
    def id(self):
        return self._r.id

    def __getitem__(self, k):
        return self._wrap(self._r[k])

    def get(self, k, default=None):
        if k in self._r:
            return self[k]
        return default

    def __setitem__(self, k, v):
        self._r[k] = _unwrap(v)
        if isinstance(v, FakeDataset):
            self._s[self._r[k].name] = v._symx_payload

    def __delitem__(self, k):
        try:
            node = self._r[k]
            nm = node.name
            for key in [q for q in self._s if q == nm or q.startswith(nm + "/") or q.startswith(nm + "@")]:
                del self._s[key]
        except KeyError:
            pass
        del self._r[k]

    def __contains__(self, k):
        return k in self._r

    def __iter__(self):
        return iter(self._r)

    def __len__(self):
        return len(self._r)

    def __bool__(self):
        return bool(self._r)

    def keys(self):
        return self._r.keys()

    def values(self):
        return [self[k] for k in self._r.keys()]

    def items(self):
        return [(k, self[k]) for k in self._r.keys()]

    def create_group(self, name, **kw):
        return PNode(self._r.create_group(name, **kw), self._s)

    def require_group(self, name):
        return PNode(self._r.require_group(name), self._s)

    def create_dataset(self, name, shape=None, dtype=None, data=None, **kw):
        if data is not None and has_sym(data):
            ph = self._r.create_dataset(name, data=0)
            self._s[ph.name] = data
            return FakeDataset(data, ph, ph.name)
        if data is not None:
            data = to_real(data)
        args = {}
        if shape is not None:
            args["shape"] = shape
        if isinstance(dtype, nd.RecDtype):
            dtype = dtype.real
        if dtype is not None:
            args["dtype"] = dtype if not isinstance(dtype, (nd.dtype,)) else dtype.name
        return RealDataset(self._r.create_dataset(name, data=data, **args, **kw))

    def close(self):
        return self._r.close()

    def flush(self):
        return self._r.flush()

    def __enter__(self):
        return self

    def __exit__(self, *a):
        self.close()

    def __getattr__(self, k):
        return getattr(self._r, k)

    def __eq__(self, o):
        return self._r == _unwrap(o)

    def __hash__(self):
        return hash(self._r)


class _FileMeta(type):
    def __instancecheck__(cls, x):
        if isinstance(x, PNode):
            return isinstance(x._r, real_h5py.File)
        return isinstance(x, real_h5py.File)

    def __call__(cls, target, mode="r", **kw):
        real = real_h5py.File(target, mode, **kw)
        key = id(target) if not isinstance(target, (str, bytes)) and not hasattr(target, "__fspath__") else str(target)
        _KEEP[key] = target
        store = _STORES.setdefault(key, {})
        return PNode(real, store)


class File(metaclass=_FileMeta):
    pass


class _GroupMeta(type):
    def __instancecheck__(cls, x):
        if isinstance(x, PNode):
            return isinstance(x._r, real_h5py.Group)
        return isinstance(x, real_h5py.Group)


class Group(metaclass=_GroupMeta):
    pass


class _DatasetMeta(type):
    def __instancecheck__(cls, x):
        return isinstance(x, (FakeDataset, RealDataset, real_h5py.Dataset))


class Dataset(metaclass=_DatasetMeta):
    pass


class _Module:
    File = File
    Group = Group
    Dataset = Dataset
    special_dtype = staticmethod(real_h5py.special_dtype)
    string_dtype = staticmethod(real_h5py.string_dtype)
    check_dtype = staticmethod(real_h5py.check_dtype)
    Empty = real_h5py.Empty

    def __getattr__(self, k):
        return getattr(real_h5py, k)


MODULE = _Module()

H5_MODULES = ("geoh5py.workspace.workspace", "geoh5py.shared.utils", "geoh5py.io.h5_reader", "geoh5py.io.h5_writer")


@contextlib.contextmanager
def h5_on():
    """rebind the name h5py in the geoh5py modules that open / test file handles"""
    saved = {}
    for m in H5_MODULES:
        mod = sys.modules[m]
        if getattr(mod, "h5py", None) is real_h5py:
            saved[m] = mod.h5py
            mod.h5py = MODULE
    try:
        yield
    finally:
        for m, v in saved.items():
            sys.modules[m].h5py = v


def store_of(target):
    key = id(target) if not isinstance(target, (str, bytes)) and not hasattr(target, "__fspath__") else str(target)
    return _STORES.get(key, {})


def reset():
    _STORES.clear()
    _KEEP.clear()
