#!/bin/sh
# Build the overlay venv used by every check (offline: wheels from /opt/veriftools/wheels).
set -e
cd "$(dirname "$0")"
if [ ! -x .venv/bin/python ] || ! .venv/bin/python -c "import z3, crosshair" 2>/dev/null; then
  rm -rf .venv
  /venv/bin/python -m venv .venv
  echo "import site; site.addsitedir('/venv/lib/python3.12/site-packages')" > .venv/lib/python3.12/site-packages/_verif_overlay.pth
  PIP_NO_INDEX=1 .venv/bin/pip install -q --no-index --find-links /opt/veriftools/wheels crosshair-tool z3-solver
fi
.venv/bin/python -c "import z3, crosshair, numpy, h5py, geoh5py; print('verif venv ok: z3', z3.get_version_string())"
