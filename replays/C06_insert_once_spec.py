from typing import List, Optional
import uuid
import warnings
import numpy as np
from geoh5py.shared import weakref_utils
from geoh5py.workspace import Workspace
from geoh5py.objects import Points, Curve
from geoh5py.groups import ContainerGroup

warnings.simplefilter("ignore")


class Obj:
    pass


_ALIVE = Obj()


class FakeRef:
    """stand-in for weakref.ref: a callable returning the referent or None"""

    def __init__(self, alive):
        self.alive = alive

    def __call__(self):
        return _ALIVE if self.alive else None


def _registry(keys, alive):
    return {k: FakeRef(a) for k, a in zip(keys, alive)}


U = [uuid.UUID(int=i + 1) for i in range(6)]


def _make(ws, kind, uid, parent=None):
    kw = {"uid": uid, "name": f"k{kind}"}
    if parent is not None:
        kw["parent"] = parent
    if kind == 0:
        return ContainerGroup.create(ws, **kw)
    if kind == 1:
        return Points.create(ws, vertices=np.zeros((2, 3)), **kw)
    if kind == 2:
        return Curve.create(ws, vertices=np.zeros((2, 3)), **kw)
    raise ValueError(kind)


def _snapshot(ws):
    return (sorted(str(e.uid) for e in ws.groups), sorted(str(e.uid) for e in ws.objects),
            sorted(str(e.uid) for e in ws.data))



def insert_once_spec(keys: List[int], alive: List[bool], key: int) -> bool:
    """
    pre: len(keys) == len(alive) and len(keys) <= 3
    pre: all(0 <= k < 4 for k in keys) and 0 <= key < 4
    pre: len(set(keys)) == len(keys)
    post: _
    """
    d = _registry(keys, alive)
    before = dict(d)
    new = Obj()
    try:
        weakref_utils.insert_once(d, key, new)
        raised = False
    except RuntimeError:
        raised = True
    should = any(k == key and a for k, a in zip(keys, alive))
    if raised != should:
        return False
    if raised:
        return d == before                       # a refused insert changes nothing
    if d[key]() is not new:
        return False
    return all(d[k] is before[k] for k in before if k != key) and len(d) == len(before) + (0 if key in before else 1)

def insert_once_spec__reach(keys: List[int], alive: List[bool], key: int) -> bool:
    """
    pre: len(keys) == len(alive) and len(keys) <= 3
    pre: all(0 <= k < 4 for k in keys) and 0 <= key < 4
    pre: len(set(keys)) == len(keys)
    post: False
    """
    d = _registry(keys, alive)
    before = dict(d)
    new = Obj()
    try:
        weakref_utils.insert_once(d, key, new)
        raised = False
    except RuntimeError:
        raised = True
    should = any(k == key and a for k, a in zip(keys, alive))
    if raised != should:
        return False
    if raised:
        return d == before                       # a refused insert changes nothing
    if d[key]() is not new:
        return False
    return all(d[k] is before[k] for k in before if k != key) and len(d) == len(before) + (0 if key in before else 1)



def get_clean_ref_spec(keys: List[int], alive: List[bool], key: int) -> bool:
    """
    pre: len(keys) == len(alive) and len(keys) <= 3
    pre: all(0 <= k < 4 for k in keys) and 0 <= key < 4
    pre: len(set(keys)) == len(keys)
    post: _
    """
    d = _registry(keys, alive)
    before = dict(d)
    got = weakref_utils.get_clean_ref(d, key)
    live = any(k == key and a for k, a in zip(keys, alive))
    if live:
        return got is _ALIVE and d == before
    if got is not None:
        return False                             # never returns a dead referent
    return d == {k: v for k, v in before.items() if k != key}

def get_clean_ref_spec__reach(keys: List[int], alive: List[bool], key: int) -> bool:
    """
    pre: len(keys) == len(alive) and len(keys) <= 3
    pre: all(0 <= k < 4 for k in keys) and 0 <= key < 4
    pre: len(set(keys)) == len(keys)
    post: False
    """
    d = _registry(keys, alive)
    before = dict(d)
    got = weakref_utils.get_clean_ref(d, key)
    live = any(k == key and a for k, a in zip(keys, alive))
    if live:
        return got is _ALIVE and d == before
    if got is not None:
        return False                             # never returns a dead referent
    return d == {k: v for k, v in before.items() if k != key}



def remove_none_referents_spec(keys: List[int], alive: List[bool]) -> bool:
    """
    pre: len(keys) == len(alive) and len(keys) <= 3
    pre: all(0 <= k < 4 for k in keys)
    pre: len(set(keys)) == len(keys)
    post: _
    """
    d = _registry(keys, alive)
    before = dict(d)
    weakref_utils.remove_none_referents(d)
    return d == {k: v for k, v in before.items() if v() is not None}

def remove_none_referents_spec__reach(keys: List[int], alive: List[bool]) -> bool:
    """
    pre: len(keys) == len(alive) and len(keys) <= 3
    pre: all(0 <= k < 4 for k in keys)
    pre: len(set(keys)) == len(keys)
    post: False
    """
    d = _registry(keys, alive)
    before = dict(d)
    weakref_utils.remove_none_referents(d)
    return d == {k: v for k, v in before.items() if v() is not None}




if __name__ == '__main__':
    from math import inf, nan
    import sys
    try:
        r = insert_once_spec([1], [True], 1)
    except BaseException as e:
        print('RAISED', repr(e)); r = False
    print('condition insert_once_spec:', r)
    if not r:
        print('VIOLATION property=C06 replay=' + __file__)
    sys.exit(0 if r else 1)
