from typing import Optional, Union, List
from copy import deepcopy
import json
import geoh5py.shared.utils as _U


_REAL_NP = _U.np


class _NP:
    """pure-Python stand-ins for the scalar numpy predicates on this path (np.isfinite in inf2str; isinf / isnan in case
    a refactor uses them); everything else is the real numpy: listed stub"""
    nan = _REAL_NP.nan
    inf = _REAL_NP.inf

    @staticmethod
    def isfinite(x):
        if isinstance(x, int):
            return True
        return not (x != x or x == float("inf") or x == float("-inf"))

    @staticmethod
    def isinf(x):
        if isinstance(x, int):
            return False
        return x == float("inf") or x == float("-inf")

    @staticmethod
    def isnan(x):
        if isinstance(x, int):
            return False
        return x != x

    def __getattr__(self, name):
        return getattr(_REAL_NP, name)


_U.np = _NP()
import geoh5py.ui_json.utils as _UU


class _P:
    """pure-Python stand-in for pathlib.Path(...).suffix on symbolic strings (CrossHair cannot run pathlib on them)"""

    def __init__(self, v):
        self.v = str(v)

    @property
    def suffix(self):
        name = self.v[self.v.rfind("/") + 1:]
        i = name.rfind(".")
        if 0 < i < len(name) - 1:
            return name[i:]
        return ""


_UU.Path = _P
from geoh5py.shared.utils import stringify, str2none, dict_mapper, str2uuid, as_str_if_uuid
from geoh5py.ui_json.utils import str2inf, flatten, set_enabled, path2workspace
from geoh5py.ui_json import InputFile

UUIDS = ["{11111111-2222-3333-4444-555555555555}", "{aaaaaaaa-bbbb-cccc-dddd-eeeeeeeeeeee}"]


def _is_json_value(v):
    """what json.dumps can write without inventing tokens (no NaN/inf, no UUID objects, string keys)"""
    if v is None or isinstance(v, (bool, int, str)):
        return True
    if isinstance(v, float):
        return v == v and v not in (float("inf"), float("-inf"))
    if isinstance(v, list):
        return all(_is_json_value(x) for x in v)
    if isinstance(v, dict):
        return all(isinstance(k, str) and _is_json_value(x) for k, x in v.items())
    return False


def _write_read(ui):
    """InputFile.write_ui_json / read_ui_json without the file: demote + stringify -> (JSON text) -> numify"""
    out = InputFile.stringify(InputFile.demote(ui))
    assert _is_json_value(out)
    return InputFile.numify(json.loads(json.dumps(out)) if False else deepcopy(out))


def _rt(v):
    s = stringify({"k": v})["k"]
    if not _is_json_value(s):
        return False
    back = dict_mapper(s, [str2none, str2inf, str2uuid, path2workspace])
    return back == v and type(back) is type(v)



def scalar_none_bool_str_roundtrip(v: Union[None, bool, str]) -> bool:
    """
    pre: not (isinstance(v, str) and v in ("", "inf", "-inf"))
    pre: not isinstance(v, str) or len(v) <= 2
    post: _
    """
    return _rt(v)

def scalar_none_bool_str_roundtrip__reach(v: Union[None, bool, str]) -> bool:
    """
    pre: not (isinstance(v, str) and v in ("", "inf", "-inf"))
    pre: not isinstance(v, str) or len(v) <= 2
    post: False
    """
    return _rt(v)

def scalar_none_bool_str_roundtrip__kf_F_C14_1(v: Union[None, bool, str]) -> bool:
    """
    pre: isinstance(v, str) and v in ("", "inf", "-inf")
    pre: not isinstance(v, str) or len(v) <= 2
    post: _
    """
    return _rt(v)



def scalar_keyword_like_strings_roundtrip(i: int) -> bool:
    """
    pre: 0 <= i < 16
    post: _
    """
    words = ["Inf", "INF", "-Inf", "iNf", "inf ", " inf", "+inf", "nan", "NaN", "None", "none", "true", "True", "false", "1e5", "0x10"]
    return _rt(words[i])

def scalar_keyword_like_strings_roundtrip__reach(i: int) -> bool:
    """
    pre: 0 <= i < 16
    post: False
    """
    words = ["Inf", "INF", "-Inf", "iNf", "inf ", " inf", "+inf", "nan", "NaN", "None", "none", "true", "True", "false", "1e5", "0x10"]
    return _rt(words[i])



def scalar_int_roundtrip(v: int) -> bool:
    """
    post: _
    """
    return _rt(v)

def scalar_int_roundtrip__reach(v: int) -> bool:
    """
    post: False
    """
    return _rt(v)



def scalar_int_roundtrip_32_digits(v: int) -> bool:
    """
    pre: 10**31 <= abs(v) < 10**32
    post: _
    """
    return _rt(v)

def scalar_int_roundtrip_32_digits__reach(v: int) -> bool:
    """
    pre: 10**31 <= abs(v) < 10**32
    post: False
    """
    return _rt(v)



def scalar_float_roundtrip(sel: int, v: float) -> bool:
    """
    pre: 0 <= sel < 3
    pre: v == v
    post: _
    """
    x = [v, float("inf"), float("-inf")][sel]
    return _rt(x)

def scalar_float_roundtrip__reach(sel: int, v: float) -> bool:
    """
    pre: 0 <= sel < 3
    pre: v == v
    post: False
    """
    x = [v, float("inf"), float("-inf")][sel]
    return _rt(x)



def list_of_strings_roundtrip(a: str, b: str, n: int) -> bool:
    """
    pre: not (any(x in ("inf", "-inf") for x in [a, b][:n]))
    pre: 0 <= n <= 2
    pre: len(a) == 1 and len(b) == 1
    post: _
    """
    return _rt([a, b][:n])

def list_of_strings_roundtrip__reach(a: str, b: str, n: int) -> bool:
    """
    pre: not (any(x in ("inf", "-inf") for x in [a, b][:n]))
    pre: 0 <= n <= 2
    pre: len(a) == 1 and len(b) == 1
    post: False
    """
    return _rt([a, b][:n])

def list_of_strings_roundtrip__kf_F_C14_1(a: str, b: str, n: int) -> bool:
    """
    pre: any(x in ("inf", "-inf") for x in [a, b][:n])
    pre: 0 <= n <= 2
    pre: len(a) == 1 and len(b) == 1
    post: _
    """
    return _rt([a, b][:n])



def list_of_bools_roundtrip(a: bool, b: bool, n: int) -> bool:
    """
    pre: 0 <= n <= 2
    post: _
    """
    return _rt([a, b][:n])

def list_of_bools_roundtrip__reach(a: bool, b: bool, n: int) -> bool:
    """
    pre: 0 <= n <= 2
    post: False
    """
    return _rt([a, b][:n])



def form_bool_roundtrip_value_and_enabled(vi: int, has_opt: bool, optional: bool, enabled: bool, has_group_opt: bool,
                                     group_enabled: bool) -> bool:
    """
    pre: not (has_group_opt and (group_enabled != (enabled if has_opt else True)))
    pre: 0 <= vi < 2
    post: _
    """
    kind = 0
    values = [[True, False, True], [0, -3, 7], [0.5, float("inf"), float("-inf")], ["abc", "a b", "x.y"],
              ["c1", "c2", "c1"], [UUIDS[0], UUIDS[1], UUIDS[0]]][kind]
    form = {"label": "lbl", "value": values[vi]}
    if kind == 4:
        form["choiceList"] = ["c1", "c2"]
    if kind == 5:
        form["meshType"] = [UUIDS[1]]
    if has_opt:
        form["optional"] = optional
        form["enabled"] = enabled
    ui = {"title": "t", "p": form}
    if has_group_opt:
        form["group"] = "G"
        ui["g"] = {"label": "g", "value": 1, "group": "G", "groupOptional": True, "enabled": group_enabled}
    a = InputFile(ui_json=deepcopy(ui), validate=False)
    da = a.data
    back = _write_read(a.ui_json)
    b = InputFile(ui_json=deepcopy(back), validate=False)
    db = b.data
    same_enabled = all(a.ui_json[k].get("enabled", True) == b.ui_json[k].get("enabled", True)
                       for k in ui if isinstance(ui[k], dict))
    return da == db and same_enabled and list(da) == list(db)

def form_bool_roundtrip_value_and_enabled__reach(vi: int, has_opt: bool, optional: bool, enabled: bool, has_group_opt: bool,
                                     group_enabled: bool) -> bool:
    """
    pre: not (has_group_opt and (group_enabled != (enabled if has_opt else True)))
    pre: 0 <= vi < 2
    post: False
    """
    kind = 0
    values = [[True, False, True], [0, -3, 7], [0.5, float("inf"), float("-inf")], ["abc", "a b", "x.y"],
              ["c1", "c2", "c1"], [UUIDS[0], UUIDS[1], UUIDS[0]]][kind]
    form = {"label": "lbl", "value": values[vi]}
    if kind == 4:
        form["choiceList"] = ["c1", "c2"]
    if kind == 5:
        form["meshType"] = [UUIDS[1]]
    if has_opt:
        form["optional"] = optional
        form["enabled"] = enabled
    ui = {"title": "t", "p": form}
    if has_group_opt:
        form["group"] = "G"
        ui["g"] = {"label": "g", "value": 1, "group": "G", "groupOptional": True, "enabled": group_enabled}
    a = InputFile(ui_json=deepcopy(ui), validate=False)
    da = a.data
    back = _write_read(a.ui_json)
    b = InputFile(ui_json=deepcopy(back), validate=False)
    db = b.data
    same_enabled = all(a.ui_json[k].get("enabled", True) == b.ui_json[k].get("enabled", True)
                       for k in ui if isinstance(ui[k], dict))
    return da == db and same_enabled and list(da) == list(db)

def form_bool_roundtrip_value_and_enabled__kf_F_C14_3(vi: int, has_opt: bool, optional: bool, enabled: bool, has_group_opt: bool,
                                     group_enabled: bool) -> bool:
    """
    pre: has_group_opt and (group_enabled != (enabled if has_opt else True))
    pre: 0 <= vi < 2
    post: _
    """
    kind = 0
    values = [[True, False, True], [0, -3, 7], [0.5, float("inf"), float("-inf")], ["abc", "a b", "x.y"],
              ["c1", "c2", "c1"], [UUIDS[0], UUIDS[1], UUIDS[0]]][kind]
    form = {"label": "lbl", "value": values[vi]}
    if kind == 4:
        form["choiceList"] = ["c1", "c2"]
    if kind == 5:
        form["meshType"] = [UUIDS[1]]
    if has_opt:
        form["optional"] = optional
        form["enabled"] = enabled
    ui = {"title": "t", "p": form}
    if has_group_opt:
        form["group"] = "G"
        ui["g"] = {"label": "g", "value": 1, "group": "G", "groupOptional": True, "enabled": group_enabled}
    a = InputFile(ui_json=deepcopy(ui), validate=False)
    da = a.data
    back = _write_read(a.ui_json)
    b = InputFile(ui_json=deepcopy(back), validate=False)
    db = b.data
    same_enabled = all(a.ui_json[k].get("enabled", True) == b.ui_json[k].get("enabled", True)
                       for k in ui if isinstance(ui[k], dict))
    return da == db and same_enabled and list(da) == list(db)



def form_int_roundtrip_value_and_enabled(vi: int, has_opt: bool, optional: bool, enabled: bool, has_group_opt: bool,
                                     group_enabled: bool) -> bool:
    """
    pre: not (has_group_opt and (group_enabled != (enabled if has_opt else True)))
    pre: 0 <= vi < 2
    post: _
    """
    kind = 1
    values = [[True, False, True], [0, -3, 7], [0.5, float("inf"), float("-inf")], ["abc", "a b", "x.y"],
              ["c1", "c2", "c1"], [UUIDS[0], UUIDS[1], UUIDS[0]]][kind]
    form = {"label": "lbl", "value": values[vi]}
    if kind == 4:
        form["choiceList"] = ["c1", "c2"]
    if kind == 5:
        form["meshType"] = [UUIDS[1]]
    if has_opt:
        form["optional"] = optional
        form["enabled"] = enabled
    ui = {"title": "t", "p": form}
    if has_group_opt:
        form["group"] = "G"
        ui["g"] = {"label": "g", "value": 1, "group": "G", "groupOptional": True, "enabled": group_enabled}
    a = InputFile(ui_json=deepcopy(ui), validate=False)
    da = a.data
    back = _write_read(a.ui_json)
    b = InputFile(ui_json=deepcopy(back), validate=False)
    db = b.data
    same_enabled = all(a.ui_json[k].get("enabled", True) == b.ui_json[k].get("enabled", True)
                       for k in ui if isinstance(ui[k], dict))
    return da == db and same_enabled and list(da) == list(db)

def form_int_roundtrip_value_and_enabled__reach(vi: int, has_opt: bool, optional: bool, enabled: bool, has_group_opt: bool,
                                     group_enabled: bool) -> bool:
    """
    pre: not (has_group_opt and (group_enabled != (enabled if has_opt else True)))
    pre: 0 <= vi < 2
    post: False
    """
    kind = 1
    values = [[True, False, True], [0, -3, 7], [0.5, float("inf"), float("-inf")], ["abc", "a b", "x.y"],
              ["c1", "c2", "c1"], [UUIDS[0], UUIDS[1], UUIDS[0]]][kind]
    form = {"label": "lbl", "value": values[vi]}
    if kind == 4:
        form["choiceList"] = ["c1", "c2"]
    if kind == 5:
        form["meshType"] = [UUIDS[1]]
    if has_opt:
        form["optional"] = optional
        form["enabled"] = enabled
    ui = {"title": "t", "p": form}
    if has_group_opt:
        form["group"] = "G"
        ui["g"] = {"label": "g", "value": 1, "group": "G", "groupOptional": True, "enabled": group_enabled}
    a = InputFile(ui_json=deepcopy(ui), validate=False)
    da = a.data
    back = _write_read(a.ui_json)
    b = InputFile(ui_json=deepcopy(back), validate=False)
    db = b.data
    same_enabled = all(a.ui_json[k].get("enabled", True) == b.ui_json[k].get("enabled", True)
                       for k in ui if isinstance(ui[k], dict))
    return da == db and same_enabled and list(da) == list(db)

def form_int_roundtrip_value_and_enabled__kf_F_C14_3(vi: int, has_opt: bool, optional: bool, enabled: bool, has_group_opt: bool,
                                     group_enabled: bool) -> bool:
    """
    pre: has_group_opt and (group_enabled != (enabled if has_opt else True))
    pre: 0 <= vi < 2
    post: _
    """
    kind = 1
    values = [[True, False, True], [0, -3, 7], [0.5, float("inf"), float("-inf")], ["abc", "a b", "x.y"],
              ["c1", "c2", "c1"], [UUIDS[0], UUIDS[1], UUIDS[0]]][kind]
    form = {"label": "lbl", "value": values[vi]}
    if kind == 4:
        form["choiceList"] = ["c1", "c2"]
    if kind == 5:
        form["meshType"] = [UUIDS[1]]
    if has_opt:
        form["optional"] = optional
        form["enabled"] = enabled
    ui = {"title": "t", "p": form}
    if has_group_opt:
        form["group"] = "G"
        ui["g"] = {"label": "g", "value": 1, "group": "G", "groupOptional": True, "enabled": group_enabled}
    a = InputFile(ui_json=deepcopy(ui), validate=False)
    da = a.data
    back = _write_read(a.ui_json)
    b = InputFile(ui_json=deepcopy(back), validate=False)
    db = b.data
    same_enabled = all(a.ui_json[k].get("enabled", True) == b.ui_json[k].get("enabled", True)
                       for k in ui if isinstance(ui[k], dict))
    return da == db and same_enabled and list(da) == list(db)



def form_float_roundtrip_value_and_enabled(vi: int, has_opt: bool, optional: bool, enabled: bool, has_group_opt: bool,
                                     group_enabled: bool) -> bool:
    """
    pre: not (has_group_opt and (group_enabled != (enabled if has_opt else True)))
    pre: 0 <= vi < 2
    post: _
    """
    kind = 2
    values = [[True, False, True], [0, -3, 7], [0.5, float("inf"), float("-inf")], ["abc", "a b", "x.y"],
              ["c1", "c2", "c1"], [UUIDS[0], UUIDS[1], UUIDS[0]]][kind]
    form = {"label": "lbl", "value": values[vi]}
    if kind == 4:
        form["choiceList"] = ["c1", "c2"]
    if kind == 5:
        form["meshType"] = [UUIDS[1]]
    if has_opt:
        form["optional"] = optional
        form["enabled"] = enabled
    ui = {"title": "t", "p": form}
    if has_group_opt:
        form["group"] = "G"
        ui["g"] = {"label": "g", "value": 1, "group": "G", "groupOptional": True, "enabled": group_enabled}
    a = InputFile(ui_json=deepcopy(ui), validate=False)
    da = a.data
    back = _write_read(a.ui_json)
    b = InputFile(ui_json=deepcopy(back), validate=False)
    db = b.data
    same_enabled = all(a.ui_json[k].get("enabled", True) == b.ui_json[k].get("enabled", True)
                       for k in ui if isinstance(ui[k], dict))
    return da == db and same_enabled and list(da) == list(db)

def form_float_roundtrip_value_and_enabled__reach(vi: int, has_opt: bool, optional: bool, enabled: bool, has_group_opt: bool,
                                     group_enabled: bool) -> bool:
    """
    pre: not (has_group_opt and (group_enabled != (enabled if has_opt else True)))
    pre: 0 <= vi < 2
    post: False
    """
    kind = 2
    values = [[True, False, True], [0, -3, 7], [0.5, float("inf"), float("-inf")], ["abc", "a b", "x.y"],
              ["c1", "c2", "c1"], [UUIDS[0], UUIDS[1], UUIDS[0]]][kind]
    form = {"label": "lbl", "value": values[vi]}
    if kind == 4:
        form["choiceList"] = ["c1", "c2"]
    if kind == 5:
        form["meshType"] = [UUIDS[1]]
    if has_opt:
        form["optional"] = optional
        form["enabled"] = enabled
    ui = {"title": "t", "p": form}
    if has_group_opt:
        form["group"] = "G"
        ui["g"] = {"label": "g", "value": 1, "group": "G", "groupOptional": True, "enabled": group_enabled}
    a = InputFile(ui_json=deepcopy(ui), validate=False)
    da = a.data
    back = _write_read(a.ui_json)
    b = InputFile(ui_json=deepcopy(back), validate=False)
    db = b.data
    same_enabled = all(a.ui_json[k].get("enabled", True) == b.ui_json[k].get("enabled", True)
                       for k in ui if isinstance(ui[k], dict))
    return da == db and same_enabled and list(da) == list(db)

def form_float_roundtrip_value_and_enabled__kf_F_C14_3(vi: int, has_opt: bool, optional: bool, enabled: bool, has_group_opt: bool,
                                     group_enabled: bool) -> bool:
    """
    pre: has_group_opt and (group_enabled != (enabled if has_opt else True))
    pre: 0 <= vi < 2
    post: _
    """
    kind = 2
    values = [[True, False, True], [0, -3, 7], [0.5, float("inf"), float("-inf")], ["abc", "a b", "x.y"],
              ["c1", "c2", "c1"], [UUIDS[0], UUIDS[1], UUIDS[0]]][kind]
    form = {"label": "lbl", "value": values[vi]}
    if kind == 4:
        form["choiceList"] = ["c1", "c2"]
    if kind == 5:
        form["meshType"] = [UUIDS[1]]
    if has_opt:
        form["optional"] = optional
        form["enabled"] = enabled
    ui = {"title": "t", "p": form}
    if has_group_opt:
        form["group"] = "G"
        ui["g"] = {"label": "g", "value": 1, "group": "G", "groupOptional": True, "enabled": group_enabled}
    a = InputFile(ui_json=deepcopy(ui), validate=False)
    da = a.data
    back = _write_read(a.ui_json)
    b = InputFile(ui_json=deepcopy(back), validate=False)
    db = b.data
    same_enabled = all(a.ui_json[k].get("enabled", True) == b.ui_json[k].get("enabled", True)
                       for k in ui if isinstance(ui[k], dict))
    return da == db and same_enabled and list(da) == list(db)



def form_string_roundtrip_value_and_enabled(vi: int, has_opt: bool, optional: bool, enabled: bool, has_group_opt: bool,
                                     group_enabled: bool) -> bool:
    """
    pre: not (has_group_opt and (group_enabled != (enabled if has_opt else True)))
    pre: 0 <= vi < 2
    post: _
    """
    kind = 3
    values = [[True, False, True], [0, -3, 7], [0.5, float("inf"), float("-inf")], ["abc", "a b", "x.y"],
              ["c1", "c2", "c1"], [UUIDS[0], UUIDS[1], UUIDS[0]]][kind]
    form = {"label": "lbl", "value": values[vi]}
    if kind == 4:
        form["choiceList"] = ["c1", "c2"]
    if kind == 5:
        form["meshType"] = [UUIDS[1]]
    if has_opt:
        form["optional"] = optional
        form["enabled"] = enabled
    ui = {"title": "t", "p": form}
    if has_group_opt:
        form["group"] = "G"
        ui["g"] = {"label": "g", "value": 1, "group": "G", "groupOptional": True, "enabled": group_enabled}
    a = InputFile(ui_json=deepcopy(ui), validate=False)
    da = a.data
    back = _write_read(a.ui_json)
    b = InputFile(ui_json=deepcopy(back), validate=False)
    db = b.data
    same_enabled = all(a.ui_json[k].get("enabled", True) == b.ui_json[k].get("enabled", True)
                       for k in ui if isinstance(ui[k], dict))
    return da == db and same_enabled and list(da) == list(db)

def form_string_roundtrip_value_and_enabled__reach(vi: int, has_opt: bool, optional: bool, enabled: bool, has_group_opt: bool,
                                     group_enabled: bool) -> bool:
    """
    pre: not (has_group_opt and (group_enabled != (enabled if has_opt else True)))
    pre: 0 <= vi < 2
    post: False
    """
    kind = 3
    values = [[True, False, True], [0, -3, 7], [0.5, float("inf"), float("-inf")], ["abc", "a b", "x.y"],
              ["c1", "c2", "c1"], [UUIDS[0], UUIDS[1], UUIDS[0]]][kind]
    form = {"label": "lbl", "value": values[vi]}
    if kind == 4:
        form["choiceList"] = ["c1", "c2"]
    if kind == 5:
        form["meshType"] = [UUIDS[1]]
    if has_opt:
        form["optional"] = optional
        form["enabled"] = enabled
    ui = {"title": "t", "p": form}
    if has_group_opt:
        form["group"] = "G"
        ui["g"] = {"label": "g", "value": 1, "group": "G", "groupOptional": True, "enabled": group_enabled}
    a = InputFile(ui_json=deepcopy(ui), validate=False)
    da = a.data
    back = _write_read(a.ui_json)
    b = InputFile(ui_json=deepcopy(back), validate=False)
    db = b.data
    same_enabled = all(a.ui_json[k].get("enabled", True) == b.ui_json[k].get("enabled", True)
                       for k in ui if isinstance(ui[k], dict))
    return da == db and same_enabled and list(da) == list(db)

def form_string_roundtrip_value_and_enabled__kf_F_C14_3(vi: int, has_opt: bool, optional: bool, enabled: bool, has_group_opt: bool,
                                     group_enabled: bool) -> bool:
    """
    pre: has_group_opt and (group_enabled != (enabled if has_opt else True))
    pre: 0 <= vi < 2
    post: _
    """
    kind = 3
    values = [[True, False, True], [0, -3, 7], [0.5, float("inf"), float("-inf")], ["abc", "a b", "x.y"],
              ["c1", "c2", "c1"], [UUIDS[0], UUIDS[1], UUIDS[0]]][kind]
    form = {"label": "lbl", "value": values[vi]}
    if kind == 4:
        form["choiceList"] = ["c1", "c2"]
    if kind == 5:
        form["meshType"] = [UUIDS[1]]
    if has_opt:
        form["optional"] = optional
        form["enabled"] = enabled
    ui = {"title": "t", "p": form}
    if has_group_opt:
        form["group"] = "G"
        ui["g"] = {"label": "g", "value": 1, "group": "G", "groupOptional": True, "enabled": group_enabled}
    a = InputFile(ui_json=deepcopy(ui), validate=False)
    da = a.data
    back = _write_read(a.ui_json)
    b = InputFile(ui_json=deepcopy(back), validate=False)
    db = b.data
    same_enabled = all(a.ui_json[k].get("enabled", True) == b.ui_json[k].get("enabled", True)
                       for k in ui if isinstance(ui[k], dict))
    return da == db and same_enabled and list(da) == list(db)



def form_choice_roundtrip_value_and_enabled(vi: int, has_opt: bool, optional: bool, enabled: bool, has_group_opt: bool,
                                     group_enabled: bool) -> bool:
    """
    pre: not (has_group_opt and (group_enabled != (enabled if has_opt else True)))
    pre: 0 <= vi < 2
    post: _
    """
    kind = 4
    values = [[True, False, True], [0, -3, 7], [0.5, float("inf"), float("-inf")], ["abc", "a b", "x.y"],
              ["c1", "c2", "c1"], [UUIDS[0], UUIDS[1], UUIDS[0]]][kind]
    form = {"label": "lbl", "value": values[vi]}
    if kind == 4:
        form["choiceList"] = ["c1", "c2"]
    if kind == 5:
        form["meshType"] = [UUIDS[1]]
    if has_opt:
        form["optional"] = optional
        form["enabled"] = enabled
    ui = {"title": "t", "p": form}
    if has_group_opt:
        form["group"] = "G"
        ui["g"] = {"label": "g", "value": 1, "group": "G", "groupOptional": True, "enabled": group_enabled}
    a = InputFile(ui_json=deepcopy(ui), validate=False)
    da = a.data
    back = _write_read(a.ui_json)
    b = InputFile(ui_json=deepcopy(back), validate=False)
    db = b.data
    same_enabled = all(a.ui_json[k].get("enabled", True) == b.ui_json[k].get("enabled", True)
                       for k in ui if isinstance(ui[k], dict))
    return da == db and same_enabled and list(da) == list(db)

def form_choice_roundtrip_value_and_enabled__reach(vi: int, has_opt: bool, optional: bool, enabled: bool, has_group_opt: bool,
                                     group_enabled: bool) -> bool:
    """
    pre: not (has_group_opt and (group_enabled != (enabled if has_opt else True)))
    pre: 0 <= vi < 2
    post: False
    """
    kind = 4
    values = [[True, False, True], [0, -3, 7], [0.5, float("inf"), float("-inf")], ["abc", "a b", "x.y"],
              ["c1", "c2", "c1"], [UUIDS[0], UUIDS[1], UUIDS[0]]][kind]
    form = {"label": "lbl", "value": values[vi]}
    if kind == 4:
        form["choiceList"] = ["c1", "c2"]
    if kind == 5:
        form["meshType"] = [UUIDS[1]]
    if has_opt:
        form["optional"] = optional
        form["enabled"] = enabled
    ui = {"title": "t", "p": form}
    if has_group_opt:
        form["group"] = "G"
        ui["g"] = {"label": "g", "value": 1, "group": "G", "groupOptional": True, "enabled": group_enabled}
    a = InputFile(ui_json=deepcopy(ui), validate=False)
    da = a.data
    back = _write_read(a.ui_json)
    b = InputFile(ui_json=deepcopy(back), validate=False)
    db = b.data
    same_enabled = all(a.ui_json[k].get("enabled", True) == b.ui_json[k].get("enabled", True)
                       for k in ui if isinstance(ui[k], dict))
    return da == db and same_enabled and list(da) == list(db)

def form_choice_roundtrip_value_and_enabled__kf_F_C14_3(vi: int, has_opt: bool, optional: bool, enabled: bool, has_group_opt: bool,
                                     group_enabled: bool) -> bool:
    """
    pre: has_group_opt and (group_enabled != (enabled if has_opt else True))
    pre: 0 <= vi < 2
    post: _
    """
    kind = 4
    values = [[True, False, True], [0, -3, 7], [0.5, float("inf"), float("-inf")], ["abc", "a b", "x.y"],
              ["c1", "c2", "c1"], [UUIDS[0], UUIDS[1], UUIDS[0]]][kind]
    form = {"label": "lbl", "value": values[vi]}
    if kind == 4:
        form["choiceList"] = ["c1", "c2"]
    if kind == 5:
        form["meshType"] = [UUIDS[1]]
    if has_opt:
        form["optional"] = optional
        form["enabled"] = enabled
    ui = {"title": "t", "p": form}
    if has_group_opt:
        form["group"] = "G"
        ui["g"] = {"label": "g", "value": 1, "group": "G", "groupOptional": True, "enabled": group_enabled}
    a = InputFile(ui_json=deepcopy(ui), validate=False)
    da = a.data
    back = _write_read(a.ui_json)
    b = InputFile(ui_json=deepcopy(back), validate=False)
    db = b.data
    same_enabled = all(a.ui_json[k].get("enabled", True) == b.ui_json[k].get("enabled", True)
                       for k in ui if isinstance(ui[k], dict))
    return da == db and same_enabled and list(da) == list(db)



def form_object_roundtrip_value_and_enabled(vi: int, has_opt: bool, optional: bool, enabled: bool, has_group_opt: bool,
                                     group_enabled: bool) -> bool:
    """
    pre: not (has_group_opt and (group_enabled != (enabled if has_opt else True)))
    pre: 0 <= vi < 2
    post: _
    """
    kind = 5
    values = [[True, False, True], [0, -3, 7], [0.5, float("inf"), float("-inf")], ["abc", "a b", "x.y"],
              ["c1", "c2", "c1"], [UUIDS[0], UUIDS[1], UUIDS[0]]][kind]
    form = {"label": "lbl", "value": values[vi]}
    if kind == 4:
        form["choiceList"] = ["c1", "c2"]
    if kind == 5:
        form["meshType"] = [UUIDS[1]]
    if has_opt:
        form["optional"] = optional
        form["enabled"] = enabled
    ui = {"title": "t", "p": form}
    if has_group_opt:
        form["group"] = "G"
        ui["g"] = {"label": "g", "value": 1, "group": "G", "groupOptional": True, "enabled": group_enabled}
    a = InputFile(ui_json=deepcopy(ui), validate=False)
    da = a.data
    back = _write_read(a.ui_json)
    b = InputFile(ui_json=deepcopy(back), validate=False)
    db = b.data
    same_enabled = all(a.ui_json[k].get("enabled", True) == b.ui_json[k].get("enabled", True)
                       for k in ui if isinstance(ui[k], dict))
    return da == db and same_enabled and list(da) == list(db)

def form_object_roundtrip_value_and_enabled__reach(vi: int, has_opt: bool, optional: bool, enabled: bool, has_group_opt: bool,
                                     group_enabled: bool) -> bool:
    """
    pre: not (has_group_opt and (group_enabled != (enabled if has_opt else True)))
    pre: 0 <= vi < 2
    post: False
    """
    kind = 5
    values = [[True, False, True], [0, -3, 7], [0.5, float("inf"), float("-inf")], ["abc", "a b", "x.y"],
              ["c1", "c2", "c1"], [UUIDS[0], UUIDS[1], UUIDS[0]]][kind]
    form = {"label": "lbl", "value": values[vi]}
    if kind == 4:
        form["choiceList"] = ["c1", "c2"]
    if kind == 5:
        form["meshType"] = [UUIDS[1]]
    if has_opt:
        form["optional"] = optional
        form["enabled"] = enabled
    ui = {"title": "t", "p": form}
    if has_group_opt:
        form["group"] = "G"
        ui["g"] = {"label": "g", "value": 1, "group": "G", "groupOptional": True, "enabled": group_enabled}
    a = InputFile(ui_json=deepcopy(ui), validate=False)
    da = a.data
    back = _write_read(a.ui_json)
    b = InputFile(ui_json=deepcopy(back), validate=False)
    db = b.data
    same_enabled = all(a.ui_json[k].get("enabled", True) == b.ui_json[k].get("enabled", True)
                       for k in ui if isinstance(ui[k], dict))
    return da == db and same_enabled and list(da) == list(db)

def form_object_roundtrip_value_and_enabled__kf_F_C14_3(vi: int, has_opt: bool, optional: bool, enabled: bool, has_group_opt: bool,
                                     group_enabled: bool) -> bool:
    """
    pre: has_group_opt and (group_enabled != (enabled if has_opt else True))
    pre: 0 <= vi < 2
    post: _
    """
    kind = 5
    values = [[True, False, True], [0, -3, 7], [0.5, float("inf"), float("-inf")], ["abc", "a b", "x.y"],
              ["c1", "c2", "c1"], [UUIDS[0], UUIDS[1], UUIDS[0]]][kind]
    form = {"label": "lbl", "value": values[vi]}
    if kind == 4:
        form["choiceList"] = ["c1", "c2"]
    if kind == 5:
        form["meshType"] = [UUIDS[1]]
    if has_opt:
        form["optional"] = optional
        form["enabled"] = enabled
    ui = {"title": "t", "p": form}
    if has_group_opt:
        form["group"] = "G"
        ui["g"] = {"label": "g", "value": 1, "group": "G", "groupOptional": True, "enabled": group_enabled}
    a = InputFile(ui_json=deepcopy(ui), validate=False)
    da = a.data
    back = _write_read(a.ui_json)
    b = InputFile(ui_json=deepcopy(back), validate=False)
    db = b.data
    same_enabled = all(a.ui_json[k].get("enabled", True) == b.ui_json[k].get("enabled", True)
                       for k in ui if isinstance(ui[k], dict))
    return da == db and same_enabled and list(da) == list(db)



def data_or_value_routing_roundtrip(start_is_value: bool, give_uuid: bool, ui: int, has_opt: bool, enabled: bool) -> bool:
    """
    pre: 0 <= ui < 2
    post: _
    """
    import uuid as _uuid
    form = {"label": "lbl", "value": 100.0, "isValue": start_is_value, "property": None if start_is_value else UUIDS[1],
            "parent": "obj", "association": "Vertex", "dataType": "Float"}
    if has_opt:
        form["optional"] = True
        form["enabled"] = enabled
    d0 = {"title": "t", "obj": {"label": "o", "value": UUIDS[0], "meshType": [UUIDS[1]]}, "p": form}
    a = InputFile(ui_json=deepcopy(d0), validate=False)
    new = _uuid.UUID(UUIDS[ui]) if give_uuid else 2.5
    a.update_ui_values({"p": new})
    if a.ui_json["p"]["isValue"] != (not give_uuid):
        return False
    back = _write_read(a.ui_json)
    b = InputFile(ui_json=deepcopy(back), validate=False)
    return b.data["p"] == new and b.ui_json["p"]["isValue"] == (not give_uuid)

def data_or_value_routing_roundtrip__reach(start_is_value: bool, give_uuid: bool, ui: int, has_opt: bool, enabled: bool) -> bool:
    """
    pre: 0 <= ui < 2
    post: False
    """
    import uuid as _uuid
    form = {"label": "lbl", "value": 100.0, "isValue": start_is_value, "property": None if start_is_value else UUIDS[1],
            "parent": "obj", "association": "Vertex", "dataType": "Float"}
    if has_opt:
        form["optional"] = True
        form["enabled"] = enabled
    d0 = {"title": "t", "obj": {"label": "o", "value": UUIDS[0], "meshType": [UUIDS[1]]}, "p": form}
    a = InputFile(ui_json=deepcopy(d0), validate=False)
    new = _uuid.UUID(UUIDS[ui]) if give_uuid else 2.5
    a.update_ui_values({"p": new})
    if a.ui_json["p"]["isValue"] != (not give_uuid):
        return False
    back = _write_read(a.ui_json)
    b = InputFile(ui_json=deepcopy(back), validate=False)
    return b.data["p"] == new and b.ui_json["p"]["isValue"] == (not give_uuid)



def disabled_parameter_reads_none_and_stays_disabled(vi: int, enabled: bool, new_none: bool) -> bool:
    """
    pre: 0 <= vi < 3
    post: _
    """
    value = ["abc", "zz", "q"][vi]
    ui = {"title": "t", "p": {"label": "lbl", "value": value, "optional": True, "enabled": enabled}}
    a = InputFile(ui_json=deepcopy(ui), validate=False)
    a.update_ui_values({"p": None if new_none else value})
    exp_val = None if new_none else value
    if a.data["p"] != exp_val:
        return False
    back = _write_read(a.ui_json)
    b = InputFile(ui_json=deepcopy(back), validate=False)
    return b.data["p"] == exp_val and b.ui_json["p"]["enabled"] == (not new_none)

def disabled_parameter_reads_none_and_stays_disabled__reach(vi: int, enabled: bool, new_none: bool) -> bool:
    """
    pre: 0 <= vi < 3
    post: False
    """
    value = ["abc", "zz", "q"][vi]
    ui = {"title": "t", "p": {"label": "lbl", "value": value, "optional": True, "enabled": enabled}}
    a = InputFile(ui_json=deepcopy(ui), validate=False)
    a.update_ui_values({"p": None if new_none else value})
    exp_val = None if new_none else value
    if a.data["p"] != exp_val:
        return False
    back = _write_read(a.ui_json)
    b = InputFile(ui_json=deepcopy(back), validate=False)
    return b.data["p"] == exp_val and b.ui_json["p"]["enabled"] == (not new_none)




if __name__ == '__main__':
    from math import inf, nan
    import sys
    try:
        r = form_float_roundtrip_value_and_enabled(1, False, False, False, False, False)
    except BaseException as e:
        print('RAISED', repr(e)); r = False
    print('condition form_float_roundtrip_value_and_enabled:', r)
    if not r:
        print('VIOLATION property=C14 replay=' + __file__)
    sys.exit(0 if r else 1)
