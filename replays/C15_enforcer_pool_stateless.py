from typing import Optional, Union, List, Tuple
from copy import deepcopy
from geoh5py.ui_json.utils import requires_value
from geoh5py.ui_json.validation import InputValidation
from geoh5py.ui_json.enforcers import EnforcerPool, TypeEnforcer, ValueEnforcer
from geoh5py.ui_json.parameters import (Parameter, StringParameter, IntegerParameter, BoolParameter,
                                         ValueRestrictedParameter, TypeRestrictedParameter,
                                         TypeUIDRestrictedParameter)
from geoh5py.ui_json.forms import StringFormParameter, BoolFormParameter, IntegerFormParameter
from geoh5py.shared.validators import TypeValidator, ValueValidator, OptionalValidator, RequiredValidator, ShapeValidator
from geoh5py.shared.exceptions import BaseValidationError

Val = Union[None, bool, int, str]


def _small(v):
    return (not isinstance(v, str) or len(v) <= 1) and (not isinstance(v, int) or isinstance(v, bool) or -1 <= v <= 2)


ALPHA = [None, True, 0, 1, 2, "", "a", "c"]


def _accepts(fn, *a):
    try:
        fn(*a)
        return True
    except BaseValidationError:
        return False



def requires_value_matches_reference(opt: bool, en: bool, has_opt: bool, has_dep: bool, dep_opt_state: int, dep_en: bool,
                                     dep_val: bool, dtype_enabled: bool, has_group: bool, gopt: bool, gen: bool) -> bool:
    """
    pre: 0 <= dep_opt_state < 3
    post: _
    """
    dep_opt = dep_opt_state == 2          # 0: no 'optional' member, 1: explicit False, 2: True
    form = {"label": "a", "value": 1}
    if has_opt:
        form["optional"] = opt
        form["enabled"] = en
    dep = {"label": "d", "value": dep_val}
    if dep_opt_state:
        dep["optional"] = dep_opt
        dep["enabled"] = dep_en
    if has_dep:
        form["dependency"] = "d"
        form["dependencyType"] = "enabled" if dtype_enabled else "disabled"
    g = {"label": "g", "value": 1}
    if has_group:
        form["group"] = "G"
        g["group"] = "G"
        if gopt:
            g["groupOptional"] = True
            g["enabled"] = gen
    ui = {"p": form, "d": dep, "g": g}
    got = requires_value(ui, "p")
    # reference written from the documented hierarchy: groupOptional > dependency > optional
    if has_group and gopt and not gen:
        exp = False
    elif has_dep:
        key_val = dep_en if dep_opt else dep_val
        exp = key_val if dtype_enabled else (not key_val)
        if has_opt and exp:
            exp = en
    elif has_opt:
        exp = en
    else:
        exp = True
    return bool(got) == bool(exp)

def requires_value_matches_reference__reach(opt: bool, en: bool, has_opt: bool, has_dep: bool, dep_opt_state: int, dep_en: bool,
                                     dep_val: bool, dtype_enabled: bool, has_group: bool, gopt: bool, gen: bool) -> bool:
    """
    pre: 0 <= dep_opt_state < 3
    post: False
    """
    dep_opt = dep_opt_state == 2          # 0: no 'optional' member, 1: explicit False, 2: True
    form = {"label": "a", "value": 1}
    if has_opt:
        form["optional"] = opt
        form["enabled"] = en
    dep = {"label": "d", "value": dep_val}
    if dep_opt_state:
        dep["optional"] = dep_opt
        dep["enabled"] = dep_en
    if has_dep:
        form["dependency"] = "d"
        form["dependencyType"] = "enabled" if dtype_enabled else "disabled"
    g = {"label": "g", "value": 1}
    if has_group:
        form["group"] = "G"
        g["group"] = "G"
        if gopt:
            g["groupOptional"] = True
            g["enabled"] = gen
    ui = {"p": form, "d": dep, "g": g}
    got = requires_value(ui, "p")
    # reference written from the documented hierarchy: groupOptional > dependency > optional
    if has_group and gopt and not gen:
        exp = False
    elif has_dep:
        key_val = dep_en if dep_opt else dep_val
        exp = key_val if dtype_enabled else (not key_val)
        if has_opt and exp:
            exp = en
    elif has_opt:
        exp = en
    else:
        exp = True
    return bool(got) == bool(exp)



def simple_form_accepts_iff_valid(value: Val, form_value: Union[bool, int, str], has_optional: bool, optional: bool,
                                  enabled: bool) -> bool:
    """
    pre: _small(value) and _small(form_value)
    post: _
    """
    form = {"label": "x", "value": form_value}
    if has_optional:
        form["optional"] = optional
        form["enabled"] = enabled
    v = InputValidation(ui_json={"p": form})
    ok = _accepts(v.validate, "p", value)
    required = True if not has_optional else enabled
    exp = (value is None and not required) or isinstance(value, type(form_value))
    return ok == exp

def simple_form_accepts_iff_valid__reach(value: Val, form_value: Union[bool, int, str], has_optional: bool, optional: bool,
                                  enabled: bool) -> bool:
    """
    pre: _small(value) and _small(form_value)
    post: False
    """
    form = {"label": "x", "value": form_value}
    if has_optional:
        form["optional"] = optional
        form["enabled"] = enabled
    v = InputValidation(ui_json={"p": form})
    ok = _accepts(v.validate, "p", value)
    required = True if not has_optional else enabled
    exp = (value is None and not required) or isinstance(value, type(form_value))
    return ok == exp



def choice_form_accepts_iff_member(value: Val, c0: str, c1: str, has_optional: bool, enabled: bool) -> bool:
    """
    pre: _small(value) and len(c0) <= 2 and len(c1) <= 2
    post: _
    """
    form = {"label": "x", "value": c0, "choiceList": [c0, c1]}
    if has_optional:
        form["optional"] = True
        form["enabled"] = enabled
    v = InputValidation(ui_json={"p": form})
    ok = _accepts(v.validate, "p", value)
    required = True if not has_optional else enabled
    exp = (value is None and not required) or (isinstance(value, str) and value in (c0, c1))
    return ok == exp

def choice_form_accepts_iff_member__reach(value: Val, c0: str, c1: str, has_optional: bool, enabled: bool) -> bool:
    """
    pre: _small(value) and len(c0) <= 2 and len(c1) <= 2
    post: False
    """
    form = {"label": "x", "value": c0, "choiceList": [c0, c1]}
    if has_optional:
        form["optional"] = True
        form["enabled"] = enabled
    v = InputValidation(ui_json={"p": form})
    ok = _accepts(v.validate, "p", value)
    required = True if not has_optional else enabled
    exp = (value is None and not required) or (isinstance(value, str) and value in (c0, c1))
    return ok == exp



def enforcer_pool_stateless(i1: int, i2: int, i3: int) -> bool:
    """
    pre: 0 <= i1 < 8 and i2 == i1 and 0 <= i3 < 8
    post: _
    """
    v1, v2, v3 = ALPHA[i1], ALPHA[i2], ALPHA[i3]
    mk = lambda: EnforcerPool("p", [TypeEnforcer({str}), ValueEnforcer({"a", "b", None})])
    used = mk()
    _accepts(used.enforce, v1)
    _accepts(used.enforce, v2)
    return _accepts(used.enforce, v3) == _accepts(mk().enforce, v3)

def enforcer_pool_stateless__reach(i1: int, i2: int, i3: int) -> bool:
    """
    pre: 0 <= i1 < 8 and i2 == i1 and 0 <= i3 < 8
    post: False
    """
    v1, v2, v3 = ALPHA[i1], ALPHA[i2], ALPHA[i3]
    mk = lambda: EnforcerPool("p", [TypeEnforcer({str}), ValueEnforcer({"a", "b", None})])
    used = mk()
    _accepts(used.enforce, v1)
    _accepts(used.enforce, v2)
    return _accepts(used.enforce, v3) == _accepts(mk().enforce, v3)



def parameter_string_stateless_and_rejection_keeps_value(v0: Val, v1: Val, v2: Val) -> bool:
    """
    pre: _small(v0) and _small(v1) and _small(v2)
    post: _
    """
    mk = lambda: StringParameter("s")
    p = mk()
    def assign(par, v):
        try:
            par.value = v
            return True
        except BaseValidationError:
            return False
    assign(p, v0)
    before = p.value
    ok1 = assign(p, v1)
    if not ok1 and not (p.value is before or p.value == before):
        return False                      # a rejected assignment changed the stored value
    fresh = mk()
    return assign(p, v2) == assign(fresh, v2)

def parameter_string_stateless_and_rejection_keeps_value__reach(v0: Val, v1: Val, v2: Val) -> bool:
    """
    pre: _small(v0) and _small(v1) and _small(v2)
    post: False
    """
    mk = lambda: StringParameter("s")
    p = mk()
    def assign(par, v):
        try:
            par.value = v
            return True
        except BaseValidationError:
            return False
    assign(p, v0)
    before = p.value
    ok1 = assign(p, v1)
    if not ok1 and not (p.value is before or p.value == before):
        return False                      # a rejected assignment changed the stored value
    fresh = mk()
    return assign(p, v2) == assign(fresh, v2)



def parameter_integer_stateless_and_rejection_keeps_value(v0: Val, v1: Val, v2: Val) -> bool:
    """
    pre: _small(v0) and _small(v1) and _small(v2)
    post: _
    """
    mk = lambda: IntegerParameter("i")
    p = mk()
    def assign(par, v):
        try:
            par.value = v
            return True
        except BaseValidationError:
            return False
    assign(p, v0)
    before = p.value
    ok1 = assign(p, v1)
    if not ok1 and not (p.value is before or p.value == before):
        return False                      # a rejected assignment changed the stored value
    fresh = mk()
    return assign(p, v2) == assign(fresh, v2)

def parameter_integer_stateless_and_rejection_keeps_value__reach(v0: Val, v1: Val, v2: Val) -> bool:
    """
    pre: _small(v0) and _small(v1) and _small(v2)
    post: False
    """
    mk = lambda: IntegerParameter("i")
    p = mk()
    def assign(par, v):
        try:
            par.value = v
            return True
        except BaseValidationError:
            return False
    assign(p, v0)
    before = p.value
    ok1 = assign(p, v1)
    if not ok1 and not (p.value is before or p.value == before):
        return False                      # a rejected assignment changed the stored value
    fresh = mk()
    return assign(p, v2) == assign(fresh, v2)



def parameter_bool_stateless_and_rejection_keeps_value(v0: Val, v1: Val, v2: Val) -> bool:
    """
    pre: _small(v0) and _small(v1) and _small(v2)
    post: _
    """
    mk = lambda: BoolParameter("b")
    p = mk()
    def assign(par, v):
        try:
            par.value = v
            return True
        except BaseValidationError:
            return False
    assign(p, v0)
    before = p.value
    ok1 = assign(p, v1)
    if not ok1 and not (p.value is before or p.value == before):
        return False                      # a rejected assignment changed the stored value
    fresh = mk()
    return assign(p, v2) == assign(fresh, v2)

def parameter_bool_stateless_and_rejection_keeps_value__reach(v0: Val, v1: Val, v2: Val) -> bool:
    """
    pre: _small(v0) and _small(v1) and _small(v2)
    post: False
    """
    mk = lambda: BoolParameter("b")
    p = mk()
    def assign(par, v):
        try:
            par.value = v
            return True
        except BaseValidationError:
            return False
    assign(p, v0)
    before = p.value
    ok1 = assign(p, v1)
    if not ok1 and not (p.value is before or p.value == before):
        return False                      # a rejected assignment changed the stored value
    fresh = mk()
    return assign(p, v2) == assign(fresh, v2)



def parameter_restricted_stateless_and_rejection_keeps_value(i0: int, i1: int, i2: int) -> bool:
    """
    pre: 0 <= i0 < 8 and 0 <= i1 < 8 and i2 == i1
    post: _
    """
    v0, v1, v2 = ALPHA[i0], ALPHA[i1], ALPHA[i2]
    mk = lambda: ValueRestrictedParameter("v", ["a", "b", 1])
    p = mk()
    def assign(par, v):
        try:
            par.value = v
            return True
        except BaseValidationError:
            return False
    assign(p, v0)
    before = p.value
    ok1 = assign(p, v1)
    if not ok1 and not (p.value is before or p.value == before):
        return False                      # a rejected assignment changed the stored value
    fresh = mk()
    return assign(p, v2) == assign(fresh, v2)

def parameter_restricted_stateless_and_rejection_keeps_value__reach(i0: int, i1: int, i2: int) -> bool:
    """
    pre: 0 <= i0 < 8 and 0 <= i1 < 8 and i2 == i1
    post: False
    """
    v0, v1, v2 = ALPHA[i0], ALPHA[i1], ALPHA[i2]
    mk = lambda: ValueRestrictedParameter("v", ["a", "b", 1])
    p = mk()
    def assign(par, v):
        try:
            par.value = v
            return True
        except BaseValidationError:
            return False
    assign(p, v0)
    before = p.value
    ok1 = assign(p, v1)
    if not ok1 and not (p.value is before or p.value == before):
        return False                      # a rejected assignment changed the stored value
    fresh = mk()
    return assign(p, v2) == assign(fresh, v2)



def requires_value_blank_group_name(gsel: int, osel: int, gopt: bool, gen: bool, oopt: bool, oen: bool, has_opt: bool, en: bool) -> bool:
    """
    pre: 0 <= gsel < 4 and 0 <= osel < 3
    post: _
    """
    names = ["", "G", "0", None]                  # None: the parameter has no group member
    onames = ["H", "", "G"]
    form = {"label": "a", "value": 1}
    if has_opt:
        form["optional"] = True
        form["enabled"] = en
    mate = {"label": "m", "value": 1}
    gname = names[gsel]
    if gname is not None:
        form["group"] = gname
        mate["group"] = gname
        if gopt:
            mate["groupOptional"] = True
            mate["enabled"] = gen
    other = {"label": "o", "value": 1, "group": onames[osel]}
    if oopt:
        other["groupOptional"] = True
        other["enabled"] = oen
    ui = {"p": form, "m": mate, "o": other}
    got = requires_value(ui, "p")
    # the group of p is the set of forms whose group member EQUALS p's; a group is optional-and-disabled when one of its
    # members carries groupOptional and is not enabled
    exp_group_off = False
    if gname is not None:
        members = [f for f in (form, mate, other) if f.get("group", None) == gname]
        flagged = [f for f in members if f.get("groupOptional", False)]
        exp_group_off = bool(flagged) and not flagged[0].get("enabled", True)
    if exp_group_off:
        exp = False
    elif has_opt:
        exp = en
    else:
        exp = True
    return bool(got) == bool(exp)

def requires_value_blank_group_name__reach(gsel: int, osel: int, gopt: bool, gen: bool, oopt: bool, oen: bool, has_opt: bool, en: bool) -> bool:
    """
    pre: 0 <= gsel < 4 and 0 <= osel < 3
    post: False
    """
    names = ["", "G", "0", None]                  # None: the parameter has no group member
    onames = ["H", "", "G"]
    form = {"label": "a", "value": 1}
    if has_opt:
        form["optional"] = True
        form["enabled"] = en
    mate = {"label": "m", "value": 1}
    gname = names[gsel]
    if gname is not None:
        form["group"] = gname
        mate["group"] = gname
        if gopt:
            mate["groupOptional"] = True
            mate["enabled"] = gen
    other = {"label": "o", "value": 1, "group": onames[osel]}
    if oopt:
        other["groupOptional"] = True
        other["enabled"] = oen
    ui = {"p": form, "m": mate, "o": other}
    got = requires_value(ui, "p")
    # the group of p is the set of forms whose group member EQUALS p's; a group is optional-and-disabled when one of its
    # members carries groupOptional and is not enabled
    exp_group_off = False
    if gname is not None:
        members = [f for f in (form, mate, other) if f.get("group", None) == gname]
        flagged = [f for f in members if f.get("groupOptional", False)]
        exp_group_off = bool(flagged) and not flagged[0].get("enabled", True)
    if exp_group_off:
        exp = False
    elif has_opt:
        exp = en
    else:
        exp = True
    return bool(got) == bool(exp)



def form_string_member_rejection_leaves_form_unchanged(mi: int, i1: int, i2: int) -> bool:
    """
    pre: 0 <= mi < 6 and 0 <= i1 < 8 and i2 == i1
    post: _
    """
    kind = 0
    member = ["optional", "enabled", "group", "dependency", "tooltip", "main"][mi]
    mk = [lambda: StringFormParameter("p", value="x", label="l"), lambda: BoolFormParameter("p", value=True, label="l"),
          lambda: IntegerFormParameter("p", value=1, label="l")][kind]
    v1, v2 = ALPHA[i1], ALPHA[i2]
    def assign(f, v):
        try:
            setattr(f, member, v)
            return True
        except BaseValidationError:
            return False
    used = mk()
    before_form, before_active = dict(used.form()), list(used.active)
    ok1 = assign(used, v1)
    if not ok1 and (dict(used.form()) != before_form or list(used.active) != before_active):
        return False                      # a rejected member assignment changed the form
    if ok1 and not (member in used.active and used.form()[member] == v1):
        return False
    fresh = mk()
    return assign(used, v2) == assign(fresh, v2)

def form_string_member_rejection_leaves_form_unchanged__reach(mi: int, i1: int, i2: int) -> bool:
    """
    pre: 0 <= mi < 6 and 0 <= i1 < 8 and i2 == i1
    post: False
    """
    kind = 0
    member = ["optional", "enabled", "group", "dependency", "tooltip", "main"][mi]
    mk = [lambda: StringFormParameter("p", value="x", label="l"), lambda: BoolFormParameter("p", value=True, label="l"),
          lambda: IntegerFormParameter("p", value=1, label="l")][kind]
    v1, v2 = ALPHA[i1], ALPHA[i2]
    def assign(f, v):
        try:
            setattr(f, member, v)
            return True
        except BaseValidationError:
            return False
    used = mk()
    before_form, before_active = dict(used.form()), list(used.active)
    ok1 = assign(used, v1)
    if not ok1 and (dict(used.form()) != before_form or list(used.active) != before_active):
        return False                      # a rejected member assignment changed the form
    if ok1 and not (member in used.active and used.form()[member] == v1):
        return False
    fresh = mk()
    return assign(used, v2) == assign(fresh, v2)



def form_bool_member_rejection_leaves_form_unchanged(mi: int, i1: int, i2: int) -> bool:
    """
    pre: 0 <= mi < 6 and 0 <= i1 < 8 and i2 == i1
    post: _
    """
    kind = 1
    member = ["optional", "enabled", "group", "dependency", "tooltip", "main"][mi]
    mk = [lambda: StringFormParameter("p", value="x", label="l"), lambda: BoolFormParameter("p", value=True, label="l"),
          lambda: IntegerFormParameter("p", value=1, label="l")][kind]
    v1, v2 = ALPHA[i1], ALPHA[i2]
    def assign(f, v):
        try:
            setattr(f, member, v)
            return True
        except BaseValidationError:
            return False
    used = mk()
    before_form, before_active = dict(used.form()), list(used.active)
    ok1 = assign(used, v1)
    if not ok1 and (dict(used.form()) != before_form or list(used.active) != before_active):
        return False                      # a rejected member assignment changed the form
    if ok1 and not (member in used.active and used.form()[member] == v1):
        return False
    fresh = mk()
    return assign(used, v2) == assign(fresh, v2)

def form_bool_member_rejection_leaves_form_unchanged__reach(mi: int, i1: int, i2: int) -> bool:
    """
    pre: 0 <= mi < 6 and 0 <= i1 < 8 and i2 == i1
    post: False
    """
    kind = 1
    member = ["optional", "enabled", "group", "dependency", "tooltip", "main"][mi]
    mk = [lambda: StringFormParameter("p", value="x", label="l"), lambda: BoolFormParameter("p", value=True, label="l"),
          lambda: IntegerFormParameter("p", value=1, label="l")][kind]
    v1, v2 = ALPHA[i1], ALPHA[i2]
    def assign(f, v):
        try:
            setattr(f, member, v)
            return True
        except BaseValidationError:
            return False
    used = mk()
    before_form, before_active = dict(used.form()), list(used.active)
    ok1 = assign(used, v1)
    if not ok1 and (dict(used.form()) != before_form or list(used.active) != before_active):
        return False                      # a rejected member assignment changed the form
    if ok1 and not (member in used.active and used.form()[member] == v1):
        return False
    fresh = mk()
    return assign(used, v2) == assign(fresh, v2)



def form_integer_member_rejection_leaves_form_unchanged(mi: int, i1: int, i2: int) -> bool:
    """
    pre: 0 <= mi < 6 and 0 <= i1 < 8 and i2 == i1
    post: _
    """
    kind = 2
    member = ["optional", "enabled", "group", "dependency", "tooltip", "main"][mi]
    mk = [lambda: StringFormParameter("p", value="x", label="l"), lambda: BoolFormParameter("p", value=True, label="l"),
          lambda: IntegerFormParameter("p", value=1, label="l")][kind]
    v1, v2 = ALPHA[i1], ALPHA[i2]
    def assign(f, v):
        try:
            setattr(f, member, v)
            return True
        except BaseValidationError:
            return False
    used = mk()
    before_form, before_active = dict(used.form()), list(used.active)
    ok1 = assign(used, v1)
    if not ok1 and (dict(used.form()) != before_form or list(used.active) != before_active):
        return False                      # a rejected member assignment changed the form
    if ok1 and not (member in used.active and used.form()[member] == v1):
        return False
    fresh = mk()
    return assign(used, v2) == assign(fresh, v2)

def form_integer_member_rejection_leaves_form_unchanged__reach(mi: int, i1: int, i2: int) -> bool:
    """
    pre: 0 <= mi < 6 and 0 <= i1 < 8 and i2 == i1
    post: False
    """
    kind = 2
    member = ["optional", "enabled", "group", "dependency", "tooltip", "main"][mi]
    mk = [lambda: StringFormParameter("p", value="x", label="l"), lambda: BoolFormParameter("p", value=True, label="l"),
          lambda: IntegerFormParameter("p", value=1, label="l")][kind]
    v1, v2 = ALPHA[i1], ALPHA[i2]
    def assign(f, v):
        try:
            setattr(f, member, v)
            return True
        except BaseValidationError:
            return False
    used = mk()
    before_form, before_active = dict(used.form()), list(used.active)
    ok1 = assign(used, v1)
    if not ok1 and (dict(used.form()) != before_form or list(used.active) != before_active):
        return False                      # a rejected member assignment changed the form
    if ok1 and not (member in used.active and used.form()[member] == v1):
        return False
    fresh = mk()
    return assign(used, v2) == assign(fresh, v2)



def validate_data_stateless_one_of(a1: Optional[int], b1: Optional[int], a2: Optional[int], b2: Optional[int]) -> bool:
    """
    pre: all(x is None or -2 <= x <= 2 for x in (a1, b1, a2, b2))
    post: _
    """
    ui = {"a": {"label": "a", "value": 1, "optional": True, "enabled": False},
          "b": {"label": "b", "value": 1, "optional": True, "enabled": False}}
    extra = {"a": {"one_of": "grp"}, "b": {"one_of": "grp"}}
    mk = lambda: InputValidation(ui_json=deepcopy(ui), validations=deepcopy(extra))
    used = mk()
    _accepts(used.validate_data, {"a": a1, "b": b1})
    got = _accepts(used.validate_data, {"a": a2, "b": b2})
    exp = _accepts(mk().validate_data, {"a": a2, "b": b2})
    return got == exp and exp == (a2 is not None or b2 is not None)

def validate_data_stateless_one_of__reach(a1: Optional[int], b1: Optional[int], a2: Optional[int], b2: Optional[int]) -> bool:
    """
    pre: all(x is None or -2 <= x <= 2 for x in (a1, b1, a2, b2))
    post: False
    """
    ui = {"a": {"label": "a", "value": 1, "optional": True, "enabled": False},
          "b": {"label": "b", "value": 1, "optional": True, "enabled": False}}
    extra = {"a": {"one_of": "grp"}, "b": {"one_of": "grp"}}
    mk = lambda: InputValidation(ui_json=deepcopy(ui), validations=deepcopy(extra))
    used = mk()
    _accepts(used.validate_data, {"a": a1, "b": b1})
    got = _accepts(used.validate_data, {"a": a2, "b": b2})
    exp = _accepts(mk().validate_data, {"a": a2, "b": b2})
    return got == exp and exp == (a2 is not None or b2 is not None)



def type_validator_exact(value: Val, as_list: bool, tsel: int) -> bool:
    """
    pre: 0 <= tsel < 4 and _small(value)
    post: _
    """
    types = [[str], [int], [bool], [str, type(None)]][tsel]
    val = [value] if as_list else value
    return _accepts(TypeValidator.validate, "p", val, list(types)) == isinstance(value, tuple(types))

def type_validator_exact__reach(value: Val, as_list: bool, tsel: int) -> bool:
    """
    pre: 0 <= tsel < 4 and _small(value)
    post: False
    """
    types = [[str], [int], [bool], [str, type(None)]][tsel]
    val = [value] if as_list else value
    return _accepts(TypeValidator.validate, "p", val, list(types)) == isinstance(value, tuple(types))



def value_validator_exact(i: int, as_list: bool, j0: int, j1: int) -> bool:
    """
    pre: 0 <= i < 8 and 0 <= j0 < 8 and j1 == 6
    post: _
    """
    value, v0, v1 = ALPHA[i], ALPHA[j0], ALPHA[j1]
    val = [value] if as_list else value
    return _accepts(ValueValidator.validate, "p", val, [v0, v1]) == (value is None or value == v0 or value == v1)

def value_validator_exact__reach(i: int, as_list: bool, j0: int, j1: int) -> bool:
    """
    pre: 0 <= i < 8 and 0 <= j0 < 8 and j1 == 6
    post: False
    """
    value, v0, v1 = ALPHA[i], ALPHA[j0], ALPHA[j1]
    val = [value] if as_list else value
    return _accepts(ValueValidator.validate, "p", val, [v0, v1]) == (value is None or value == v0 or value == v1)



def optional_required_shape_validators_exact(value: Val, as_list: bool, optional: bool, required: bool) -> bool:
    """
    pre: _small(value)
    post: _
    """
    val = [value] if as_list else value
    o_ok = _accepts(OptionalValidator.validate, "p", value, optional)
    r_ok = _accepts(RequiredValidator.validate, "p", value, required)
    s_ok = _accepts(ShapeValidator.validate, "p", val, (1,))
    return o_ok == (value is not None or optional) and r_ok == (value is not None or not required) and s_ok

def optional_required_shape_validators_exact__reach(value: Val, as_list: bool, optional: bool, required: bool) -> bool:
    """
    pre: _small(value)
    post: False
    """
    val = [value] if as_list else value
    o_ok = _accepts(OptionalValidator.validate, "p", value, optional)
    r_ok = _accepts(RequiredValidator.validate, "p", value, required)
    s_ok = _accepts(ShapeValidator.validate, "p", val, (1,))
    return o_ok == (value is not None or optional) and r_ok == (value is not None or not required) and s_ok




if __name__ == '__main__':
    from math import inf, nan
    import sys
    try:
        r = enforcer_pool_stateless(1, 1, 6)
    except BaseException as e:
        print('RAISED', repr(e)); r = False
    print('condition enforcer_pool_stateless:', r)
    if not r:
        print('VIOLATION property=C15 replay=' + __file__)
    sys.exit(0 if r else 1)
