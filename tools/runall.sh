#!/bin/bash
# usage: tools/runall.sh [tier] -- every claimed check on the current /repo tree, summary line per property
tier=${1:-quick}
cd /verif
for p in C01 C02 C03 C04 C05 C06 C07 C08 C09 C10 C11 C12 C13 C14 C15 C16 C17 C18 C19 C20; do
  s=$(date +%s); ./check $p --tier $tier > .work/run_$p.out 2>&1; rc=$?
  echo "$p tier=$tier exit=$rc wall=$(( $(date +%s) - s ))s violations=$(grep -c '^VIOLATION' .work/run_$p.out) known=$(grep -c '^KNOWN-FINDING' .work/run_$p.out) harness_errors=$(grep -c 'HARNESS-ERROR' .work/run_$p.out)"
done
