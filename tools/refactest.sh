#!/bin/bash
# usage: tools/refactest.sh <diff> <Cxx> [<Cxx> ...]  -- apply a semantics-preserving change to /repo, run the checks, undo;
# every check must exit 0 (no VIOLATION, no harness error)
d=$(realpath $1); shift
cd /repo && git status --short | grep -q . && { echo "repo dirty"; exit 9; }
git apply "$d" || { echo "APPLY FAILED $d"; exit 9; }
cd /verif
for pid in "$@"; do
  timeout 1800 ./check $pid > /tmp/refactest.out 2>&1; rc=$?
  echo "$(basename $d) $pid exit=$rc violations=$(grep -c '^VIOLATION' /tmp/refactest.out) harness_errors=$(grep -c 'HARNESS-ERROR' /tmp/refactest.out) inconclusive=$(grep -c 'INCONCLUSIVE' /tmp/refactest.out) :: $(grep -m1 'HARNESS-ERROR\|VIOLATION\|INCONCLUSIVE' -A1 /tmp/refactest.out | tr '\n' ' ' | cut -c1-260)"
done
git -C /repo checkout -- .
