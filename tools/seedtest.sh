#!/bin/bash
# usage: tools/seedtest.sh <dir with patch.diff> <Cxx> [tier]   -- apply to /repo, run check, revert
d=$(realpath $1); pid=$2; tier=${3:-quick}
cd /repo && git status --short | grep -q . && { echo "repo dirty"; exit 9; }
git apply "$d/patch.diff" || { echo "APPLY FAILED"; exit 9; }
cd /verif && timeout 1800 ./check $pid --tier $tier > /tmp/seedtest.out 2>&1; rc=$?
git -C /repo checkout -- .
nv=$(grep -c "^VIOLATION" /tmp/seedtest.out)
echo "$pid $(basename $d) tier=$tier exit=$rc violations=$nv :: $(grep -m1 -A1 '^VIOLATION' /tmp/seedtest.out | tail -1 | cut -c1-220)"
grep "HARNESS-ERROR" /tmp/seedtest.out | head -2 | cut -c1-250
