#!/bin/bash
# usage: tools/matrix.sh [tier] -- run every seeded change against its property's check (serial: patches /repo)
tier=${1:-quick}
cd /verif
for d in seeded/*/; do
  id=$(basename $d); pid=${id%%_*}
  tools/seedtest.sh $d $pid $tier 2>&1 | head -1 | cut -c1-260
done
