#!/bin/bash
# usage: tools/adopt.sh <out_dir with mutantK/> <Cxx> <round>   -- confirm each change in a scratch worktree, first-run the
# quick check against it, store it as /verif/seeded/<Cxx>_r<round>_<K>/
out=$1; pid=$2; rnd=$3
wt=/tmp/adopt_$pid
git -C /repo worktree add -q $wt HEAD || exit 9
for m in $out/mutant[0-9]*/; do
  k=$(basename $m | sed 's/mutant//')
  id=${pid}_r${rnd}_$k
  ( cd $wt && git checkout -q -- . )
  PYTHONPATH=$wt /venv/bin/python $m/demo.py > /tmp/adopt_demo.out 2>&1; c0=$?
  ( cd $wt && git apply $m/patch.diff ) || { echo "$id: patch does not apply"; continue; }
  PYTHONPATH=$wt /venv/bin/python $m/demo.py > /tmp/adopt_demo.out 2>&1; c1=$?
  suite=$(cd $wt && PYTHONPATH=$wt /venv/bin/python -m pytest -q -p no:cacheprovider 2>&1 | tail -1)
  ( cd $wt && git checkout -q -- . )
  echo "$id demo_clean=$c0 demo_mutant=$c1 suite: $suite"
  if [ $c0 -eq 0 ] && [ $c1 -eq 1 ] && echo "$suite" | grep -q "^377 passed"; then
    d=/verif/seeded/$id; mkdir -p $d
    cp $m/patch.diff $m/demo.py $m/notes.txt $d/
    first=$(/verif/tools/seedtest.sh $d $pid quick | head -1)
    echo "   first run: $first" | cut -c1-300
    det=missed; echo "$first" | grep -q "exit=1 violations=[1-9]" && det=detected
    echo "$first" | grep -q "exit=2" && det="harness error (exit 2)"
    python3 - "$d" "$pid" "$rnd" "$c0" "$c1" "$suite" "$det" <<'PY'
import json,sys,re
d,pid,rnd,c0,c1,suite,det=sys.argv[1:8]
notes=re.sub(r'\s+',' ',open(d+'/notes.txt').read())[:900]
json.dump({"property":pid,"round":int(rnd),
 "origin":"independent sub-agent given only the property text, a scratch worktree and the list of earlier change sites to avoid",
 "needs_to_manifest":notes,
 "confirmed_by_me":{"what_i_ran":"in a scratch worktree: demo.py on the unchanged tree, git apply patch.diff, demo.py, whole pytest suite serially, git checkout",
                    "result":f"demo_clean={c0} demo_mutant={c1} suite: {suite}"},
 "first_run_of_quick_check":det,
 "apply":f"git -C /repo apply {d}/patch.diff ; undo: git -C /repo checkout -- ."},open(d+'/meta.json','w'),indent=1)
PY
  else
    echo "   NOT KEPT"
  fi
done
git -C /repo worktree remove --force $wt
rm -f /tmp/adopt_demo.out
