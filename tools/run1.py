"""debug helper: run one scenario in-process and print its stats:  run1.py harness.c04 UpdateValues '{"sizes":[2,0,1],...}'"""
import sys, json, os
sys.path.insert(0, os.path.dirname(os.path.dirname(os.path.abspath(__file__))))
sys.setrecursionlimit(20000)
from harness import common
spec = {"module": sys.argv[1], "cls": sys.argv[2], "params": json.loads(sys.argv[3])}
common.patch.import_all()
r = common.run_scenario(spec, "quick", json.loads(sys.argv[4]) if len(sys.argv) > 4 else [], None, 10, 5000)
st = r["stats"]
for k in ("paths", "decisions", "queries", "obligations", "discharged", "inconclusive", "infeasible", "outcomes", "gaps", "unknowns"):
    print(k, st[k])
print("wall", r["wall"], "solver", st["solver_time"])
print("validations", r["validations"])
print("error", r["error"])
for v in r["confirmed"][:5]: print("CONFIRMED", v["label"], v["model"])
for v in r["unconfirmed"][:5]: print("UNCONFIRMED", v["label"], v["model"], v["why"])
