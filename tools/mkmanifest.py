#!/usr/bin/env python3
"""Regenerate /verif/MANIFEST.json from the tables below (single source of truth)."""
import json, os, sys
HERE = os.path.dirname(os.path.dirname(os.path.abspath(__file__)))
sys.path.insert(0, HERE)
from registry import CLAIMED, NOT_APPLICABLE, ENGINES, NOTES  # noqa: E402

def main():
    checks = []
    for pid, c in sorted(CLAIMED.items()):
        checks.append({
            "property_id": pid,
            "quick_cmd": f"./check {pid} --tier quick",
            "thorough_cmd": f"./check {pid} --tier thorough",
            "evidence_file": f"/verif/evidence/{pid}.json",
            "replay_cmd_template": f"./check {pid} --replay {{path}}",
            "engine": c["engine"],
            "level_claimed": {"category": "model_checking", "text": c["level_text"], "design_ref": c["design_ref"]},
            "level_note": c["level_note"],
            "technique": c["technique"],
        })
    man = {
        "version": 1,
        "setup_cmd": "./setup.sh",
        "hooks": {
            "guard": "GEOH5PY_VERIF",
            "enable": "no source hooks are needed: the checks rebind module globals (np, h5py) of the imported /repo tree at run time",
            "baseline_off_cmd": "cd /repo && /venv/bin/python -m pytest -ra -q -p no:cacheprovider --timeout=900 --continue-on-collection-errors",
            "source_commits": [],
            "add_only": True,
        },
        "engines": ENGINES,
        "checks": checks,
        "notes": NOTES,
        "not_applicable": [{"property_id": k, "reason": v} for k, v in sorted(NOT_APPLICABLE.items())],
    }
    with open(os.path.join(HERE, "MANIFEST.json"), "w") as f:
        json.dump(man, f, indent=1)
        f.write("\n")
    print("wrote MANIFEST.json:", len(checks), "checks,", len(man["not_applicable"]), "not applicable")

if __name__ == "__main__":
    main()
