"""Single source of truth for MANIFEST.json (see tools/mkmanifest.py) and for ./check dispatch."""

ENGINES = [
    {
        "name": "symx",
        "path": "/verif/symx",
        "serves_properties": ["C01", "C02", "C03", "C04", "C05", "C06", "C07", "C08", "C09", "C10", "C11", "C12", "C13", "C16", "C17", "C18", "C19", "C20"],
        "kind_free_text": "own symbolic executor: geoh5py's real functions run under CPython with the module-global "
        "`np` (and, for file paths, `h5py`) rebound to z3-backed models; re-execution DFS forks on symbolic "
        "branches; obligations are z3 validity queries; counterexamples are replayed on real numpy/h5py",
    },
    {
        "name": "xh",
        "path": "/verif/xh",
        "serves_properties": ["C06", "C14", "C15"],
        "kind_free_text": "CrossHair 0.0.110 (symbolic execution of Python with z3) over generated PEP-316 harness "
        "functions that call the real pure-Python kernels",
    },
]

NOTES = (
    "Technique family: solver-based checking of the real code (bounded). Every claim is 'holds within the bounds "
    "written in the evidence file; silent outside them'. See DESIGN.md."
)

# property id -> dict(engine, level_text, level_note, technique, design_ref)
_SYMX_NOTE = (
    "trusted: the symx numpy model (validated on every run by replaying a model of each explored path on real numpy "
    "and comparing outcome, obligations and observed arrays), floats as mathematical reals, the seam that cuts the "
    "HDF5 write, z3; holds only within the shape bounds written in the evidence file"
)


def _symx(section, technique, text, note=_SYMX_NOTE):
    return {"engine": "symx", "technique": technique, "level_text": text, "level_note": note,
            "design_ref": f"DESIGN.md section 5, {section}"}


CLAIMED = {
    "C03": _symx(
        "C03",
        "symbolic execution of the real setters -> Workspace.update_attribute -> H5Writer.update_field/write_* -> (proxy "
        "over the real HDF5 file) -> fresh Workspace -> H5Reader/getters chain with symbolic attribute values; z3 "
        "validity of 'value at persist time == live value' and 'value read by a fresh reader == live value'; "
        "counterexamples replayed on real numpy/h5py",
        "bounded symbolic model checking per (class, attribute) pair of a typed table (objects, data, groups, types, "
        "project header): numeric attributes (origin, rotation, dip, counts, cell sizes, delimiters, collar, surveys, "
        "vertices, cells, octree cells, layers, prisms, values) are assigned symbolic values and z3 proves, for all of "
        "them, that the last persistence call happens after the value is stored and that a fresh Workspace on the same "
        "file reads the in-memory value; strings, flags, dictionaries and colour/value maps are concrete (evaluated "
        "directly). Attribute pairs are assigned in both orders; every pair is also assigned in a later session (entity "
        "re-read from the file first); drillholes and data inside a drillhole group (concatenated storage) are in the table; "
        "the re-read entity is compared on every mapped attribute and array field, a failing re-open is a failed read-back; for "
        "numeric attributes the getter must show the value assigned (z3 finds e.g. the zero a falsy test ignores); read-modify-write "
        "through the getter's array and infinite values are in the table.",
        _SYMX_NOTE + "; A-H5: symbolic payloads are kept beside the real HDF5 file by a proxy and handed back unchanged; "
        "seam C: instance-level recording wrapper around Workspace.update_attribute",
    ),
    "C04": _symx(
        "C04",
        "bounded symbolic execution of the real Concatenator index/data update code from an arbitrary valid layout "
        "(one inductive step); z3 validity queries; counterexamples replayed on real numpy",
        "bounded symbolic model checking of one inductive step: from every index layout satisfying the representation "
        "invariant (rows disjoint inside the array; Start indices symbolic) the real values setter / "
        "workspace.remove_entity / parent.remove_children run symbolically and z3 proves that other holes read back "
        "their old values, the target reads back the new ones, and the invariant (exact tiling, one row per live "
        "data set, no stale/duplicate/negative/wrapped entry) holds again. Shapes (holes, sizes, new length) are "
        "enumerated within stated bounds. The same steps also run against the real file (update / remove data / remove "
        "hole, optionally after a re-open, then re-open and compare every hole), and a drillhole group copied into "
        "another workspace is edited with source and copy both re-read (no shared state); new depth and interval tables with "
        "symbolic depths are added to a hole in a later session and read back row by row; a rename-only session; a column of "
        "symbolic values pushed through the group-wide table view.",
    ),
    "C16": _symx(
        "C16",
        "bounded symbolic execution of the real Points/Curve/SurfaceMerger.merge_objects (create_object, merge_data) on "
        "a z3-backed numpy model; z3 validity queries; counterexamples replayed on real numpy",
        "bounded symbolic model checking: 2-4 detached inputs with symbolic vertices, arbitrary in-range cell indices "
        "(unreferenced vertices included) and float data on enumerated subsets are merged by the real code; z3 proves "
        "that merged vertices are the inputs' in order, every merged cell connects the same coordinates as its "
        "input cell, data are concatenated with NaN where lacking, and the inputs are unchanged; stored variants re-read "
        "the merged object from the file; drape models are merged layout-agnostically (ghost prisms between inputs). "
        "Referenced, integer and boolean data on subsets of the inputs (concrete values) are merged with the kind's no-data "
        "code. Inputs carry uniquely named data (two data of one name and type on one input are outside the claim).",
    ),
    "C17": _symx(
        "C17",
        "bounded symbolic execution of the real centroids / base_refine / parts<->cells code with symbolic sizes, "
        "origins, rotation/dip (cos/sin uninterpreted) and part labels; z3 validity queries of the format's "
        "index/centre formulas; counterexamples replayed on real numpy",
        "bounded symbolic model checking: for each listed grid shape the real BlockModel/Grid2D/Octree.centroids run "
        "on symbolic delimiters, cell sizes, origin, rotation and dip and z3 proves, per cell, the format's index "
        "formula and centre position (polynomial identities over uninterpreted cos/sin), the centre count with and "
        "without explicit origin and cache invalidation after geometry setters; Curve parts->cells->parts is "
        "explored for all labelings of <=6 vertices, parts after cell removal and Grid2D.vertical with a warm centroid "
        "cache are included. Default octree tiling is evaluated concretely for all {1,2,4}^3 base shapes; octree records given among "
        "the creation arguments (any order) are kept; truthy non-bool vertical flags.",
    ),
    "C13": _symx(
        "C13",
        "bounded symbolic execution of the real mask_by_extent / box_intersect / copy_from_extent / masked copy code "
        "with symbolic coordinates, cells and box; z3 decides equality with an independent closed-box predicate; "
        "counterexamples replayed on real numpy",
        "bounded symbolic model checking: for points, curves, surfaces (<=4 vertices, <=3 cells) and 2-D grids (<=3x3, "
        "rotation 0 or an exact rational unit-circle point) the real selection and extent-copy code runs on symbolic "
        "coordinates, in-range cells, data and a symbolic 2-D/3-D box; z3 proves mask == closed-box predicate "
        "(with orphan handling and inverse), None only when allowed, copied vertices/cells/data exactly the "
        "selection re-indexed onto the same coordinates, and for grids the smallest covering sub-grid with blanking. "
        "Block models (float, integer and boolean children), drillholes (collar box, None when missed) and groups "
        "(inverse handed to every child, nested groups) and octrees (rotation 0) are covered by their own scenarios; derived "
        "values (extent, centres, one selection) are evaluated before the symbolic geometry is assigned.",
    ),
    "C18": _symx(
        "C18",
        "bounded symbolic execution of the real Drillhole.surveys/locations/desurvey/compute_deviation code with "
        "symbolic collar, survey rows and query depths (trigonometry uninterpreted); z3 (nonlinear real arithmetic) "
        "decides the path formula; counterexamples replayed on real numpy",
        "bounded symbolic model checking of the desurvey kernel: survey tables of 1-4 rows (non-decreasing depths, any "
        "azimuth/dip as uninterpreted directions), symbolic collar and query depths; z3 proves position(0) == collar, "
        "position(q) == P_i + (q-d_i) * mean(dir_i, dir_i+1) within each leg with P_i+1 the end of leg i (continuity), "
        "continuation beyond the last station, and displacement == depth difference where station directions coincide. "
        "match_values / merge_arrays on unsorted heads; and for depth logs (two logs, any order, collocated or not) and "
        "interval logs (one or two) added to a deviated hole: every vertex sits at desurvey(its depth), every cell joins "
        "the positions of its from/to depths, each value stays attached to its depth / interval; mixed sequences of up to "
        "three depth / interval logs in every order, also with tolerance zero; survey tables with a station repeated at the same depth.",
    ),
    "C08": _symx(
        "C08",
        "bounded symbolic execution of the real values setter -> format_values/format_type -> H5Writer.write_data_values "
        "-> (proxy over real HDF5) -> fresh Workspace -> H5Reader.fetch_values chain with exact modular cast model; z3 "
        "validity queries; counterexamples replayed on real numpy/h5py",
        "bounded symbolic model checking of the numeric storage path: arrays of 1-3 elements, each a symbolic finite "
        "value of the input dtype (unbounded magnitude within the dtype), NaN or +/-inf, are assigned to stored float, "
        "integer and boolean data; z3 proves that an accepted value is representable (integral, inside int32, 0/1), "
        "that the stored dataset holds the value / the no-data code, and that a fresh Workspace on the same file "
        "reads back what was written (NaN as NaN, integer gaps as the integer no-data code). Value maps (symbolic integer keys; "
        "an alphabet of float / numpy / negative keys) and metadata values of 16 Python / numpy kinds are read back equal or "
        "refused (values concrete, choice symbolic); float input of every numpy float dtype incl. half and long double; comments added "
        "one after another. Text and blobs are outside the claim.",
        _SYMX_NOTE + "; A-H5: datasets with symbolic content are kept beside the real HDF5 file by a proxy and handed "
        "back unchanged (h5py's own conversions are only exercised for concrete payloads)",
    ),
    "C07": {
        "engine": "symx",
        "technique": "bounded symbolic execution of the real remove_vertices/remove_cells/values-setter code on a "
        "z3-backed numpy model; z3 validity queries per path; counterexamples replayed on real numpy",
        "level_text": "bounded symbolic model checking: for every listed shape (n vertices, m cells, k removal indices, "
        "value-array lengths) all paths of the real Points/CellObject.remove_vertices, remove_cells, "
        "remove_children_values and NumericData.values setter are explored with symbolic coordinates, cell "
        "indices, data values and removal indices, and z3 proves per path that survivors keep coordinates and "
        "values, cells stay in range and connect the same coordinates, padding/refusal rules hold, and a failed "
        "call leaves geometry and data consistent; text, integer and boolean children follow the same survivors; masked "
        "copies of data; removal on a stored object followed by cache clearing and re-open; numpy-style negative indices; infinite "
        "values. Holds within the bounds only.",
        "level_note": "trusted: the symx numpy model (validated on every run by replaying a model of each explored "
        "path on real numpy and comparing outcome, obligations and observed arrays), floats as reals, seam A "
        "(HDF5 write cut by an instance-level no-op), z3",
        "design_ref": "DESIGN.md section 5, C07",
    },
}

CLAIMED["C12"] = _symx(
    "C12",
    "bounded symbolic execution of the real copy chain (ObjectBase/Data/Group.copy -> Workspace.copy_to_parent -> create_entity "
    "-> H5Writer, proxy over the real HDF5 files) with symbolic geometry, attribute and data values; z3 validity of term-wise "
    "equality copy == source, source == its own earlier snapshot after the copy was edited, and the same through fresh "
    "Workspaces; counterexamples replayed on real numpy/h5py",
    "bounded symbolic model checking, partial (value-level part of the property): one object per class {Points, Curve, Surface, "
    "Grid2D, BlockModel, Octree, DrapeModel, Drillhole} with symbolic vertices / cells / origin / sizes / rotation / dip / "
    "delimiters / octree cells / layers / prisms / collar / surveys / cost / end of hole and symbolic float data, plus integer, "
    "referenced (value map) and text children, a property group and metadata, is copied to the same parent, another group or "
    "another workspace, with and without children; z3 proves every mapped attribute and array of the copy and of its children "
    "equal to the source's, property groups listing the copy's own children, the source unchanged (live and re-read) after "
    "the copy and after the copy was edited, and the edited copy re-read as edited. Data copies (float / integer / referenced) "
    "and a two-level group subtree likewise. Survey classes and their links (C20), drillhole groups (C04), masked / extent "
    "copies (C07, C13) are outside this check.",
    _SYMX_NOTE + "; A-H5: symbolic payloads are kept beside the real HDF5 files by a proxy and handed back unchanged; names, "
    "flags, metadata, text, value maps and property-group membership are concrete (evaluated directly)",
)
CLAIMED["C12"]["design_ref"] = "DESIGN.md section 12.8"

CLAIMED["C01"] = _symx(
    "C01",
    "bounded symbolic execution of sequences of real API operations (setters, rename, move, copy, remove_vertices / remove_cells, "
    "remove_entity, add_data, property-group edits, close + re-open) on a stored tree with symbolic geometry and values; the "
    "operation at each step is a symbolic choice (every sequence of the bounded length is one explored path); z3 validity of "
    "'tree read by a fresh Workspace == tree the live workspace shows', term by term; counterexamples replayed on real numpy/h5py",
    "bounded symbolic model checking, partial: for every sequence of 2 (thorough: 3) operations from an alphabet of 22 on a tree of "
    "two groups, a second object with data, one target object (3-vertex point set or curve) with symbolic vertices, a float data set with symbolic values, an integer "
    "data set and a property group, the real code runs on a real HDF5 file (proxy keeps symbolic payloads) and z3 proves that a "
    "fresh Workspace shows exactly the entities the live one shows (none lost, duplicated or resurrected), each with the same "
    "class, parent, name, flags, vertices, cells, values and property-group membership. Newly assigned arrays, the removed "
    "vertex / cell index and new cell indices are symbolic. Garbage-collection placement, other entity classes, longer "
    "sequences and more objects are outside.",
    _SYMX_NOTE + "; A-H5: symbolic payloads are kept beside the real HDF5 file by a proxy and handed back unchanged; names, flags "
    "and the tree shape are concrete; GC timing is not modelled",
)
CLAIMED["C01"]["design_ref"] = "DESIGN.md section 12.11"

CLAIMED["C05"] = _symx(
    "C05",
    "bounded symbolic execution of the real removal code (Workspace.remove_entity / remove_recursively, parent.remove_children, "
    "property-group clean-up, H5Writer.remove_entity / remove_child) on a stored tree with symbolic geometry and values; the "
    "removed entity, the entry point, the delete permission and a follow-up operation are symbolic choices (one path each); z3 "
    "validity of 'survivors keep their state' term by term; removed identifiers are looked for in the live tree, the lookups, "
    "the property groups, the listings, the file's flat containers and the tree a fresh Workspace reads; counterexamples "
    "replayed on real numpy/h5py",
    "bounded symbolic model checking, partial: on a tree {group {object with four data sets in two overlapping property groups, "
    "nested group {curve with cell data}}, object with data} every combination of removed entity (8) x entry point (workspace, "
    "parent; also two adjacent children in one call) x delete permission (on, off, off and re-read from the file) x follow-up (none, copy a survivor, remove another entity, add data, re-open then copy) "
    "is explored: the entity and its descendants are gone from the tree, lookups by identifier and name, listings (references "
    "dropped, collector run) and the file's containers; no property group lists removed data; survivors (symbolic vertices and "
    "values) are unchanged live and re-read; follow-ups succeed; a workspace removal with the permission off is refused and "
    "changes nothing. Concatenated holes (C04), other trees and longer histories are outside.",
    _SYMX_NOTE + "; A-H5: symbolic payloads are kept beside the real HDF5 file by a proxy and handed back unchanged; the tree shape "
    "is concrete",
)
CLAIMED["C05"]["design_ref"] = "DESIGN.md section 12.12"

CLAIMED["C02"] = _symx(
    "C02",
    "symx path exploration of sequences of real API operations (operation per step and removal indices symbolic, z3 feasibility; "
    "every sequence of the bounded length is one explored path) on a real HDF5 file, followed by a structural validator that "
    "opens the file with real h5py and evaluates the layout rules of the statement; counterexamples replayed on real numpy/h5py",
    "bounded model checking, partial and weaker than the value-level claims: the solver enumerates the operation sequences "
    "(15-operation alphabet, length 2, thorough 3; plus 12 cross-workspace / drillhole-group cases) and decides the symbolic "
    "removal indices; after each sequence and a close, the file must have one project group with Data / Groups / Objects / Types "
    "and a Root link, every entity stored under its identifier with a matching ID attribute, a Type link that is the same HDF5 "
    "object as the shared type, parent-to-child entries that are hard links to the nodes of the flat containers, exactly one "
    "parent per entity and reachability from Root, no identifier twice, property groups listing only children of their "
    "object. The rules themselves are checked on the concrete file (nothing symbolic in them).",
    "trusted: h5py for reading the layout back, the structural validator (harness/c02.py), the symx explorer; the numpy model only "
    "matters for the operations' payloads; holds for the explored sequences only",
)
CLAIMED["C02"]["design_ref"] = "DESIGN.md section 12.13"

CLAIMED["C09"] = _symx(
    "C09",
    "bounded symbolic execution of one real API operation (chosen symbolically from 15, numeric payloads and removal indices "
    "symbolic) on a target object in a real HDF5 file; node-by-node digest of the unrelated entities (attributes and datasets read "
    "with real h5py, symbolic payloads from the proxy's side store) before and after; z3 validity of term-wise identity; "
    "counterexamples replayed on real numpy/h5py",
    "bounded symbolic model checking, partial: for one step from {open and close only, set vertices, set values, rename, move, copy, "
    "remove a vertex, remove data, add data, property-group membership, remove object, set flags, set cells, remove a cell, modify "
    "values / vertices in place, empty property group, give a data another type, add boolean / float data of an existing type} on a "
    "point set or curve with symbolic state, every HDF5 node of the unrelated group, objects (symbolic vertices; one stored under "
    "another object), float (symbolic values; one sharing the target data's type) / text / referenced / boolean data, their data and group types, the unrelated property group and the "
    "project header attributes is identical before and after (same nodes, same attributes, same datasets). Other reachable "
    "states, other entity classes and byte-level identity of the file are outside.",
    _SYMX_NOTE + "; A-H5: symbolic payloads are kept beside the real HDF5 file by a proxy and handed back unchanged",
)
CLAIMED["C09"]["design_ref"] = "DESIGN.md section 12.14"

CLAIMED["C19"] = _symx(
    "C19",
    "symx path exploration over single faults: the deleted item is a symbolic index into the list of items of a file written by "
    "the library (one path per item, z3 feasibility), the deletion is done with real h5py, the real reader re-opens the file "
    "behind the proxy; z3 validity of term-wise equality of every entity not described by the item (symbolic vertices and "
    "values); counterexamples replayed on real numpy/h5py",
    "bounded model checking, partial and weak: on one file (group, curve with float and referenced data, property group, metadata; "
    "point set with data; symbolic vertices and float values) every single deletion of an attribute (project group, entities, "
    "types), of the Root / Type / PropertyGroups / Color map / Value map links, of an attribute of a property-group block, of an empty child "
    "container or of a flat container is explored (168 items; the file also holds a drillhole group and is re-opened read-only): a file without an optional item opens, and every entity the item does not describe comes back with "
    "the same class, parent, name, flags, geometry, values and property groups; for other items the reader may raise. The choice "
    "of the fault is the only thing the solver decides besides the term-wise comparison.",
    _SYMX_NOTE + "; the optional / mandatory classification of items (harness/c19.py OPTIONAL_ATTRS) is the harness author's reading "
    "of the statement",
)
CLAIMED["C19"]["design_ref"] = "DESIGN.md section 12.15"

CLAIMED["C10"] = _symx(
    "C10",
    "symx path exploration (z3 feasibility only): the sequence of API calls on a workspace opened with mode 'r' is a symbolic choice "
    "from an alphabet of 29 (one explored path per sequence); the bytes and modification time of the file, the handle's mode and "
    "the raise / no-raise verdict of each call are observed on the real code; counterexamples replayed on the real code",
    "bounded model checking, partial and weak (nothing value-level): for all sequences of 2 (thorough: 3) calls from {23 mutating calls: "
    "setters, rename, move, copies inside the workspace, removals, add_data, property-group edits, metadata, type and value-map "
    "changes, creations, edits of a hole in a drillhole group; 6 reading calls: read every attribute, copy to another workspace, "
    "copy to a monitoring directory, load a ui.json naming the (unheld) file, re-open in mode 'r', close then open()} on a file on "
    "disk (also one without the Root link): the bytes and the modification time of the file are unchanged, "
    "the handle stays in mode 'r', a mutating call issued from a clean state fails with an error, the reading calls work.",
    "trusted: h5py / the OS for honouring mode 'r'; the symx explorer for enumerating the sequences. Only the choice of the sequence is "
    "symbolic",
)
CLAIMED["C10"]["design_ref"] = "DESIGN.md section 12.17"
CLAIMED["C11"] = _symx(
    "C11",
    "symx path exploration with symbolic payloads: two operations from the C01 alphabet inside a `with Workspace(...)` block whose ending "
    "(normal exit, exception after k operations, explicit close, re-open in mode 'r') is a symbolic choice; z3 validity of 'tree read "
    "by a fresh Workspace == live tree when the last operation completed', term by term; handle state and closed-file errors "
    "observed on the real code; counterexamples replayed on real numpy/h5py",
    "bounded model checking, partial: first operation (12, incl. deferred creation and drillhole-group edits that are flushed at the close) x second operation "
    "(12) x ending (9, incl. the fetch_active_workspace helper) on a stored tree with symbolic vertices "
    "and values: after the block the workspace reports its file closed and keeps no open handle; adding data / renaming through a "
    "handle obtained before the close and fetching children raise the dedicated closed-file error; the file opens again and holds "
    "exactly the entities, geometry, values and flags the live workspace showed when the last operation returned; re-opening the "
    "same workspace object restores access. Abort points are between operations (as in the statement); process kills are out of scope.",
    _SYMX_NOTE + "; that h5py releases the OS handle when its File object is closed is trusted",
)
CLAIMED["C11"]["design_ref"] = "DESIGN.md section 12.17"

CLAIMED["C20"] = _symx(
    "C20",
    "symx path exploration (z3 feasibility only): survey class pair fixed per scenario; linking side, edited parameter and side, copy "
    "kind and side and a re-open are symbolic choices (one explored path per combination) on the real library and a real file; "
    "partner resolution, identifiers in the metadata, shared parameters and copies are observed; counterexamples replayed on the real code",
    "bounded model checking, partial and weak (values are concrete: shared parameters are JSON text in the metadata): for 8 class pairs "
    "(airborne / moving-loop / large-loop x TEM / FEM, tipper, direct current) x linking side x edit {none, channels, unit, input "
    "type, channels through both sides} x edited side x copy {none, plain, other workspace, masked} x copied side x re-open x partner looked at before the edit or not x edit in a "
    "later session (10240 paths), plus relinking (partner linked elsewhere, link restored from either side): both identifiers are recorded on both entities and each resolves its partner (live and after re-opening); a valid "
    "edit through either side is accepted, visible on both and stored; a copy of one side also copies the partner, the two copies "
    "point at each other and not at the originals, and the originals stay linked.",
    "trusted: the symx explorer for enumerating the combinations; everything else is the real library on real h5py. Only the choices are "
    "symbolic",
)
CLAIMED["C20"]["design_ref"] = "DESIGN.md section 12.18"

_XH_NOTE = (
    "trusted: CrossHair 0.0.110 (symbolic execution of CPython code with z3) and its models of builtins; the harness "
    "functions call the real geoh5py kernels directly (no translation); holds only within the value bounds in the evidence"
)


def _xh(section, technique, text, note=_XH_NOTE):
    return {"engine": "xh", "technique": technique, "level_text": text, "level_note": note,
            "design_ref": f"DESIGN.md section 5, {section}"}


CLAIMED["C15"] = _xh(
    "C15",
    "CrossHair symbolic execution (z3) of PEP-316 conditions over the real ui.json utilities, validators, enforcers and "
    "parameters; 'Confirmed over all paths' per condition; counterexamples replayed in plain Python",
    "bounded symbolic model checking: requires_value equals a reference of the documented switch hierarchy for all 2^11 "
    "switch combinations; value and choice forms accept a value iff their declared type / choice list / None rule admits "
    "it; Type/Value/Optional/Required/Shape validators are exact; EnforcerPool, Parameter and "
    "InputValidation.validate_data give history-independent verdicts and a rejected Parameter assignment leaves the "
    "stored value unchanged; a rejected FormParameter member assignment leaves the form unchanged. Values: None, bool, small "
    "ints, strings of length <= 1 (alphabet of 8 values for set-membership conditions). Association and property-group-type "
    "validators: every (referenced parent, value, entity-or-identifier, declared type) combination on a three-level tree is "
    "one explored path of the real validators; restricted parameters (choice list, object type, type list) keep their "
    "stored value when a value is refused with any exception (unhashable values, values without default_type_uid); group "
    "membership is equality of group names, blank names included; required_object_data accepts exactly the parent-child pairs "
    "(two pairs, two parents); FormParameter.register is all-or-nothing.",
)
CLAIMED["C15"]["engine"] = "xh+symx"

CLAIMED["C14"] = _xh(
    "C14",
    "CrossHair symbolic execution (z3) of PEP-316 conditions over the real stringify/numify mapper chain and InputFile "
    "(demote -> stringify -> numify); 'Confirmed over all paths' per condition; counterexamples replayed in plain Python",
    "bounded symbolic model checking, partial: None/bool/short strings, every integer (unbounded, plus the 32-digit band), "
    "finite floats and both infinities, lists of <=2 values survive the write/read mapper chain with value and type; whole "
    "forms of six kinds (bool, int, float incl. inf, string, choice, object uuid) keep data value and enabled state for all "
    "2^5 optional/enabled/groupOptional switch combinations; disabling by None survives; data-or-value routing. File level: "
    "the real write_ui_json / read_ui_json with a workspace on disk is explored over all optional/enabled/isValue switch "
    "combinations (identifiers promoted to the same entities, also a property group owned by a second object; workspace path "
    "re-opened; demotion returns the identifiers; None assigned to a dependency-enabled parameter is read back as None). "
    "Drillhole-group data, range and file forms are outside the claim.",
)
CLAIMED["C14"]["engine"] = "xh+symx"

CLAIMED["C06"] = {
    "engine": "xh+symx",
    "technique": "CrossHair symbolic execution of the weak-reference registry helpers against executable specifications; "
    "symx path exploration (z3 feasibility, symbolic kinds and flags) of the real Workspace create / copy / register code",
    "level_text": "bounded symbolic model checking, kernel level: insert_once / get_clean_ref / remove_none_referents are confirmed "
    "over all registries of <=3 entries (raise iff live owner, refused insert changes nothing, dead referents never returned); "
    "at workspace level every combination of entity kind, same/free identifier, same/other workspace, occupied identifier, "
    "with data / property group is one explored path of the real code: reuse inside a registry is refused, lookup returns the "
    "owner, same-workspace copies get fresh identifiers, cross-workspace copies keep free ones, one type per class; "
    "data and property-group identifiers (given as UUID or text) reused on the same or another object are refused and "
    "leave the children unchanged; the file re-opens after a refusal; an identifier released by removal (references dropped, "
    "collected) can be given to an entity of any kind and is then looked up to its new owner (also the identifiers of the removed "
    "object's children, live and after a re-open); a moved entity keeps its identifier; property-group requests through create "
    "and find_or_create.",
    "level_note": _XH_NOTE + "; the workspace-level part runs the real Workspace on real h5py and only the switches are symbolic",
    "design_ref": "DESIGN.md section 5, C06",
}

_NOT_BUILT = "check not built yet (planned, see DESIGN.md section 5)"

NOT_APPLICABLE = {
}
