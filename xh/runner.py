"""xh engine: CrossHair over generated PEP-316 harness functions that call the real pure-Python kernels.

Each condition is a private function ``def name(args) -> bool`` with ``pre:`` lines (documented domain + bounds) and
``post: _``.  Verdicts: 'Confirmed over all paths' -> discharged; counterexample -> re-run concretely in plain Python
(replay) and report only if it reproduces; 'Not confirmed' / 'Unable to meet precondition' / timeout -> inconclusive.
Every condition has a reachability twin (same preconditions, ``post: False``) that must be refuted.
"""
from __future__ import annotations

import concurrent.futures as cf
import json
import os
import re
import subprocess
import sys
import textwrap
import time

HERE = os.path.dirname(os.path.dirname(os.path.abspath(__file__)))
PY = os.path.join(HERE, ".venv", "bin", "python")
WORK = os.path.join(HERE, ".work")

EXIT_OK, EXIT_VIOLATION, EXIT_HARNESS = 0, 1, 2


class Cond:
    def __init__(self, name, src, what, timeout=None, exclusions=None, twin=True, family=None, sample=None):
        self.name = name
        self.src = textwrap.dedent(src).strip("\n")
        self.what = what
        self.timeout = timeout
        self.exclusions = exclusions or {}      # finding id -> python expression over the arguments (the input class)
        self.twin = twin
        self.family = family or name
        self.sample = sample


def _with_pre(src, extra_pre, new_name=None, post=None):
    """insert extra ``pre:`` lines at the top of the docstring; optionally rename / replace the postcondition"""
    lines = src.split("\n")
    out = []
    done = False
    for ln in lines:
        if new_name and ln.startswith("def "):
            ln = re.sub(r"^def \w+", f"def {new_name}", ln)
        if post is not None and ln.strip().startswith("post:"):
            ln = ln[: len(ln) - len(ln.lstrip())] + f"post: {post}"
        out.append(ln)
        if not done and ln.strip().startswith('"""'):
            ind = ln[: len(ln) - len(ln.lstrip())]
            for p in extra_pre:
                out.append(f"{ind}pre: {p}")
            done = True
    return "\n".join(out)


def _load_findings(pid):
    p = os.path.join(HERE, "known_findings.json")
    if not os.path.exists(p):
        return []
    with open(p) as f:
        return [e for e in json.load(f).get("findings", []) if e.get("property") == pid and e.get("engine") == "xh"]


_RES = re.compile(r"^(?P<file>[^:]+):(?P<line>\d+): (?P<kind>error|info|warning): (?P<msg>.*)$")


def _run_one(modfile, lineno, timeout, verbose=True):
    cmd = [PY, "-m", "crosshair", "check", "--report_all", "--per_condition_timeout", str(timeout),
           "--per_path_timeout", str(max(2.0, timeout / 4)), f"{modfile}:{lineno}"]
    if verbose:
        cmd.insert(4, "-v")
    t0 = time.time()
    try:
        p = subprocess.run(cmd, capture_output=True, text=True, timeout=timeout * 3 + 60, cwd=HERE,
                           env={**os.environ, "PYTHONPATH": HERE, "PYTHONDONTWRITEBYTECODE": "1"})
        out = p.stdout + "\n" + p.stderr
    except subprocess.TimeoutExpired as e:
        out = (e.stdout or "") + "\n" + (e.stderr or "") if isinstance(e.stdout, str) else ""
        out += "\nTIMEOUT"
    wall = time.time() - t0
    verdict, msg = "inconclusive", "no verdict line"
    for ln in out.splitlines():
        m = _RES.match(ln.strip())
        if not m:
            continue
        k, t = m.group("kind"), m.group("msg")
        if "Confirmed over all paths" in t:
            verdict, msg = "confirmed", t
        elif k == "error":
            verdict, msg = "counterexample", t
            break
        elif "Not confirmed" in t or "Unable to meet precondition" in t or "Unknown" in t:
            verdict, msg = "inconclusive", t
    stats = re.findall(r"Path tree stats \{([^}]*)\}", out)
    paths = 0
    if stats:
        for part in stats[-1].split(","):
            if ":" in part:
                try:
                    paths += int(part.split(":")[1])
                except ValueError:
                    pass
    iters = re.findall(r"Number of iterations:\s+(\d+)", out)
    if "CrossHairInternal" in out and verdict != "confirmed":
        verdict, msg = "inconclusive", "CrossHair internal error"
    return {"verdict": verdict, "msg": msg, "paths": max(paths, int(iters[-1]) if iters else 0), "wall": wall,
            "tail": out[-600:] if verdict == "inconclusive" else ""}


def _replay(modfile, name, call):
    """run the counterexample call concretely; True if the condition is really false / raises"""
    code = (f"import importlib.util, sys\nspec = importlib.util.spec_from_file_location('xhmod', {modfile!r})\n"
            f"m = importlib.util.module_from_spec(spec); spec.loader.exec_module(m)\n"
            f"from math import inf, nan\nglobals().update(vars(m))\n"
            f"try:\n    r = {call}\nexcept BaseException as e:\n    print('RAISED', type(e).__name__, e); sys.exit(1)\n"
            f"print('RESULT', r); sys.exit(0 if r else 1)\n")
    p = subprocess.run([PY, "-c", code], capture_output=True, text=True, cwd=HERE,
                       env={**os.environ, "PYTHONPATH": HERE, "PYTHONDONTWRITEBYTECODE": "1"}, timeout=120)
    return p.returncode == 1, (p.stdout + p.stderr)[-300:]


def run_xh(pid, prelude, conds, tier, seed, *, assumptions, outside, bounds, default_timeout=None, functions=None,
           merge_evidence=False):
    t0 = time.time()
    os.makedirs(WORK, exist_ok=True)
    os.makedirs(os.path.join(HERE, "replays"), exist_ok=True)
    default_timeout = default_timeout or (40 if tier == "quick" else 180)
    findings = _load_findings(pid)
    open_ids = {f["id"] for f in findings if f.get("status") == "open"}
    # generate the module
    parts = [textwrap.dedent(prelude).strip("\n"), ""]
    jobs = []       # (cond, role, function name)
    for c in conds:
        excl = [f"not ({expr})" for fid, expr in c.exclusions.items() if fid in open_ids]
        parts.append(_with_pre(c.src, excl))
        jobs.append((c, "main", c.name))
        if c.twin:
            parts.append(_with_pre(c.src, excl, new_name=c.name + "__reach", post="False"))
            jobs.append((c, "reach", c.name + "__reach"))
        for fid, expr in c.exclusions.items():
            if fid in open_ids:
                parts.append(_with_pre(c.src, [expr], new_name=f"{c.name}__kf_{fid.replace('-', '_')}"))
                jobs.append((c, "known:" + fid, f"{c.name}__kf_{fid.replace('-', '_')}"))
        parts.append("")
    modfile = os.path.join(WORK, f"xh_{pid.lower()}_{tier}.py")
    src = "\n\n".join(parts) + "\n"
    with open(modfile, "w") as f:
        f.write(src)
    lines = src.split("\n")
    lineno = {}
    for i, ln in enumerate(lines, 1):
        m = re.match(r"^def (\w+)\(", ln)
        if m:
            lineno[m.group(1)] = i + 1      # a line inside the def
    results = {}
    with cf.ThreadPoolExecutor(max_workers=min(16, os.cpu_count() or 4)) as ex:
        futs = {}
        for c, role, fn in jobs:
            to = c.timeout or default_timeout
            if role == "reach":
                to = min(to, 30)
            futs[ex.submit(_run_one, modfile, lineno[fn], to)] = (c, role, fn)
        for fu in cf.as_completed(futs):
            results[futs[fu][2]] = (futs[fu], fu.result())

    out_lines, harness_errors, samples = [], [], []
    n_conf = n_inc = n_viol = paths = 0
    solver_time = 0.0
    exit_code = EXIT_OK
    per_cond = []
    known_hit = set()
    for c, role, fn in jobs:
        (_, r) = results[fn]
        paths += r["paths"]
        solver_time += r["wall"]
        if role == "reach":
            if r["verdict"] != "counterexample":
                harness_errors.append(f"vacuity: reachability twin of {c.name} was not refuted ({r['verdict']}: {r['msg']})")
            continue
        if role.startswith("known:"):
            fid = role.split(":", 1)[1]
            if r["verdict"] == "counterexample":
                call = _call_of(r["msg"], fn)
                ok, _ = _replay(modfile, fn, call) if call else (False, "")
                if ok:
                    known_hit.add(fid)
            continue
        per_cond.append({"condition": c.name, "what": c.what, "verdict": r["verdict"], "paths": r["paths"],
                         "wall_s": round(r["wall"], 1), "detail": r["msg"][:200]})
        if r["verdict"] == "confirmed":
            n_conf += 1
            if len(samples) < 4:
                samples.append({"condition": c.name, "what": c.what, "paths": r["paths"], "verdict": "Confirmed over all paths"})
        elif r["verdict"] == "counterexample":
            call = _call_of(r["msg"], fn)
            ok, detail = _replay(modfile, fn, call) if call else (False, "could not parse the counterexample call")
            if ok:
                n_viol += 1
                rp = os.path.join(HERE, "replays", f"{pid}_{c.name}.py")
                with open(rp, "w") as f:
                    f.write(src + f"\n\nif __name__ == '__main__':\n    from math import inf, nan\n    import sys\n"
                                  f"    try:\n        r = {call}\n    except BaseException as e:\n        print('RAISED', repr(e)); r = False\n"
                                  f"    print('condition {c.name}:', r)\n"
                                  f"    if not r:\n        print('VIOLATION property={pid} replay=' + __file__)\n    sys.exit(0 if r else 1)\n")
                out_lines.append(f"VIOLATION property={pid} replay={rp}")
                out_lines.append(f"  condition={c.name} ({c.what}) counterexample: {call}  [{r['msg'][:160]}]")
                exit_code = EXIT_VIOLATION
            else:
                # CrossHair's own models of builtins can differ from CPython: a counterexample that does not reproduce
                # concretely is neither a violation nor a pass
                n_inc += 1
                per_cond[-1]["verdict"] = "inconclusive"
                per_cond[-1]["detail"] = f"counterexample did not replay in plain Python: {call} ({detail.strip()[:80]})"
        else:
            n_inc += 1
    for f in findings:
        if f.get("status") == "open" and f["id"] in known_hit:
            out_lines.insert(0, f"KNOWN-FINDING: property={pid} {f['id']} {f['what']}")
    if harness_errors and exit_code == EXIT_OK:
        exit_code = EXIT_HARNESS
    wall = time.time() - t0
    n_main = len([j for j in jobs if j[1] == "main"])
    ev = {
        "property_id": pid, "tier": tier, "seed": seed, "level": "model_checking",
        "coverage": {
            "states": max(paths, 1), "transitions": max(paths, 1),
            "transitions_note": "CrossHair explores one execution path per iteration: paths are counted for both keys",
            "traces_validated_against_impl": n_main,
            "traces_note": "every condition calls the real geoh5py functions directly (no model): each explored path is an "
                           "execution of the implementation on solver-chosen values",
            "samples": samples or [{"condition": conds[0].name, "what": conds[0].what}],
            "obligations": n_main, "discharged": n_conf, "inconclusive": n_inc, "violations_confirmed": n_viol,
            "per_condition": per_cond, "bounds": bounds, "outside_claim": outside,
            "solver_time_s": round(solver_time, 1), "queries": paths,
            "functions_encoded": functions or [], "harness_errors": harness_errors[:10],
            "known_findings_reported": [ln for ln in out_lines if ln.startswith("KNOWN-FINDING")],
            "exhaustive": False,
            "explanation": "CrossHair 0.0.110 symbolic execution (z3) of PEP-316 harness functions over the real kernels; "
                           "'Confirmed over all paths' within the stated input bounds",
        },
        "assumptions": assumptions, "wall_s": round(wall, 2), "violations": n_viol,
    }
    evp = os.path.join(HERE, "evidence", f"{pid}.json")
    if merge_evidence and os.path.exists(evp):
        with open(evp) as f:
            old = json.load(f)
        oc, nc = old["coverage"], ev["coverage"]
        for k in ("states", "transitions", "traces_validated_against_impl", "obligations", "discharged", "inconclusive", "queries"):
            nc[k] = nc.get(k, 0) + oc.get(k, 0)
        nc["samples"] = (oc.get("samples") or []) + nc["samples"]
        nc["functions_encoded"] = sorted(set(oc.get("functions_encoded", [])) | set(nc["functions_encoded"]))
        nc["solver_time_s"] = round(nc.get("solver_time_s", 0) + oc.get("solver_time_s", 0), 2)
        nc["symx_part"] = {k: oc.get(k) for k in ("per_scenario", "outcomes", "obligation_families_reached", "bounds", "stubs",
                                                    "harness_errors", "known_findings_reported", "shim_gaps")}
        nc["outside_claim"] = sorted(set(oc.get("outside_claim", [])) | set(nc["outside_claim"]))
        nc["explanation"] = oc.get("explanation", "") + " + " + nc["explanation"]
        ev["assumptions"] = list(old.get("assumptions", [])) + ev["assumptions"]
        ev["wall_s"] = round(ev["wall_s"] + old.get("wall_s", 0), 2)
        ev["violations"] = ev["violations"] + old.get("violations", 0)
    with open(evp, "w") as f:
        json.dump(ev, f, indent=1, default=str)
    for ln in out_lines:
        print(ln)
    print(f"[{pid}] tier={tier} engine=xh conditions={n_main} confirmed={n_conf} inconclusive={n_inc} violations={n_viol} "
          f"paths={paths} wall={wall:.1f}s exit={exit_code}")
    for pc in per_cond:
        if pc["verdict"] != "confirmed":
            print(f"[{pid}]   {pc['condition']}: {pc['verdict']} -- {pc['detail']}")
    for h in harness_errors[:10]:
        print(f"[{pid}] HARNESS-ERROR: {h}", file=sys.stderr)
    return exit_code


def _call_of(msg, fn):
    m = re.search(r"when calling (" + re.escape(fn) + r"\(.*\))(?: \(which returns.*)?$", msg)
    if not m:
        return None
    call = m.group(1)
    call = re.sub(r"\s*\(which returns.*$", "", call)
    return call
