import time, contextlib, importlib, warnings, itertools, sys
import z3
import numpy as real_np
import symx
from symx import SInt, SReal, SBool, Ctx, explore, prove, ndarray, recarray, Violation
from geoh5py.workspace import Workspace
from geoh5py.groups import DrillholeGroup
from geoh5py.objects import Drillhole

MODS = ["geoh5py.shared.concatenation.concatenator", "geoh5py.data.numeric_data", "geoh5py.data.float_data"]
@contextlib.contextmanager
def shim():
    saved = {}
    for m in MODS:
        mod = importlib.import_module(m); saved[m] = mod.np; mod.np = symx
    try: yield
    finally:
        for m in MODS: importlib.import_module(m).np = saved[m]

SIZES = (2, 0, 1)
NEWLEN = 3
TARGET = 0

def setup(ctx):
    ws = Workspace()
    g = DrillholeGroup.create(ws, name="DH")
    holes, datas = [], []
    for k, sz in enumerate(SIZES):
        h = Drillhole.create(ws, parent=g, name=f"h{k}", collar=[0.,0.,0.], surveys=real_np.c_[[0.,10.],[0.,0.],[-90.,-90.]])
        d = h.add_data({"lbl": {"depth": real_np.arange(sz)+1., "values": real_np.arange(sz)+5.}})
        holes.append(h); datas.append(d)
    g.on_file = False
    for d in datas: d.on_file = False
    real_idx = g.index["lbl"]
    n = len(SIZES); total = sum(SIZES)
    starts = [z3.Int(f"s{i}") for i in range(n)]
    # tiling invariant: disjoint intervals covering [0,total)
    for i in range(n):
        ctx.solver.add(starts[i] >= 0, starts[i] + SIZES[i] <= total)
        for j in range(i+1, n):
            ctx.solver.add(z3.Or(starts[i] + SIZES[i] <= starts[j], starts[j] + SIZES[j] <= starts[i]))
    vals = [z3.Real(f"x{p}") for p in range(total)]
    newv = [z3.Real(f"n{p}") for p in range(NEWLEN)]
    ctx.sh = shim(); ctx.sh.__enter__()
    idx = recarray(["Start index", "Size", "Object ID", "Data ID"],
                   [[SInt(s) for s in starts], list(SIZES), [r[2] for r in real_idx], [r[3] for r in real_idx]])
    data = dict(g.data); index = dict(g.index)
    data["lbl"] = ndarray([SReal(v) for v in vals], (total,)); index["lbl"] = idx
    g.data = data; g.index = index
    tgt = datas[TARGET]
    tgt._values = ndarray([SReal(v) for v in newv], (NEWLEN,))
    g._keep_ws = ws
    return g, holes, datas, starts, vals, newv

def run(ctx, inp):
    g, holes, datas, starts, vals, newv = inp
    n = len(SIZES); total = sum(SIZES)
    tgt = datas[TARGET]
    g.update_array_attribute(tgt, tgt.name)
    # frame: other holes read back the same values
    for k, d in enumerate(datas):
        got = g.fetch_values(d, "lbl")
        if k == TARGET:
            prove(ctx, got is not None and got.shape[0] == NEWLEN, "target length")
            for p in range(NEWLEN):
                prove(ctx, symx._lift(got._d[p]) == newv[p], f"target value {p}")
        else:
            prove(ctx, got is not None and got.shape[0] == SIZES[k], f"hole {k} length")
            for p in range(SIZES[k]):
                # old value at starts[k]+p
                old = vals[-1]
                for q in range(total-2, -1, -1):
                    old = z3.If(starts[k] + p == q, vals[q], old)
                prove(ctx, symx._lift(got._d[p]) == old, f"hole {k} value {p}")
    # tiling of new index
    idx = g.index["lbl"]; newtotal = g.data["lbl"].shape[0]
    prove(ctx, newtotal == total - SIZES[TARGET] + NEWLEN, "total length")
    rows = idx.tolist()
    prove(ctx, len(rows) == n, "row count")
    for i, r in enumerate(rows):
        prove(ctx, z3.And(symx._lift(r[0]) >= 0, symx._lift(r[0]) + symx._lift(r[1]) <= newtotal), "row in range")
        for j in range(i+1, len(rows)):
            r2 = rows[j]
            prove(ctx, z3.Or(symx._lift(r[0]) + symx._lift(r[1]) <= symx._lift(r2[0]), symx._lift(r2[0]) + symx._lift(r2[1]) <= symx._lift(r[0])), "rows disjoint")
    return "ok"

t = time.time()
with warnings.catch_warnings():
    warnings.simplefilter("ignore")
    paths, q, res = explore(run, setup)
print("paths", paths, "queries", q, "time", round(time.time()-t, 2))
from collections import Counter
print(Counter(str(r)[:160] for r in res).most_common(8))
