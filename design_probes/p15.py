import numpy as np
a = np.ones(4); b = np.array([0., 1., 0., 2.]); m = b != 0
hits = 0
for t in range(1000):
    x = np.full(4, np.nan); del x
    r = np.divide(a, b, where=m)
    if np.isnan(r[0]) or np.isnan(r[2]): hits += 1
print("nan in masked slots:", hits, "/1000; sample", r)
from geoh5py.objects.drillhole import compute_deviation
surveys = np.array([[0., 10., -80.], [0., 10., -80.], [5., 20., -70.], [5., 30., -60.], [9., 30., -60.]])
hits = 0
for t in range(1000):
    x = np.full(4, np.nan); del x
    d = compute_deviation(surveys)
    if not np.all(np.isfinite(d)): hits += 1
print("compute_deviation non-finite:", hits)
