import time, contextlib, warnings, sys
import z3
import numpy as real_np
import symx
from symx import SInt, SReal, SBool, Ctx, explore, prove, ndarray, recarray, Violation, _lift
import geoh5py, geoh5py.shared.merging
from geoh5py.workspace import Workspace
from geoh5py.objects import Drillhole

@contextlib.contextmanager
def shim():
    saved = {}
    for m, mod in list(sys.modules.items()):
        if m.startswith("geoh5py") and not m.startswith("geoh5py.io.") and getattr(mod, "np", None) is real_np:
            saved[m] = mod.np; mod.np = symx
    try: yield
    finally:
        for m, v in saved.items(): sys.modules[m].np = v

N = 2   # survey rows
def setup(ctx):
    ws = Workspace(); ws.save_entity = lambda *a, **k: None
    dh = Drillhole.create(ws, collar=[0., 0., 0.], surveys=real_np.c_[real_np.arange(N)*10., real_np.zeros(N), -90*real_np.ones(N)])
    dh._keep = ws; dh.on_file = False
    ctx.sh = shim(); ctx.sh.__enter__()
    return dh

def run(ctx, dh):
    d = [z3.Real(f"d{i}") for i in range(N)]; az = [z3.Real(f"a{i}") for i in range(N)]; dp = [z3.Real(f"p{i}") for i in range(N)]
    col = [z3.Real(f"c{a}") for a in "xyz"]; q = z3.Real("q")
    ctx.solver.add(d[0] >= 0, q >= 0)
    for i in range(N-1): ctx.solver.add(d[i] <= d[i+1])
    dh._surveys = recarray(["Depth", "Azimuth", "Dip"], [[SReal(x) for x in d], [SReal(x) for x in az], [SReal(x) for x in dp]])
    dh._locations = None
    dh.collar = [SReal(x) for x in col]
    pos0 = dh.desurvey(ndarray([0.0], (1,)))
    for a in range(3):
        prove(ctx, _lift(pos0._d[a]) == col[a], "position(0) == collar")
    pos = dh.desurvey(ndarray([SReal(q)], (1,)))
    # oracle
    cosd, sind, mod = symx._COSD, symx._SIND, symx._MOD360
    def dirv(i): 
        return (cosd(450.0 - mod(az[i]))*cosd(dp[i]), sind(450.0 - mod(az[i]))*cosd(dp[i]), sind(dp[i]))
    # legs: [0,d0] dir0 ; [d_i, d_{i+1}] mean ; beyond: last leg dir
    P = [tuple(col)]
    depths = [z3.RealVal(0)] + d
    dirs = [dirv(0)] + [dirv(i) for i in range(N)]
    means = [tuple((dirs[i][a] + dirs[i+1][a]) / 2 for a in range(3)) for i in range(N)]
    for i in range(N):
        P.append(tuple(P[i][a] + (depths[i+1]-depths[i])*means[i][a] for a in range(3)))
    for a in range(3):
        exp = P[N][a] + (q - depths[N])*means[N-1][a]
        for i in range(N-1, -1, -1):
            exp = z3.If(q <= depths[i+1], P[i][a] + (q - depths[i])*means[i][a], exp)
        prove(ctx, _lift(pos._d[a]) == exp, f"position(q) axis {a}")
    return "ok"

t = time.time()
with warnings.catch_warnings():
    warnings.simplefilter("ignore")
    paths, qn, res = explore(run, setup)
print("paths", paths, "queries", qn, "time", round(time.time()-t, 2))
from collections import Counter
print(Counter(str(r)[:300] for r in res).most_common(5))
