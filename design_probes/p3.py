from typing import List, Tuple

def remove_vertices(nv: int, cells: List[Tuple[int,int]], vals: List[float], idx: List[int]):
    vert_index = [True]*nv
    for i in idx:
        vert_index[i] = False
    new_vals = [v for v, k in zip(vals, vert_index) if k]
    n_new = sum(1 for k in vert_index if k)
    new_index = [1]*nv
    c = 0
    for i in range(nv):
        if vert_index[i]:
            new_index[i] = c
            c += 1
    keep = [all(vert_index[a] for a in cell) for cell in cells]
    new_cells = [tuple(new_index[a] for a in cell) for cell, k in zip(cells, keep) if k]
    return n_new, new_cells, new_vals

def check(cells: List[Tuple[int,int]], vals: List[float], idx: List[int]) -> bool:
    """
    pre: len(vals) == 4 and len(cells) <= 3 and 1 <= len(idx) <= 2
    pre: all(0 <= a < 4 and 0 <= b < 4 for a, b in cells)
    pre: all(0 <= i < 4 for i in idx)
    pre: all(v == v for v in vals)
    post: _
    """
    nv = 4
    n_new, new_cells, new_vals = remove_vertices(nv, cells, vals, idx)
    if len(new_vals) != n_new:
        return False
    # each surviving vertex keeps its value
    surv = [i for i in range(nv) if i not in idx]
    for pos, i in enumerate(surv):
        if new_vals[pos] != vals[i]:
            return False
    for (a, b) in new_cells:
        if not (0 <= a < n_new and 0 <= b < n_new):
            return False
    return True
