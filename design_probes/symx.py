"""Scratch prototype: symbolic scalars + path explorer + tiny numpy shim (probe only)."""
import math
import builtins
import itertools
import z3

class Abort(Exception):
    pass

class Ctx:
    cur = None
    def __init__(self):
        self.solver = z3.Solver()
        self.prefix = []
        self.trace = []
        self.pending = []
        self.queries = 0
        self.pc = []
    def check(self, *extra):
        self.queries += 1
        r = self.solver.check(*extra)
        return r
    def branch(self, e):
        i = len(self.trace)
        if i < len(self.prefix):
            d = self.prefix[i]
        else:
            t = self.check(e) == z3.sat
            f = self.check(z3.Not(e)) == z3.sat
            if t and f:
                d = True
                self.pending.append(self.trace + [False])
            elif t:
                d = True
            elif f:
                d = False
            else:
                raise Abort("infeasible")
        self.trace.append(d)
        c = e if d else z3.Not(e)
        self.solver.add(c)
        self.pc.append(c)
        return d
    def concretize(self, e):
        i = len(self.trace)
        if i < len(self.prefix):
            v = self.prefix[i]
            self.trace.append(v)
            self.solver.add(e == v)
            return v
        vals = []
        self.solver.push()
        while self.check() == z3.sat and len(vals) < 64:
            v = self.solver.model().eval(e, model_completion=True).as_long()
            vals.append(v)
            self.solver.add(e != v)
        self.solver.pop()
        if not vals:
            raise Abort("infeasible")
        for v in vals[1:]:
            self.pending.append(self.trace + [v])
        self.trace.append(vals[0])
        self.solver.add(e == vals[0])
        return vals[0]

def explore(fn, setup):
    """setup(ctx) -> inputs (adds constraints); fn(inputs) -> None (raises AssertionError w/ model)"""
    work = [[]]
    paths = 0
    tot_q = 0
    results = []
    while work:
        prefix = work.pop()
        ctx = Ctx(); ctx.prefix = prefix
        Ctx.cur = ctx
        try:
            inputs = setup(ctx)
            out = fn(ctx, inputs)
            results.append(("ok", out))
        except Abort:
            results.append(("abort", None))
        except Violation as v:
            results.append(("violation", v.args[0]))
        finally:
            Ctx.cur = None
            if getattr(ctx, 'sh', None): ctx.sh.__exit__(None, None, None)
        paths += 1
        tot_q += ctx.queries
        work.extend(ctx.pending)
    return paths, tot_q, results

class Violation(Exception):
    pass

def prove(ctx, claim, what):
    """claim: z3 Bool or SBool or python bool; must hold on this path."""
    if isinstance(claim, SBool):
        claim = claim.e
    if isinstance(claim, bool):
        if not claim:
            raise Violation((what, "concrete-false", str(ctx.solver.model()) if ctx.check()==z3.sat else None))
        return
    r = ctx.check(z3.Not(claim))
    if r == z3.sat:
        raise Violation((what, str(ctx.solver.model())))
    if r != z3.unsat:
        raise Violation((what, "unknown"))

def _lift(x):
    if isinstance(x, Sym):
        return x.e
    if isinstance(x, bool):
        return z3.BoolVal(x)
    if isinstance(x, int):
        return z3.IntVal(x)
    if isinstance(x, float):
        if x != x or x in (math.inf, -math.inf):
            raise TypeError("non-finite")
        return z3.RealVal(repr(x))
    raise TypeError(type(x))

class Sym:
    pass

class SBool(Sym):
    def __init__(self, e):
        self.e = z3.simplify(e)
    def __bool__(self):
        if z3.is_true(self.e): return True
        if z3.is_false(self.e): return False
        return Ctx.cur.branch(self.e)
    def __invert__(self): return SBool(z3.Not(self.e))
    def __and__(self, o): return SBool(z3.And(self.e, _lift(o)))
    __rand__ = __and__
    def __or__(self, o): return SBool(z3.Or(self.e, _lift(o)))
    __ror__ = __or__
    def __eq__(self, o): return SBool(self.e == _lift(o))
    def __ne__(self, o): return SBool(self.e != _lift(o))
    __hash__ = None

def mk(e):
    e = z3.simplify(e)
    if z3.is_bool(e):
        if z3.is_true(e): return True
        if z3.is_false(e): return False
        return SBool(e)
    if z3.is_int_value(e): return e.as_long()
    if z3.is_int(e): return SInt(e)
    if z3.is_rational_value(e):
        return SReal(e)
    return SReal(e)

class SNum(Sym):
    def __init__(self, e): self.e = e
    def _bin(self, o, f):
        try: oe = _lift(o)
        except TypeError: return NotImplemented
        return mk(f(self.e, oe))
    def __add__(self, o): return self._bin(o, lambda a,b: a+b)
    __radd__ = __add__
    def __sub__(self, o): return self._bin(o, lambda a,b: a-b)
    def __rsub__(self, o): return self._bin(o, lambda a,b: b-a)
    def __mul__(self, o): return self._bin(o, lambda a,b: a*b)
    __rmul__ = __mul__
    def __truediv__(self, o): return self._bin(o, lambda a,b: z3.ToReal(a)/b if z3.is_int(a) else a/b)
    def __neg__(self): return mk(-self.e)
    def __lt__(self, o): return self._bin(o, lambda a,b: a<b)
    def __le__(self, o): return self._bin(o, lambda a,b: a<=b)
    def __gt__(self, o): return self._bin(o, lambda a,b: a>b)
    def __ge__(self, o): return self._bin(o, lambda a,b: a>=b)
    def __eq__(self, o):
        r = self._bin(o, lambda a,b: a==b)
        return False if r is NotImplemented else r
    def __ne__(self, o):
        r = self._bin(o, lambda a,b: a!=b)
        return True if r is NotImplemented else r
    __hash__ = None
    def __repr__(self): return f"<{self.e}>"

class SInt(SNum):
    def __index__(self):
        return Ctx.cur.concretize(self.e)
    __int__ = __index__

class SReal(SNum):
    pass

def ite(c, a, b):
    if isinstance(c, bool): return a if c else b
    ce = c.e if isinstance(c, Sym) else c
    if isinstance(a, (bool, SBool)) or isinstance(b, (bool, SBool)):
        return mk(z3.If(ce, _lift(a), _lift(b)))
    ae, be = _lift(a), _lift(b)
    if z3.is_int(ae) and z3.is_real(be): ae = z3.ToReal(ae)
    if z3.is_real(ae) and z3.is_int(be): be = z3.ToReal(be)
    return mk(z3.If(ce, ae, be))

# ---------------- tiny numpy shim ----------------
class dtype_:
    def __init__(self, kind, name): self.kind = kind; self.name = name
    def __eq__(self, o):
        if o is bool: return self.kind == "b"
        if o is float: return self.name == "float64"
        if o is int: return self.name == "int64"
        return isinstance(o, dtype_) and o.name == self.name or (isinstance(o, str) and o == self.name)
    def __ne__(self, o): return not self.__eq__(o)
    def __hash__(self): return hash(self.name)
    def __repr__(self): return self.name
class _Gen: pass
class integer(_Gen): pass
class number(_Gen): pass
class floating(_Gen): pass
float64 = dtype_("f", "float64"); int32 = dtype_("i", "int32"); int64 = dtype_("i", "int64"); bool_ = dtype_("b", "bool")
uint32 = dtype_("u", "uint32")
nan = float("nan")
def _as_dtype(d):
    if d is None: return None
    if isinstance(d, dtype_): return d
    if d is bool: return bool_
    if d is int or d == "int": return int64
    if d is float: return float64
    if d in ("uint32",): return uint32
    if d in ("int32",): return int32
    raise TypeError(d)
def issubdtype(d, g):
    if g is integer: return d.kind in "iu"
    if g is number: return d.kind in "iuf"
    if g is floating: return d.kind == "f"
    raise TypeError(g)

def _infer(flat):
    k = "b"
    for x in flat:
        if isinstance(x, (bool, SBool)): continue
        if isinstance(x, (int, SInt)): k = "i" if k in "bi" else k
        else: k = "f"
    return {"b": bool_, "i": int64, "f": float64}[k]

class ndarray:
    def __init__(self, flat, shape, dtype=None):
        self._d = list(flat); self.shape = tuple(shape)
        n = 1
        for s in self.shape: n *= s
        assert n == len(self._d), (shape, len(self._d))
        self.dtype = dtype or _infer(self._d)
    @property
    def ndim(self): return len(self.shape)
    @property
    def size(self): return len(self._d)
    def __len__(self): return self.shape[0]
    def _strides(self):
        st = []; acc = 1
        for s in reversed(self.shape): st.append(acc); acc *= s
        return list(reversed(st))
    def tolist(self):
        def rec(off, dim):
            if dim == self.ndim: return self._d[off]
            st = self._strides()[dim]
            return [rec(off + i*st, dim+1) for i in range(self.shape[dim])]
        return rec(0, 0)
    def rows(self):
        assert self.ndim >= 1
        if self.ndim == 1: return list(self._d)
        w = len(self._d)//self.shape[0] if self.shape[0] else 0
        return [ndarray(self._d[i*w:(i+1)*w], self.shape[1:], self.dtype) for i in range(self.shape[0])]
    def __iter__(self): return iter(self.rows())
    @property
    def T(self):
        if self.ndim < 2: return self
        assert self.ndim == 2
        r, c = self.shape
        return ndarray([self._d[i*c+j] for j in range(c) for i in range(r)], (c, r), self.dtype)
    def reshape(self, shp):
        if isinstance(shp, int): shp = (shp,)
        shp = list(shp)
        if -1 in shp:
            k = shp.index(-1); rest = 1
            for i, s in enumerate(shp):
                if i != k: rest *= s
            shp[k] = len(self._d)//rest if rest else 0
        return ndarray(self._d, shp, self.dtype)
    def flatten(self): return ndarray(self._d, (len(self._d),), self.dtype)
    def astype(self, d):
        d = _as_dtype(d)
        return ndarray(self._d, self.shape, d)
    def copy(self): return ndarray(self._d, self.shape, self.dtype)
    def min(self, axis=None): return _reduce(self, axis, lambda a,b: ite(a<=b, a, b))
    def max(self, axis=None): return _reduce(self, axis, lambda a,b: ite(a>=b, a, b))
    # elementwise
    def _ew(self, o, f, dt=None):
        if isinstance(o, ndarray):
            a, b = _bcast(self, o)
            return ndarray([f(x, y) for x, y in zip(a._d, b._d)], a.shape, dt)
        return ndarray([f(x, o) for x in self._d], self.shape, dt)
    def __add__(self, o): return self._ew(o, lambda a,b: a+b)
    __radd__ = __add__
    def __sub__(self, o): return self._ew(o, lambda a,b: a-b)
    def __rsub__(self, o): return self._ew(o, lambda a,b: b-a)
    def __mul__(self, o): return self._ew(o, lambda a,b: a*b)
    __rmul__ = __mul__
    def __truediv__(self, o): return self._ew(o, lambda a,b: a/b)
    def __lt__(self, o): return self._ew(o, lambda a,b: a<b, bool_)
    def __le__(self, o): return self._ew(o, lambda a,b: a<=b, bool_)
    def __gt__(self, o): return self._ew(o, lambda a,b: a>b, bool_)
    def __ge__(self, o): return self._ew(o, lambda a,b: a>=b, bool_)
    def __eq__(self, o): return self._ew(o, lambda a,b: a==b, bool_)
    def __ne__(self, o): return self._ew(o, lambda a,b: a!=b, bool_)
    __hash__ = None
    def __invert__(self): return ndarray([(not x) if isinstance(x, bool) else ~x for x in self._d], self.shape, bool_)
    def __and__(self, o): return self._ew(o, lambda a,b: (a and b) if isinstance(a,bool) and isinstance(b,bool) else (SBool(_lift(a)) & b), bool_)
    def __bool__(self):
        assert len(self._d) == 1
        return bool(self._d[0])
    # indexing
    def _axis0_select(self, idx):
        """idx: list of (python int | SInt) row selectors -> new array"""
        rows = self.rows()
        n = len(rows)
        out = []
        for i in idx:
            if isinstance(i, SInt):
                out.append(_gather(rows, i))
            else:
                out.append(rows[i])
        return _stack_rows(out, self.shape[1:], self.dtype)
    def __getitem__(self, k):
        if isinstance(k, tuple):
            if len(k) == 2 and self.ndim == 2:
                a = self[k[0]] if not isinstance(k[0], slice) or k[0] != slice(None) else self
                if isinstance(k[1], slice) and k[1] == slice(None):
                    return a
                if isinstance(k[1], int):
                    if isinstance(k[0], int): return a._d[k[1]] if a.ndim == 1 else a
                    return ndarray([r._d[k[1]] for r in a.rows()], (a.shape[0],), a.dtype)
            raise NotImplementedError(k)
        if isinstance(k, (int, SInt)):
            r = self._axis0_select([k])
            return r.rows()[0] if True else None
        if isinstance(k, slice):
            rng = range(*k.indices(self.shape[0]))
            return self._axis0_select(list(rng))
        if isinstance(k, list): k = array(k)
        if isinstance(k, ndarray):
            if k.dtype.kind == "b":
                assert k.shape == self.shape[:k.ndim] and k.ndim == 1, (k.shape, self.shape)
                sel = [i for i, m in enumerate(k._d) if bool(m)]   # forks
                return self._axis0_select(sel)
            # integer index array (any shape)
            res = self._axis0_select(k._d)
            return ndarray(res._d, k.shape + self.shape[1:], self.dtype)
        raise NotImplementedError(type(k))
    def __setitem__(self, k, v):
        w = len(self._d)//self.shape[0] if self.shape[0] else 0
        def setrow(i, val, cond=True):
            vals = val._d if isinstance(val, ndarray) else [val]*w
            for j in range(w):
                self._d[i*w+j] = ite(cond, vals[j], self._d[i*w+j]) if cond is not True else vals[j]
        if isinstance(k, tuple):
            raise NotImplementedError
        if isinstance(k, list): k = array(k)
        if isinstance(k, slice):
            rng = list(range(*k.indices(self.shape[0])))
            vs = v.rows() if isinstance(v, ndarray) and v.ndim >= 1 and v.shape[0] == len(rng) else [v]*len(rng)
            for i, val in zip(rng, vs): setrow(i, val)
            return
        if isinstance(k, ndarray) and k.dtype.kind == "b":
            sel = [i for i, m in enumerate(k._d) if bool(m)]
            vs = v.rows() if isinstance(v, ndarray) and v.ndim >= 1 else [v]*len(sel)
            assert len(vs) == len(sel)
            for i, val in zip(sel, vs): setrow(i, val)
            return
        if isinstance(k, ndarray):
            ks = k._d
            vs = v.rows() if isinstance(v, ndarray) and v.ndim >= 1 else [v]*len(ks)
            for kk, val in zip(ks, vs):
                if isinstance(kk, SInt):
                    for i in range(self.shape[0]): setrow(i, val, kk == i)
                else: setrow(kk, val)
            return
        if isinstance(k, SInt):
            for i in range(self.shape[0]): setrow(i, v, k == i)
            return
        setrow(k, v)
    def view(self, _): raise NotImplementedError
    def __repr__(self): return f"sarray({self.tolist()})"

def _gather(rows, i):
    acc = rows[-1]
    for j in range(len(rows)-2, -1, -1):
        c = (i == j)
        if isinstance(acc, ndarray):
            acc = ndarray([ite(c, a, b) for a, b in zip(rows[j]._d, acc._d)], acc.shape, acc.dtype)
        else:
            acc = ite(c, rows[j], acc)
    return acc
def _stack_rows(rows, sub, dt):
    flat = []
    for r in rows:
        flat.extend(r._d if isinstance(r, ndarray) else [r])
    return ndarray(flat, (len(rows),) + tuple(sub), dt)
def _bcast(a, b):
    if a.shape == b.shape: return a, b
    raise NotImplementedError((a.shape, b.shape))
def _reduce(a, axis, f):
    if axis is None:
        if not a._d: raise ValueError("zero-size array to reduction operation which has no identity")
        acc = a._d[0]
        for x in a._d[1:]: acc = f(acc, x)
        return acc
    if axis == 0:
        rows = a.rows(); acc = rows[0]
        for r in rows[1:]:
            acc = ndarray([f(x, y) for x, y in zip(acc._d, r._d)], acc.shape, acc.dtype) if isinstance(acc, ndarray) else f(acc, r)
        return acc
    if axis == 1 and a.ndim == 2:
        out = []
        for r in a.rows():
            acc = r._d[0]
            for x in r._d[1:]: acc = f(acc, x)
            out.append(acc)
        return ndarray(out, (a.shape[0],), a.dtype)
    raise NotImplementedError

def array(x, dtype=None):
    if isinstance(x, ndarray): return ndarray(x._d, x.shape, _as_dtype(dtype) or x.dtype)
    if isinstance(x, tuple) and builtins.all(isinstance(e, ndarray) for e in x):
        x = list(x)
    def shape_of(v):
        if isinstance(v, ndarray): return v.shape
        if isinstance(v, (list, tuple)):
            if not v: return (0,)
            return (len(v),) + shape_of(v[0])
        return ()
    def flat_of(v):
        if isinstance(v, ndarray): return list(v._d)
        if isinstance(v, (list, tuple)):
            out = []
            for e in v: out.extend(flat_of(e))
            return out
        return [v]
    return ndarray(flat_of(x), shape_of(x), _as_dtype(dtype))
def asarray(x, dtype=None):
    if isinstance(x, ndarray) and dtype is None: return x
    return array(x, dtype)
def ones(n, dtype=None):
    n = (n,) if isinstance(n, int) else tuple(n)
    dt = _as_dtype(dtype) or float64
    cnt = 1
    for s in n: cnt *= s
    one = True if dt.kind == "b" else (1 if dt.kind in "iu" else 1.0)
    return ndarray([one]*cnt, n, dt)
def zeros(n, dtype=None):
    a = ones(n, dtype)
    z = False if a.dtype.kind == "b" else (0 if a.dtype.kind in "iu" else 0.0)
    return ndarray([z]*len(a._d), a.shape, a.dtype)
def ones_like(a, dtype=None): return ones(a.shape, dtype or a.dtype)
def zeros_like(a, dtype=None): return zeros(a.shape, dtype or a.dtype)
def arange(*a): return ndarray(list(range(*a)), (len(range(*a)),), int64)
def max(a): return a.max() if isinstance(a, ndarray) else array(a).max()
def all(a, axis=None):
    return _reduce(a, axis, lambda x, y: (x and y) if isinstance(x, bool) and isinstance(y, bool) else (SBool(_lift(x)) & y))
def any(a, axis=None):
    return _reduce(a, axis, lambda x, y: (x or y) if isinstance(x, bool) and isinstance(y, bool) else (SBool(_lift(x)) | y))
def where(c):
    assert c.ndim == 1
    return (ndarray([i for i, m in enumerate(c._d) if bool(m)], None or (sum(1 for _ in []),), int64) if False else _where1(c),)
def _where1(c):
    sel = [i for i, m in enumerate(c._d) if bool(m)]
    return ndarray(sel, (len(sel),), int64)
def delete(a, idx, axis=None):
    assert axis == 0
    if isinstance(idx, (list, tuple)): idx = array(idx)
    ids = idx._d if isinstance(idx, ndarray) else [idx]
    keep = []
    for i in range(a.shape[0]):
        hit = False
        for k in ids:
            hit = (k == i) | SBool(_lift(hit)) if isinstance(k, SInt) or isinstance(hit, SBool) else (hit or k == i or k == i - a.shape[0])
        keep.append(i) if not bool(hit) else None
    return a._axis0_select(keep)
def isnan(a):
    f = lambda x: (x != x) if isinstance(x, float) else False
    if isinstance(a, ndarray): return ndarray([f(x) for x in a._d], a.shape, bool_)
    return f(a)
def ravel(a): return a.flatten()
class _RecArray(ndarray):
    pass
class _records:
    @staticmethod
    def fromarrays(cols, dtype=None, names=None, formats=None):
        cols = [c if isinstance(c, list) else list(c._d) for c in cols]
        n = len(cols[0])
        flat = [cols[j][i] for i in range(n) for j in range(len(cols))]
        r = _RecArray(flat, (n, len(cols)), float64)
        return r
class _core: records = _records
core = _core
def _rec_view(self, _): return ndarray(self._d, (len(self._d),), self.dtype)
_RecArray.view = _rec_view
_RecArray.shape0 = None

# ---------------- record arrays (probe) ----------------
class recarray(ndarray):
    def __init__(self, names, cols):
        self.names = list(names)
        self.cols = {n: (c if isinstance(c, ndarray) else ndarray(list(c), (len(c),), _infer(list(c)) if not builtins.any(isinstance(x, (bytes, str)) for x in c) else dtype_("O", "object"))) for n, c in zip(names, cols)}
        n = len(self.cols[self.names[0]]._d) if self.names else 0
        self.shape = (n,)
        self.dtype = ("rec", tuple(self.names))
        self._d = None
    def __len__(self): return self.shape[0]
    def __getitem__(self, k):
        if isinstance(k, str): return self.cols[k]
        if isinstance(k, (int, SInt)):
            if isinstance(k, SInt): k = int(k)
            return tuple(self.cols[n]._d[k] for n in self.names)
        if isinstance(k, ndarray) and k.dtype.kind == "b":
            sel = [i for i, m in enumerate(k._d) if bool(m)]
            return recarray(self.names, [[self.cols[n]._d[i] for i in sel] for n in self.names])
        raise NotImplementedError(k)
    def __setitem__(self, k, v): raise NotImplementedError
    def astype(self, d): return self
    def tolist(self): return [self[i] for i in range(self.shape[0])]
    def __repr__(self): return f"rec({self.tolist()})"

def _fromarrays(cols, dtype=None, names=None, formats=None):
    if dtype is not None and isinstance(dtype, list) and builtins.all(isinstance(t, tuple) for t in dtype):
        nm = [t[0] for t in dtype]
    elif isinstance(dtype, tuple) and dtype[0] == "rec":
        nm = list(dtype[1])
    else:
        nm = None
    scal = not isinstance(cols[0], (list, ndarray))
    if nm and len(nm) == 4:   # index record
        cc = [[c] if scal else (list(c._d) if isinstance(c, ndarray) else list(c)) for c in cols]
        return recarray(nm, cc)
    return _records.fromarrays(cols, dtype, names, formats)
class _records2:
    fromarrays = staticmethod(_fromarrays)
class _core2: records = _records2
core = _core2

def hstack(parts):
    parts = list(parts)
    if isinstance(parts[0], recarray):
        nm = parts[0].names
        return recarray(nm, [builtins.sum([list(p.cols[n]._d) for p in parts], []) for n in nm])
    flat = []
    for p in parts: flat.extend(p._d)
    return ndarray(flat, (len(flat),), parts[0].dtype)

def sum(a):
    acc = 0
    for x in a._d: acc = acc + x
    return acc

_old_arange = arange
def arange(*a):
    if builtins.any(isinstance(x, Sym) for x in a):
        if len(a) == 1:
            return _old_arange(int(a[0]))
        start, stop = a
        n = mk((_lift(stop) - _lift(start)))
        assert isinstance(n, int), n
        return ndarray([start + j for j in range(n)], (n,), int64)
    return _old_arange(*a)

_old_delete = delete
def delete(a, idx, axis=None):
    if isinstance(a, recarray):
        ids = [idx] if not isinstance(idx, (list, ndarray)) else (idx._d if isinstance(idx, ndarray) else idx)
        ids = [int(i) for i in ids]
        keep = [i for i in range(a.shape[0]) if i not in ids]
        return recarray(a.names, [[a.cols[n]._d[i] for i in keep] for n in a.names])
    return _old_delete(a, idx, axis)

# ---------------- more shim (probe round 2) ----------------
def _b2i(x):
    if isinstance(x, bool): return int(x)
    if isinstance(x, SBool): return mk(z3.If(x.e, 1, 0))
    return x
def sum(a, axis=None):
    if isinstance(a, ndarray):
        assert axis is None
        acc = 0
        for x in a._d: acc = acc + _b2i(x)
        return acc
    return builtins.sum(a)

class _CClass:
    def __getitem__(self, k):
        if not isinstance(k, tuple): k = (k,)
        cols = []
        for c in k:
            if isinstance(c, ndarray):
                if c.ndim == 1: cols.append([ [x] for x in c._d ])
                else: cols.append([list(r._d) for r in c.rows()])
            elif isinstance(c, (list, tuple)):
                cols.append([[x] for x in c])
            else:
                cols.append(None if True else None); cols[-1] = ("scalar", c)
        n = builtins.max([len(c) for c in cols if not (isinstance(c, tuple) and c and c[0] == "scalar")] or [1])
        rows = []
        for i in range(n):
            r = []
            for c in cols:
                if isinstance(c, tuple) and c and c[0] == "scalar": r.append(c[1])
                else: r.extend(c[i])
            rows.append(r)
        w = len(rows[0]) if rows else 0
        return ndarray([x for r in rows for x in r], (n, w))
c_ = _CClass()
class _RClass:
    def __getitem__(self, k):
        if not isinstance(k, tuple): k = (k,)
        flat = []
        twod = [c for c in k if isinstance(c, ndarray) and c.ndim == 2]
        if twod:
            rows = []
            for c in k: rows.extend(c.rows())
            return _stack_rows(rows, twod[0].shape[1:], None)
        for c in k:
            if isinstance(c, ndarray): flat.extend(c._d)
            elif isinstance(c, (list, tuple)): flat.extend(c)
            else: flat.append(c)
        return ndarray(flat, (len(flat),))
r_ = _RClass()

def _nd_getitem(self, k):
    # 2-D tuple indexing
    k0, k1 = k
    rows = self if (isinstance(k0, slice) and k0 == slice(None)) else ndarray.__getitem_1__(self, k0)
    if isinstance(k0, (int, SInt)):
        # rows is a 1-D row
        if isinstance(k1, slice): 
            return rows if k1 == slice(None) else ndarray(rows._d[k1], (len(rows._d[k1]),), rows.dtype)
        return rows._d[k1] if isinstance(k1, int) else _gather(rows._d, k1)
    if isinstance(k1, slice) and k1 == slice(None): return rows
    if isinstance(k1, int):
        return ndarray([r._d[k1] for r in rows.rows()], (rows.shape[0],), rows.dtype)
    if isinstance(k1, slice):
        sub = [r._d[k1] for r in rows.rows()]
        return ndarray([x for r in sub for x in r], (rows.shape[0], len(sub[0]) if sub else 0), rows.dtype)
    raise NotImplementedError(k)
ndarray.__getitem_1__ = ndarray.__getitem__
def _getitem(self, k):
    if isinstance(k, tuple):
        if len(k) == 1: return ndarray.__getitem_1__(self, k[0])
        return _nd_getitem(self, k)
    return ndarray.__getitem_1__(self, k)
ndarray.__getitem__ = _getitem
def _or(self, o): return self._ew(o, lambda a,b: (a or b) if isinstance(a,bool) and isinstance(b,bool) else (SBool(_lift(a)) | b), bool_)
ndarray.__or__ = _or
def logical_or(a, b): return a | b
def kron(a, b):
    return ndarray([ (x and y) if isinstance(x,bool) and isinstance(y,bool) else (SBool(_lift(x)) & y) if a.dtype.kind=="b" else x*y for x in a._d for y in b._d], (len(a._d)*len(b._d),), a.dtype)
def argmax(a):
    # first index of maximum; for bool arrays: first True (0 if none)
    n = len(a._d)
    res = 0
    for i in range(n-1, -1, -1):
        x = a._d[i]
        better = x
        for y in a._d[:i]:
            ny = (not y) if isinstance(y, bool) else ~y
            better = (better and ny) if isinstance(better, bool) and isinstance(ny, bool) else (SBool(_lift(better)) & ny)
        res = ite(better, i, res)
    return res
def vstack(parts):
    rows = []
    for p in parts:
        if isinstance(p, ndarray) and p.ndim == 2: rows.extend(p.rows())
        elif isinstance(p, ndarray): rows.append(p)
        else: rows.append(array(p))
    return _stack_rows(rows, rows[0].shape if isinstance(rows[0], ndarray) else (), None)
def nanmax(a): return a.max()

# ---------------- probe round 3: grids / trig / survey ----------------
def cumsum(a):
    out = []; acc = 0
    for x in a._d:
        acc = acc + x; out.append(acc)
    return ndarray(out, a.shape, a.dtype)
def meshgrid(*xs):
    if len(xs) == 2:
        x, y = xs
        nx, ny = len(x._d), len(y._d)
        X = ndarray([x._d[i] for j in range(ny) for i in range(nx)], (ny, nx))
        Y = ndarray([y._d[j] for j in range(ny) for i in range(nx)], (ny, nx))
        return X, Y
    x, y, z = xs
    nx, ny, nz = len(x._d), len(y._d), len(z._d)
    X = ndarray([x._d[i] for j in range(ny) for i in range(nx) for k in range(nz)], (ny, nx, nz))
    Y = ndarray([y._d[j] for j in range(ny) for i in range(nx) for k in range(nz)], (ny, nx, nz))
    Z = ndarray([z._d[k] for j in range(ny) for i in range(nx) for k in range(nz)], (ny, nx, nz))
    return X, Y, Z
def dot(a, b):
    assert a.ndim == 2 and b.ndim == 2 and a.shape[1] == b.shape[0]
    n, m, p = a.shape[0], a.shape[1], b.shape[1]
    out = []
    for i in range(n):
        for j in range(p):
            acc = 0
            for k in range(m):
                acc = acc + a._d[i*m+k] * b._d[k*p+j]
            out.append(acc)
    return ndarray(out, (n, p))
ndarray.__matmul__ = lambda self, o: dot(self, o)
class Deg:
    def __init__(self, x): self.x = x
_COSD = z3.Function("cosd", z3.RealSort(), z3.RealSort())
_SIND = z3.Function("sind", z3.RealSort(), z3.RealSort())
_MOD360 = z3.Function("mod360", z3.RealSort(), z3.RealSort())
def _toreal(x):
    e = _lift(x)
    return z3.ToReal(e) if z3.is_int(e) else e
def deg2rad(x):
    if isinstance(x, ndarray): return ndarray([Deg(v) for v in x._d], x.shape, float64)
    return Deg(x)
def _trig(f):
    def g(x):
        if isinstance(x, ndarray): return ndarray([SReal(f(_toreal(v.x))) for v in x._d], x.shape, float64)
        return SReal(f(_toreal(x.x)))
    return g
cos = _trig(_COSD); sin = _trig(_SIND)
def _mod(self, o):
    assert o == 360.0
    return SReal(_MOD360(_toreal(self)))
SNum.__mod__ = _mod
def _arr_mod(self, o): return ndarray([x % o if isinstance(x, Sym) else SReal(_MOD360(_toreal(x))) for x in self._d], self.shape, self.dtype)
ndarray.__mod__ = _arr_mod
def divide(a, b, where=None):
    out = []
    for i, (x, y) in enumerate(zip(a._d, b._d)):
        w = where._d[i]
        fresh = SReal(z3.FreshConst(z3.RealSort(), "uninit"))
        out.append(ite(w, x / y if bool(w) else fresh, fresh) if False else (x / y if bool(w) else fresh))
    return ndarray(out, a.shape, float64)
def searchsorted(a, v, side="left"):
    vs = v._d if isinstance(v, ndarray) else [v]
    out = []
    for q in vs:
        cnt = 0
        for x in a._d:
            cnt = cnt + _b2i((x < q) if side == "left" else (x <= q))
        out.append(cnt)
    return ndarray(out, (len(out),), int64) if isinstance(v, ndarray) else out[0]
def maximum(a, b):
    f = lambda x, y: ite(x >= y, x, y)
    if isinstance(a, ndarray): return a._ew(b, f)
    return f(a, b)
def minimum(a, b):
    f = lambda x, y: ite(x <= y, x, y)
    if isinstance(a, ndarray): return a._ew(b, f)
    return f(a, b)

# structured scalar (origin / collar)
class record_scalar:
    def __init__(self, names, vals): self.names = list(names); self.vals = list(vals)
    def __getitem__(self, k):
        if isinstance(k, str): return self.vals[self.names.index(k)]
        return self.vals[k]
    def tolist(self): return tuple(self.vals)
    def __len__(self): return len(self.vals)
_old_asarray2 = asarray
def asarray(x, dtype=None):
    if isinstance(dtype, list) and builtins.all(isinstance(t, tuple) for t in dtype) and isinstance(x, tuple):
        return record_scalar([t[0] for t in dtype], x)
    return _old_asarray2(x, dtype)
def _item(self):
    assert len(self._d) == 1
    return self._d[0]
ndarray.item = _item
_old_as_dtype = _as_dtype
def _as_dtype(d):
    if d is float: return float64
    return _old_as_dtype(d)
_old_setitem = ndarray.__setitem__
def _setitem(self, k, v):
    if isinstance(k, tuple) and len(k) == 2 and self.ndim == 2 and isinstance(k[0], slice) and k[0] == slice(None) and isinstance(k[1], int):
        c = self.shape[1]
        vals = v._d if isinstance(v, ndarray) else [v]*self.shape[0]
        for i in range(self.shape[0]): self._d[i*c + k[1]] = vals[i]
        return
    return _old_setitem(self, k, v)
ndarray.__setitem__ = _setitem
def prod(a):
    acc = 1
    for x in (a._d if isinstance(a, ndarray) else a): acc = acc * x
    return acc

# ---------------- probe round 4: 2-D indexing generalised ----------------
def _sel_axis(n, k):
    """return list of selectors (python int or SInt) or a single selector flag"""
    if isinstance(k, slice): return list(range(*k.indices(n))), False
    if isinstance(k, (int, SInt)): return [k if not (isinstance(k, int) and k < 0) else k + n], True
    if isinstance(k, list): k = array(k)
    if isinstance(k, ndarray):
        if k.dtype.kind == "b": return [i for i, m in enumerate(k._d) if bool(m)], False
        return list(k._d), False
    raise NotImplementedError(k)
def _get2(self, k):
    if isinstance(k, tuple) and len(k) == 2 and k[1] is None and self.ndim == 1:
        sub = ndarray.__getitem_1__(self, k[0]) if not (isinstance(k[0], slice) and k[0] == slice(None)) else self
        return ndarray(sub._d, (len(sub._d), 1), sub.dtype)
    if isinstance(k, tuple) and len(k) == 2 and self.ndim == 2:
        r, c = self.shape
        rs, rscalar = _sel_axis(r, k[0]); cs, cscalar = _sel_axis(c, k[1])
        rows = [list(x._d) for x in self.rows()]
        out = []
        for ri in rs:
            row = rows[ri] if isinstance(ri, int) else [ _gather([rw[j] for rw in rows], ri) for j in range(c)]
            out.append([row[cj] if isinstance(cj, int) else _gather(row, cj) for cj in cs])
        if rscalar and cscalar: return out[0][0]
        if rscalar: return ndarray(out[0], (len(cs),), self.dtype)
        if cscalar: return ndarray([o[0] for o in out], (len(rs),), self.dtype)
        return ndarray([x for o in out for x in o], (len(rs), len(cs)), self.dtype)
    return _getitem(self, k)
ndarray.__getitem__ = _get2
_old_setitem3 = ndarray.__setitem__
def _set2(self, k, v):
    if isinstance(k, tuple) and len(k) == 2 and self.ndim == 2 and isinstance(k[0], int) and isinstance(k[1], int):
        self._d[k[0]*self.shape[1] + k[1]] = v; return
    return _old_setitem3(self, k, v)
ndarray.__setitem__ = _set2
def _bcast(a, b):
    if a.shape == b.shape: return a, b
    if a.ndim == 2 and b.ndim == 2 and a.shape[0] == b.shape[0]:
        if a.shape[1] == 1: return ndarray([x for x in a._d for _ in range(b.shape[1])], b.shape, a.dtype), b
        if b.shape[1] == 1: return a, ndarray([x for x in b._d for _ in range(a.shape[1])], a.shape, b.dtype)
    raise NotImplementedError((a.shape, b.shape))
_old_fromarrays = core.records.fromarrays
def _fromarrays2(cols, dtype=None, names=None, formats=None):
    if isinstance(names, str):
        nm = [n.strip() for n in names.split(",")]
        cc = [list(c._d) if isinstance(c, ndarray) else list(c) for c in (cols.rows() if isinstance(cols, ndarray) else cols)]
        return recarray(nm, cc)
    return _old_fromarrays(cols, dtype, names, formats)
class _records3: fromarrays = staticmethod(_fromarrays2)
class _core3: records = _records3
core = _core3

# probe round 5: fork in searchsorted, solver timeouts
def searchsorted(a, v, side="left"):
    vs = v._d if isinstance(v, ndarray) else [v]
    out = []
    for q in vs:
        cnt = 0
        for x in a._d:
            if bool((x < q) if side == "left" else (x <= q)): cnt += 1
        out.append(cnt)
    return ndarray(out, (len(out),), int64) if isinstance(v, ndarray) else out[0]
_old_ctx_init = Ctx.__init__
def _ctx_init(self):
    _old_ctx_init(self)
    self.solver.set("timeout", 5000)
Ctx.__init__ = _ctx_init
import numpy as _rnp
int8 = _rnp.int8
class _AnyDtype:
    def __init__(self, n): self.name = n; self.kind = "O"
_old_asarray4 = asarray
def asarray(x, dtype=None):
    if isinstance(x, record_scalar): 
        x.dtype = _AnyDtype("record"); return x
    if isinstance(x, (Sym,)) or (isinstance(x, (int, float, str, bool)) and dtype is None):
        a = ndarray([x], (), None) if not isinstance(x, str) else None
        if a is None:
            class _S: dtype = _AnyDtype("str")
            return _S()
        return a
    return _old_asarray4(x, dtype)
