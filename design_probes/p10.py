import time, contextlib, importlib, warnings, sys
import z3
import numpy as real_np
import symx
from symx import SInt, SReal, SBool, Ctx, explore, prove, ndarray, Violation, _lift
import geoh5py, geoh5py.shared.merging
from geoh5py.workspace import Workspace
from geoh5py.objects import Curve

SKIP = ("geoh5py.io.",)
@contextlib.contextmanager
def shim():
    saved = {}
    for m, mod in list(sys.modules.items()):
        if m.startswith("geoh5py") and not m.startswith(SKIP) and getattr(mod, "np", None) is real_np:
            saved[m] = mod.np; mod.np = symx
    try: yield
    finally:
        for m, v in saved.items(): sys.modules[m].np = v

NV, NC = 3, 2
def setup(ctx):
    ws = Workspace()
    ws.save_entity = lambda *a, **k: None
    curve = Curve.create(ws, vertices=real_np.zeros((NV, 3)), cells=real_np.zeros((NC, 2), dtype="int32"))
    data = curve.add_data({"d": {"values": real_np.zeros(NV), "association": "VERTEX"}})
    cdata = curve.add_data({"c": {"values": real_np.zeros(NC), "association": "CELL"}})
    V = [[z3.Real(f"v{i}{a}") for a in "xyz"] for i in range(NV)]
    C = [[z3.Int(f"c{i}{a}") for a in "ab"] for i in range(NC)]
    D = [z3.Real(f"d{i}") for i in range(NV)]
    CD = [z3.Real(f"cd{i}") for i in range(NC)]
    E = [[z3.Real(f"e{r}{a}") for a in "xyz"] for r in range(2)]
    for row in C:
        for c in row: ctx.solver.add(c >= 0, c < NV)
    for a in range(3): ctx.solver.add(E[0][a] <= E[1][a])
    ctx.sh = shim(); ctx.sh.__enter__()
    curve._vertices = None; curve._cells = None
    curve.vertices = ndarray([SReal(x) for r in V for x in r], (NV, 3))
    curve.cells = ndarray([SInt(x) for r in C for x in r], (NC, 2), symx.int32)
    data._values = ndarray([SReal(x) for x in D], (NV,))
    cdata._values = ndarray([SReal(x) for x in CD], (NC,))
    ext = ndarray([SReal(x) for r in E for x in r], (2, 3))
    return ws, curve, data, cdata, V, C, D, CD, E, ext

def run(ctx, inp):
    ws, curve, data, cdata, V, C, D, CD, E, ext = inp
    new = curve.copy_from_extent(ext)
    inside = [z3.And(*[z3.And(E[0][a] <= V[j][a], V[j][a] <= E[1][a]) for a in range(3)]) for j in range(NV)]
    def sel(lst, idx):
        acc = lst[-1]
        for q in range(len(lst)-2, -1, -1): acc = z3.If(idx == q, lst[q], acc)
        return acc
    cell_in = [z3.And(sel(inside, C[c][0]), sel(inside, C[c][1])) for c in range(NC)]
    if new is None:
        prove(ctx, z3.Not(z3.Or(*cell_in)), "None only if no cell qualifies (or bbox miss)")
        return "none"
    nv2 = new.vertices.shape[0]; nc2 = new.cells.shape[0]
    # every kept cell connects same coordinates; count equals number of qualifying cells
    prove(ctx, z3.Sum([z3.If(c, 1, 0) for c in cell_in]) == nc2, "cell count")
    return ("ok", nv2, nc2, [type(c).__name__ for c in new.children])

t = time.time()
with warnings.catch_warnings():
    warnings.simplefilter("ignore")
    paths, q, res = explore(run, setup)
print("paths", paths, "queries", q, "time", round(time.time()-t, 2))
from collections import Counter
print(Counter(str(r)[:200] for r in res).most_common(8))
