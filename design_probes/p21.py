import numpy as np, itertools
def cent(nu, nv, c, s):
    u = np.arange(nu)+.5; v = np.arange(nv)+.5
    U, V = np.meshgrid(u, v)
    x = c*U.ravel() - s*V.ravel(); y = s*U.ravel() + c*V.ravel()
    return np.c_[x, y]
for (c, s) in [(1,0), (0,1), (3/5,4/5), (4/5,3/5), (5/13,12/13), (12/13,5/13), (np.cos(np.pi/6), np.sin(np.pi/6))]:
    for nu, nv in [(3,2),(3,3),(4,3),(4,4)]:
        cc = cent(nu, nv, c, s); n = len(cc); found = None
        for a in range(n):
            for b in range(a, n):
                lo = np.minimum(cc[a], cc[b]) - 1e-9; hi = np.maximum(cc[a], cc[b]) + 1e-9
                ins = np.all((cc >= lo) & (cc <= hi), axis=1).reshape(nv, nu)
                for ind in (ins.any(axis=0), ins.any(axis=1)):
                    idx = np.where(ind)[0]
                    if len(idx) and idx[-1]-idx[0]+1 != ind.sum(): found = (a, b)
        print((round(c,3), round(s,3)), (nu, nv), "non-contiguous possible:", found is not None)
