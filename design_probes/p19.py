import time, contextlib, warnings, sys
import z3
import numpy as real_np
import symx
from symx import SInt, SReal, SBool, Ctx, explore, prove, ndarray, Violation, _lift
import geoh5py, geoh5py.shared.merging
from geoh5py.workspace import Workspace
from geoh5py.objects import BlockModel

SKIP = ("geoh5py.io.",)
@contextlib.contextmanager
def shim():
    saved = {}
    for m, mod in list(sys.modules.items()):
        if m.startswith("geoh5py") and not m.startswith(SKIP) and getattr(mod, "np", None) is real_np:
            saved[m] = mod.np; mod.np = symx
    try: yield
    finally:
        for m, v in saved.items(): sys.modules[m].np = v

NU, NV, NZ = 2, 3, 2
c, s = z3.Reals("c s")
symx._COSD = None
def setup(ctx):
    ws = Workspace(); ws.save_entity = lambda *a, **k: None
    bm = BlockModel.create(ws, origin=[0, 0, 0], u_cell_delimiters=real_np.arange(NU+1.), v_cell_delimiters=real_np.arange(NV+1.), z_cell_delimiters=real_np.arange(NZ+1.))
    bm._keep = ws
    ctx.sh = shim(); ctx.sh.__enter__()
    return bm

def run(ctx, bm):
    du = [z3.Real(f"du{i}") for i in range(NU+1)]
    dv = [z3.Real(f"dv{i}") for i in range(NV+1)]
    dz = [z3.Real(f"dz{i}") for i in range(NZ+1)]
    o = [z3.Real(f"o{a}") for a in "xyz"]
    # rotation: stub cos/sin to (c, s)
    symx.cos = lambda x: SReal(c); symx.sin = lambda x: SReal(s)
    bm.u_cell_delimiters = ndarray([SReal(x) for x in du], (NU+1,))
    bm.v_cell_delimiters = ndarray([SReal(x) for x in dv], (NV+1,))
    bm.z_cell_delimiters = ndarray([SReal(x) for x in dz], (NZ+1,))
    bm.origin = [SReal(x) for x in o]
    bm.rotation = 30.0
    cen = bm.centroids
    prove(ctx, cen.shape[0] == bm.n_cells == NU*NV*NZ, "count")
    for i in range(NU):
        for j in range(NV):
            for k in range(NZ):
                idx = k + i*NZ + j*NU*NZ
                u = (du[i]+du[i+1])/2 - du[0]; v = (dv[j]+dv[j+1])/2 - dv[0]; w = (dz[k]+dz[k+1])/2 - dz[0]
                exp = (o[0] + c*u - s*v, o[1] + s*u + c*v, o[2] + w)
                for a in range(3):
                    prove(ctx, _lift(cen._d[idx*3+a]) == exp[a], f"centroid ({i},{j},{k}) axis {a}")
    return "ok"

t = time.time()
with warnings.catch_warnings():
    warnings.simplefilter("ignore")
    paths, q, res = explore(run, setup)
print("paths", paths, "queries", q, "time", round(time.time()-t, 2))
from collections import Counter
print(Counter(str(r)[:200] for r in res).most_common(5))
