from typing import Optional, Union, Dict, List
from geoh5py.shared.utils import stringify, str2none, dict_mapper, str2uuid, as_str_if_uuid
from geoh5py.ui_json.utils import str2inf, requires_value
from geoh5py.io.h5_reader import H5Reader

def numify_scalar(v):
    return dict_mapper(v, [str2none, str2inf, str2uuid])

def rt_scalar(v: Union[None, bool, int, float, str]) -> bool:
    """
    pre: not isinstance(v, str) or len(v) <= 3
    pre: not (isinstance(v, float) and v != v)
    post: _
    """
    s = stringify({"k": v})["k"]
    back = numify_scalar(s)
    return back == v and type(back) is type(v)

def child_type_map(kind: int) -> bool:
    """
    pre: 0 <= kind < 3
    post: _
    """
    name = ["Data", "Groups", "Objects"][kind]
    low = name.replace("s", "").lower()
    return H5Reader.format_type_string(low) == name

def req_value(opt: bool, en: bool, has_opt: bool, has_dep: bool, dep_opt: bool, dep_en: bool, dep_val: bool, dtype_enabled: bool, has_group: bool, gopt: bool, gen: bool) -> bool:
    """
    post: True
    """
    form = {"label": "a", "value": 1}
    if has_opt:
        form["optional"] = opt
        form["enabled"] = en
    dep = {"label": "d", "value": dep_val}
    if dep_opt:
        dep["optional"] = True
        dep["enabled"] = dep_en
    if has_dep:
        form["dependency"] = "d"
        form["dependencyType"] = "enabled" if dtype_enabled else "disabled"
    g = {"label": "g", "value": 1}
    if has_group:
        form["group"] = "G"
        g["group"] = "G"
        if gopt:
            g["groupOptional"] = True
            g["enabled"] = gen
    ui = {"p": form, "d": dep, "g": g}
    got = requires_value(ui, "p")
    # reference
    def dep_req():
        key_val = (dep_en if dep_opt else dep_val)
        r = key_val if dtype_enabled else (not key_val)
        if has_opt and r:
            r = en
        return r
    if has_group and gopt and not gen:
        exp = False
    elif has_dep:
        exp = dep_req()
    elif has_opt:
        exp = en
    else:
        exp = True
    assert bool(got) == bool(exp), (got, exp)
    return True
