import numpy as np, warnings
warnings.simplefilter("ignore")
from geoh5py.objects.drillhole import compute_deviation
surveys = np.array([[0., 10., -80.], [0., 10., -80.], [5., 20., -70.], [5., 30., -60.], [9., 30., -60.]])
bad = 0
for trial in range(200):
    junk = [np.full(4, np.nan) for _ in range(50)]
    del junk
    d = compute_deviation(surveys)
    if not np.all(np.isfinite(d)): bad += 1
print("runs with non-finite deviation:", bad, "of 200")
print(compute_deviation(surveys))
