import time, contextlib, importlib, warnings, sys
import z3
import numpy as real_np
import symx, fakeh5
from symx import SInt, SReal, SBool, Ctx, explore, prove, ndarray, Violation, _lift
import geoh5py, geoh5py.shared.merging
import geoh5py.workspace.workspace as W, geoh5py.shared.utils as U, geoh5py.io.h5_reader as R
for m in (W, U, R): m.h5py = fakeh5.FakeModule
from geoh5py.workspace import Workspace
from geoh5py.objects import Points

@contextlib.contextmanager
def shim():
    saved = {}
    for m, mod in list(sys.modules.items()):
        if m.startswith("geoh5py") and getattr(mod, "np", None) is real_np:
            saved[m] = mod.np; mod.np = symx
    try: yield
    finally:
        for m, v in saved.items(): sys.modules[m].np = v

ws = Workspace()
pts = Points.create(ws, vertices=real_np.zeros((3, 3)))
d = pts.add_data({"f": {"values": real_np.zeros(3)}})
print(type(ws.geoh5).__name__, list(ws.geoh5), d.on_file)
base = ws.geoh5[list(ws.geoh5)[0]]
print("nodes:", list(base["Data"]), list(base["Objects"]))
print("stored:", base["Data"]["{%s}" % d.uid]["Data"].data)
d.values = real_np.array([1.0, real_np.nan, 3.0])
print("stored after set:", base["Data"]["{%s}" % d.uid]["Data"].data)
d._values = None
print("read back:", d.values)
# symbolic
symx.Ctx.cur = symx.Ctx()
x = [z3.Real(f"x{i}") for i in range(2)]
with shim():
    d.values = ndarray([SReal(x[0]), float("nan"), SReal(x[1])], (3,))
    print("stored sym:", base["Data"]["{%s}" % d.uid]["Data"].data)
    d._values = None
    print("read back sym:", d.values)
