from typing import Optional, Union, Dict, List
import math
import geoh5py.shared.utils as U
from geoh5py.shared.utils import stringify, str2none, dict_mapper, str2uuid, as_str_if_uuid
from geoh5py.ui_json.utils import str2inf

class _NP:
    nan = U.np.nan
    inf = U.np.inf
    @staticmethod
    def isfinite(x):
        return not (x != x or x == float("inf") or x == float("-inf"))
U.np = _NP

def numify_scalar(v):
    return dict_mapper(v, [str2none, str2inf, str2uuid])

def rt_scalar(v: Union[None, bool, int, float, str]) -> bool:
    """
    pre: not isinstance(v, str) or len(v) <= 3
    pre: not (isinstance(v, float) and v != v)
    post: _
    """
    s = stringify({"k": v})["k"]
    back = numify_scalar(s)
    return back == v and type(back) is type(v)

def rt_scalar_excl(v: Union[None, bool, int, float, str]) -> bool:
    """
    pre: not isinstance(v, str) or (len(v) <= 4 and v not in ("", "inf", "-inf"))
    pre: not (isinstance(v, float) and v != v)
    post: _
    """
    s = stringify({"k": v})["k"]
    back = numify_scalar(s)
    return back == v and type(back) is type(v)

def rt_scalar_excl2(v: Union[None, bool, int, float, str]) -> bool:
    """
    pre: not isinstance(v, str) or (len(v) <= 4 and v not in ("", "inf", "-inf"))
    pre: not (isinstance(v, float) and v != v)
    pre: not (isinstance(v, int) and not (-10**30 < v < 10**30))
    post: _
    """
    s = stringify({"k": v})["k"]
    back = numify_scalar(s)
    return back == v and type(back) is type(v)

def rt_str(v: str) -> bool:
    """
    pre: len(v) <= 3 and v not in ("", "inf")
    post: _
    """
    s = stringify({"k": v})["k"]
    back = numify_scalar(s)
    return back == v and type(back) is type(v)

def rt_int(v: int) -> bool:
    """
    pre: -10**30 < v < 10**30
    post: _
    """
    s = stringify({"k": v})["k"]
    back = numify_scalar(s)
    return back == v and type(back) is type(v)

def rt_float(v: float) -> bool:
    """
    pre: v == v
    post: _
    """
    s = stringify({"k": v})["k"]
    back = numify_scalar(s)
    return back == v and type(back) is type(v)

def rt_none_bool(v: Optional[bool]) -> bool:
    """
    post: _
    """
    s = stringify({"k": v})["k"]
    back = numify_scalar(s)
    return back == v and type(back) is type(v)

def rt_int_small(v: int) -> bool:
    """
    pre: -10**4 < v < 10**4
    post: _
    """
    s = stringify({"k": v})["k"]
    back = numify_scalar(s)
    return back == v and type(back) is type(v)
