from typing import Optional, Union, List
from copy import deepcopy
import geoh5py.shared.utils as U
class _NP:
    nan = U.np.nan; inf = U.np.inf
    @staticmethod
    def isfinite(x): return not (x != x or x == float("inf") or x == float("-inf"))
U.np = _NP
from geoh5py.ui_json import InputFile
import geoh5py.ui_json.utils as UU
class _P:
    def __init__(self, v): self.v = str(v)
    @property
    def suffix(self):
        name = self.v.rpartition("/")[2]
        i = name.rfind(".")
        if 0 < i < len(name) - 1: return name[i:]
        return ""
UU.Path = _P
from geoh5py.ui_json.utils import flatten

def form_rt(vi: int, has_opt: bool, optional: bool, enabled: bool) -> bool:
    """
    pre: 0 <= vi < 4
    pre: vi != 0 or (has_opt and optional and not enabled)
    post: _
    """
    value = [None, "abc", "a b", "x.y"][vi]
    form = {"label": "lbl", "value": value if value is not None else "abc"}
    if has_opt:
        form["optional"] = optional; form["enabled"] = enabled
    ui = {"title": "t", "p": form}
    a = InputFile(ui_json=deepcopy(ui), validate=False)
    da = a.data
    if value is None:
        pass
    out = InputFile.stringify(InputFile.demote(a.ui_json))
    b = InputFile(ui_json=deepcopy(out), validate=False)
    db = b.data
    ea = a.ui_json["p"].get("enabled", True); eb = b.ui_json["p"].get("enabled", True)
    return da == db and ea == eb
