import numpy as np
from geoh5py.shared.concatenation import concatenator as C
src = '''
def delete_index_data(self, label, index):
    start, size = self.index[label][index][0], self.index[label][index][1]
    self.data[label] = np.delete(self.data[label], np.arange(start, start + size), axis=0)
    self.index[label]["Start index"][self.index[label]["Start index"] >= start] -= size
    self.index[label] = np.delete(self.index[label], index, axis=0)
'''
ns = C.__dict__
exec(src, ns)
C.Concatenator.delete_index_data = ns["delete_index_data"]
exec(open("p9.py").read())
