import numpy as np, warnings
warnings.simplefilter("ignore")
from geoh5py.workspace import Workspace
from geoh5py.objects import Grid2D, Drillhole
from geoh5py.objects.drillhole import compute_deviation
ws = Workspace()
# F-C13-1: rotated grid, thin box hitting columns 0 and 2 only
g = Grid2D.create(ws, origin=[0,0,0], u_cell_size=1.0, v_cell_size=1.0, u_count=3, v_count=3, rotation=45.0)
g.add_data({"d": {"values": np.arange(9.)}})
c = g.centroids
print(np.round(c[:, :2], 3).tolist())
# choose a box containing centroids (i=0,j=?) and (i=2,j=?) but none with i=1
# centroid(i,j) = R45 (i+.5, j+.5): x = (i-j)*0.7071, y = (i+j+1)*0.7071
# pick (0,1): x=-0.707,y=1.414 ; (2,1): x=0.707, y=2.83 ; (1,*): x=(1-j)*.707 -> j=0:.707,y=1.41; j=1: 0,2.12 ; j=2:-.707,2.83
# box x in [-0.8,-0.6], y in [1.3, 2.9] -> contains (0,1) [x=-.707,y=1.414] and (1,2) [x=-.707,y=2.83] -> columns 0,1 contiguous. try points (0,0): x=0,y=.707 ; (2,2): x=0,y=3.53 ; (1,1): x=0,y=2.12 -> same column line.
# use box x in [-0.1,0.1], y in [0.6,0.8] U ... need single box: contains (0,0) only. Non-contiguity needs e.g. (0,1) and (2,?) same x: (2,3) out of grid. Use 4x4? general search:
best=None
for nu,nv,rot in [(4,4,30.),(4,3,20.),(5,4,60.),(4,4,45.)]:
    g2 = Grid2D.create(ws, origin=[0,0,0], u_cell_size=1.0, v_cell_size=1.0, u_count=nu, v_count=nv, rotation=rot)
    cc = g2.centroids[:, :2]
    n = cc.shape[0]
    for a in range(n):
        for b in range(a+1, n):
            lo = np.minimum(cc[a], cc[b]) - 1e-9; hi = np.maximum(cc[a], cc[b]) + 1e-9
            inside = np.all((cc >= lo) & (cc <= hi), axis=1).reshape(nv, nu)
            u_ind = inside.any(axis=0)
            idx = np.where(u_ind)[0]
            if len(idx) and (idx[-1]-idx[0]+1) != u_ind.sum():
                best=(nu,nv,rot,lo,hi,u_ind); break
        if best: break
    if best: break
print("non-contiguous example:", best)
if best:
    nu,nv,rot,lo,hi,u_ind = best
    g2 = Grid2D.create(ws, origin=[0,0,0], u_cell_size=1.0, v_cell_size=1.0, u_count=nu, v_count=nv, rotation=rot)
    g2.add_data({"d": {"values": np.arange(float(nu*nv))}})
    try:
        cp = g2.copy_from_extent(np.vstack([lo, hi]))
        print("copy u_count", cp.u_count, "v_count", cp.v_count, "values", cp.children[0].values)
    except Exception as e:
        print("copy raised", type(e).__name__, e)
