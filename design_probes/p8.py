import numpy as np, warnings
warnings.simplefilter("ignore")
from geoh5py.workspace import Workspace
from geoh5py.groups import DrillholeGroup
from geoh5py.objects import Drillhole
ws = Workspace()
g = DrillholeGroup.create(ws, name="DH")
print(type(g).__mro__[:3])
holes = []
for k in range(2):
    h = Drillhole.create(ws, parent=g, name=f"h{k}", collar=[0.,0.,0.], surveys=np.c_[[0.,10.],[0.,0.],[-90.,-90.]])
    h.add_data({"lbl": {"depth": np.r_[1.,2.,3.][:k+2], "values": np.r_[5.,6.,7.][:k+2]}})
    holes.append(h)
print({k:(v.dtype, v.shape) for k,v in g.index.items()})
print(g.index["lbl"], g.data["lbl"])
print(g.index["Surveys"].dtype, g.data["Surveys"].dtype)
d = holes[0].get_data("lbl")[0]
print(type(d).__mro__[:4], d.values, d.n_values, d.on_file, g.on_file)
print(g.concatenated_attributes["Attributes"][:2])
