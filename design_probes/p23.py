import time, contextlib, warnings, sys
import z3
import numpy as real_np
import symx
from symx import SInt, SReal, SBool, Ctx, explore, prove, ndarray, Violation, _lift
import geoh5py, geoh5py.shared.merging
from geoh5py.workspace import Workspace
from geoh5py.objects import Curve
from geoh5py.shared.merging import CurveMerger

@contextlib.contextmanager
def shim():
    saved = {}
    for m, mod in list(sys.modules.items()):
        if m.startswith("geoh5py") and not m.startswith("geoh5py.io.") and getattr(mod, "np", None) is real_np:
            saved[m] = mod.np; mod.np = symx
    try: yield
    finally:
        for m, v in saved.items(): sys.modules[m].np = v

SH = [(3, 1), (2, 1)]   # (n_vertices, n_cells) per input
def setup(ctx):
    ws = Workspace(); ws.save_entity = lambda *a, **k: None
    ins = []
    for (nv, nc) in SH:
        c = Curve.create(ws, vertices=real_np.zeros((nv, 3)), cells=real_np.zeros((nc, 2), dtype="int32"))
        c.on_file = False; ins.append(c)
    ctx.sh = shim(); ctx.sh.__enter__()
    sym = []
    for e, (c, (nv, nc)) in enumerate(zip(ins, SH)):
        V = [[z3.Real(f"v{e}_{i}{a}") for a in "xyz"] for i in range(nv)]
        C = [[z3.Int(f"c{e}_{i}{a}") for a in "ab"] for i in range(nc)]
        for row in C:
            for x in row: ctx.solver.add(x >= 0, x < nv)
        c._vertices = None; c._cells = None
        c.vertices = ndarray([SReal(x) for r in V for x in r], (nv, 3))
        c.cells = ndarray([SInt(x) for r in C for x in r], (nc, 2), symx.int32)
        sym.append((V, C))
    return ws, ins, sym

def run(ctx, inp):
    ws, ins, sym = inp
    out = CurveMerger.merge_objects(ws, ins, add_data=False)
    verts = out.vertices; cells = out.cells
    tot = sum(nv for nv, _ in SH)
    prove(ctx, verts.shape[0] == tot, "vertex count")
    off = 0; row = 0
    allV = [v for (V, C) in sym for v in V]
    def sel(idx, a):
        acc = allV[-1][a]
        for q in range(len(allV)-2, -1, -1): acc = z3.If(idx == q, allV[q][a], acc)
        return acc
    for e, ((V, C), (nv, nc)) in enumerate(zip(sym, SH)):
        for r in range(nc):
            for col in range(2):
                mi = _lift(cells._d[(row+r)*2+col])
                for a in range(3):
                    exp = V[-1][a]
                    for q in range(nv-2, -1, -1): exp = z3.If(C[r][col] == q, V[q][a], exp)
                    prove(ctx, sel(mi, a) == exp, f"input {e} cell {r} col {col} connects same coordinates")
        off += nv; row += nc
    return "ok"

t = time.time()
with warnings.catch_warnings():
    warnings.simplefilter("ignore")
    paths, qn, res = explore(run, setup)
print("paths", paths, "queries", qn, "time", round(time.time()-t, 2))
from collections import Counter
print(Counter(str(r)[:260] for r in res).most_common(4))
