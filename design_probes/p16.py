from typing import Dict, Optional, Union, List
from geoh5py.shared import weakref_utils
from geoh5py.ui_json.validation import InputValidation
from geoh5py.shared.exceptions import BaseValidationError

class Obj: pass
_ALIVE = Obj()
class FakeRef:
    def __init__(self, alive): self.alive = alive
    def __call__(self): return _ALIVE if self.alive else None

def insert_once_spec(reg: Dict[int, bool], key: int) -> bool:
    """
    pre: len(reg) <= 3
    post: _
    """
    d = {k: FakeRef(v) for k, v in reg.items()}
    before = dict(d)
    new = Obj()
    try:
        weakref_utils.insert_once(d, key, new)
        raised = False
    except RuntimeError:
        raised = True
    should = key in reg and reg[key]
    if raised != should:
        return False
    if raised:
        return d == before
    if d[key]() is not new:
        return False
    return all(d[k] is before[k] for k in before if k != key) and set(d) == set(before) | {key}

def get_clean_ref_spec(reg: Dict[int, bool], key: int) -> bool:
    """
    pre: len(reg) <= 3
    post: _
    """
    d = {k: FakeRef(v) for k, v in reg.items()}
    before = dict(d)
    got = weakref_utils.get_clean_ref(d, key)
    if key in reg and reg[key]:
        return got is _ALIVE and d == before
    if got is not None:
        return False
    exp = {k: v for k, v in before.items() if not (k == key)}
    return d == exp

Val = Union[None, bool, int, str]
def validate_simple(value: Val, form_value: Union[bool, int, str], optional: bool, enabled: bool, has_optional: bool) -> bool:
    """
    pre: not isinstance(value, str) or len(value) <= 2
    pre: not isinstance(form_value, str) or len(form_value) <= 2
    post: _
    """
    form = {"label": "x", "value": form_value}
    if has_optional:
        form["optional"] = optional; form["enabled"] = enabled
    v = InputValidation(ui_json={"p": form})
    try:
        v.validate("p", value)
        ok = True
    except BaseValidationError:
        ok = False
    required = True if not has_optional else enabled
    exp = (value is None and not required) or isinstance(value, type(form_value))
    return ok == exp
