from typing import Dict, List, Tuple
from geoh5py.shared import weakref_utils
class Obj: pass
_ALIVE = Obj()
class FakeRef:
    def __init__(self, alive): self.alive = alive
    def __call__(self): return _ALIVE if self.alive else None

def insert_once_spec(keys: List[int], alive: List[bool], key: int) -> bool:
    """
    pre: len(keys) == len(alive) and len(keys) <= 3
    pre: all(0 <= k < 4 for k in keys) and 0 <= key < 4
    pre: len(set(keys)) == len(keys)
    post: _
    """
    d = {k: FakeRef(v) for k, v in zip(keys, alive)}
    before = dict(d)
    new = Obj()
    try:
        weakref_utils.insert_once(d, key, new)
        raised = False
    except RuntimeError:
        raised = True
    should = any(k == key and a for k, a in zip(keys, alive))
    if raised != should:
        return False
    if raised:
        return d == before
    if d[key]() is not new:
        return False
    return all(d[k] is before[k] for k in before if k != key) and len(d) == len(before) + (0 if key in before else 1)
