import numpy as np, warnings, h5py
warnings.simplefilter("ignore")
from geoh5py.workspace import Workspace
from geoh5py.objects import Points
from geoh5py.ui_json.validation import InputValidation
from geoh5py.shared.exceptions import BaseValidationError
# (a) one_of statefulness
v = InputValidation(validations={"a": {"one_of": "g", "types": [str, type(None)]}, "b": {"one_of": "g", "types": [str, type(None)]}})
for k in range(2):
    try:
        v.validate_data({"a": None, "b": None}); print("call", k, "accepted")
    except BaseValidationError as e: print("call", k, "rejected", type(e).__name__)
# (b) units
ws = Workspace()
p = Points.create(ws, vertices=np.zeros((2,3)))
d = p.add_data({"f": {"values": np.zeros(2)}})
d.entity_type.units = "nT"
d.entity_type.name = "renamed"
h = ws.geoh5[list(ws.geoh5)[0]]["Types"]["Data types"]["{%s}" % d.entity_type.uid]
print("type attrs on file:", dict(h.attrs))
# (c) header
ws.distance_unit = "feet"; ws.version = 2.0
print("header:", dict(ws.geoh5[list(ws.geoh5)[0]].attrs))
