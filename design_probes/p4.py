import sys, time, contextlib, importlib, warnings
import z3
import numpy as real_np
import symx
from symx import SInt, SReal, SBool, Ctx, explore, prove, ndarray, Violation
from geoh5py.workspace import Workspace
from geoh5py.objects import Curve

MODS = ["geoh5py.objects.points", "geoh5py.objects.cell_object", "geoh5py.objects.curve",
        "geoh5py.objects.object_base", "geoh5py.data.numeric_data", "geoh5py.data.float_data"]

@contextlib.contextmanager
def shim():
    saved = {}
    for m in MODS:
        mod = importlib.import_module(m)
        saved[m] = mod.np
        mod.np = symx
    try:
        yield
    finally:
        for m in MODS:
            importlib.import_module(m).np = saved[m]

NV, NC, K = 4, 3, 2

def setup(ctx):
    ws = Workspace()
    curve = Curve.create(ws, vertices=real_np.zeros((NV, 3)), cells=real_np.zeros((NC, 2), dtype="int32"))
    data = curve.add_data({"d": {"values": real_np.zeros(NV), "association": "VERTEX"}})
    cdata = curve.add_data({"c": {"values": real_np.zeros(NC), "association": "CELL"}})
    for e in (curve, data, cdata):
        e.on_file = False
    V = [[z3.Real(f"v{i}{a}") for a in "xyz"] for i in range(NV)]
    C = [[z3.Int(f"c{i}{a}") for a in "ab"] for i in range(NC)]
    D = [z3.Real(f"d{i}") for i in range(NV)]
    CD = [z3.Real(f"cd{i}") for i in range(NC)]
    I = [z3.Int(f"i{k}") for k in range(K)]
    for row in C:
        for c in row:
            ctx.solver.add(c >= 0, c < NV)
    for i in I:
        ctx.solver.add(i >= 0, i < NV)
    sh = shim(); sh.__enter__(); ctx.sh = sh
    curve._vertices = None; curve._cells = None
    curve.vertices = ndarray([SReal(x) for r in V for x in r], (NV, 3))
    curve.cells = ndarray([SInt(x) for r in C for x in r], (NC, 2), symx.int32)
    data._values = ndarray([SReal(x) for x in D], (NV,))
    cdata._values = ndarray([SReal(x) for x in CD], (NC,))
    return ws, curve, data, cdata, V, C, D, CD, I

def run(ctx, inp):
    ws, curve, data, cdata, V, C, D, CD, I = inp
    try:
        curve.remove_vertices([SInt(i) for i in I])
    except (ValueError, TypeError, IndexError) as e:
        # operation failed: record
        return ("raised", type(e).__name__, str(e)[:60])
    verts = curve.vertices; cells = curve.cells; vals = data.values; cvals = cdata.values
    nv2 = verts.shape[0]
    prove(ctx, vals.shape[0] == nv2, "data length == n_vertices")
    prove(ctx, cvals.shape[0] == cells.shape[0], "cell data length == n_cells")
    # each surviving vertex keeps coordinates & value, in order
    removed = lambda j: z3.Or(*[i == j for i in I])
    # position of old vertex j among survivors = j - #removed below j  (distinct removed)
    for j in range(NV):
        below = z3.Sum([z3.If(z3.Or(*[i == t for i in I]), 1, 0) for t in range(j)]) if j else z3.IntVal(0)
        for p in range(nv2):
            cond = z3.And(z3.Not(removed(j)), below == j - p)
            for a in range(3):
                prove(ctx, z3.Implies(cond, symx._lift(verts._d[p*3+a]) == V[j][a]), f"vertex {j}->{p} coord")
            prove(ctx, z3.Implies(cond, symx._lift(vals._d[p]) == D[j]), f"value {j}->{p}")
    # cells reference existing vertices and connect same coordinates
    for r in range(cells.shape[0]):
        for a in range(2):
            cidx = symx._lift(cells._d[r*2+a])
            prove(ctx, z3.And(cidx >= 0, cidx < nv2), "cell index in range")
    return ("ok", nv2, cells.shape[0])

t = time.time()
with warnings.catch_warnings():
    warnings.simplefilter("ignore")
    paths, q, res = explore(run, setup)
print("paths", paths, "queries", q, "time", round(time.time()-t, 2))
from collections import Counter
print(Counter(str(r)[:120] for r in res).most_common(12))
