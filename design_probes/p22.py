import sys, contextlib, warnings, builtins
import z3
import numpy as real_np
import symx, fakeh5
from symx import SInt, SReal, SBool, Ctx, ndarray, _lift
import geoh5py, geoh5py.shared.merging
import geoh5py.workspace.workspace as W, geoh5py.shared.utils as U, geoh5py.io.h5_reader as R
for m in (W, U, R): m.h5py = fakeh5.FakeModule
from geoh5py.workspace import Workspace
from geoh5py.objects import Grid2D, Octree
import geoh5py.objects.grid2d as G2, geoh5py.objects.octree as OC

class _FloatMeta(type):
    def __instancecheck__(cls, x): return builtins.isinstance(x, (builtins.float, SReal))
class SymFloat(metaclass=_FloatMeta):
    def __new__(cls, x=0.0):
        if builtins.isinstance(x, (SReal, SInt)): return SReal(symx._toreal(x))
        return builtins.float(x)
class _IntMeta(type):
    def __instancecheck__(cls, x): return builtins.isinstance(x, (builtins.int, SInt))
class SymInt(metaclass=_IntMeta):
    def __new__(cls, x=0):
        if builtins.isinstance(x, SInt): return x
        return builtins.int(x)

@contextlib.contextmanager
def shim():
    saved = {}
    for m, mod in list(sys.modules.items()):
        if m.startswith("geoh5py") and getattr(mod, "np", None) is real_np:
            saved[m] = mod.np; mod.np = symx
    G2.float = SymFloat; G2.int = SymInt
    try: yield
    finally:
        for m, v in saved.items(): sys.modules[m].np = v
        del G2.float, G2.int

calls = []
ws = Workspace()
g = Grid2D.create(ws, origin=[0, 0, 0], u_cell_size=1.0, v_cell_size=1.0, u_count=2, v_count=2)
o = Octree.create(ws, origin=[0, 0, 0], u_count=2, v_count=2, w_count=2, u_cell_size=1.0, v_cell_size=1.0, w_cell_size=1.0)
base = ws.geoh5[list(ws.geoh5)[0]]
node = base["Objects"]["{%s}" % g.uid]; onode = base["Objects"]["{%s}" % o.uid]
print("stored rotation/origin before:", node.attrs["Rotation"], node.attrs["Origin"])
real_update = ws.update_attribute
def rec(entity, attribute, channel=None, **kw):
    calls.append((type(entity).__name__, attribute, getattr(entity, "rotation", None), getattr(entity, "origin", None)))
    return real_update(entity, attribute, channel, **kw)
ws.update_attribute = rec
symx.Ctx.cur = symx.Ctx()
r = z3.Real("r"); ox, oy, oz = z3.Reals("ox oy oz")
with warnings.catch_warnings():
    warnings.simplefilter("ignore")
    with shim():
        g.rotation = SReal(r)
        print("in-memory rotation:", g.rotation, "| calls:", [(c[0], c[1], c[2]) for c in calls])
        print("stored rotation after:", node.attrs["Rotation"])
        calls.clear()
        o.origin = [SReal(ox), SReal(oy), SReal(oz)]
        print("octree in-memory origin:", o.origin.tolist(), "| at persist time:", [c[3].tolist() if hasattr(c[3], "tolist") else c[3] for c in calls])
        print("octree stored origin:", onode.attrs["Origin"] if not hasattr(onode.attrs["Origin"], "tolist") else onode.attrs["Origin"].tolist())
