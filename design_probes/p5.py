from typing import Optional, Union, List
from geoh5py.ui_json.enforcers import EnforcerPool, TypeEnforcer, ValueEnforcer
from geoh5py.ui_json.parameters import Parameter, StringParameter, ValueRestrictedParameter
from geoh5py.shared.exceptions import BaseValidationError
from geoh5py.shared.utils import SetDict

Val = Union[None, bool, int, str]

def verdict(pool, v):
    try:
        pool.enforce(v)
        return True
    except BaseValidationError:
        return False

def pool_stateless(v1: Val, v2: Val) -> bool:
    """
    pre: not isinstance(v1, str) or len(v1) <= 2
    pre: not isinstance(v2, str) or len(v2) <= 2
    post: _
    """
    mk = lambda: EnforcerPool("p", [TypeEnforcer({str}), ValueEnforcer({"a", "b", None})])
    used = mk()
    verdict(used, v1)
    return verdict(used, v2) == verdict(mk(), v2)

def param_rejected_unchanged(v0: Val, v1: Val) -> bool:
    """
    pre: not isinstance(v0, str) or len(v0) <= 2
    pre: not isinstance(v1, str) or len(v1) <= 2
    post: _
    """
    p = StringParameter("s")
    try:
        p.value = v0
    except BaseValidationError:
        return True
    before = p.value
    try:
        p.value = v1
    except BaseValidationError:
        return p.value is before or p.value == before
    return True
