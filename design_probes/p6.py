import z3, time
# C17-style: rotation with symbolic c,s; identity check
c,s,ox,oy,oz = z3.Reals("c s ox oy oz")
du = [z3.Real(f"du{i}") for i in range(4)]
dv = [z3.Real(f"dv{i}") for i in range(4)]
# code: centers = cumsum(cells) - cells/2 ; expected (d[i]+d[i+1])/2
cells_u = [du[i+1]-du[i] for i in range(3)]
cum = []
acc = 0
for x in cells_u:
    acc = acc + x; cum.append(acc)
cu = [cum[i] - cells_u[i]/2 for i in range(3)]
t=time.time()
sol = z3.Solver()
bad = z3.Or(*[ (c*cu[i] - s*(dv[1]+dv[0])/2 + ox) != (ox + c*((du[i]+du[i+1])/2 - du[0]) - s*((dv[0]+dv[1])/2)) for i in range(3)])
sol.add(bad)
print(sol.check(), time.time()-t)   # expect sat because du[0] offset!

# C18-style with UF
dx = z3.Function("dx", z3.RealSort(), z3.RealSort(), z3.RealSort())
d0,d1,d2,a0,a1,a2,p0,p1,p2,q = z3.Reals("d0 d1 d2 a0 a1 a2 p0 p1 p2 q")
sol = z3.Solver()
sol.add(0 <= d0, d0 <= d1, d1 <= d2)
# dev_i = (dir_i + dir_{i+1})/2 computed as dl_in + len*((dl_out-dl_in)/len)/2
def dev(ain,pin,aout,pout,ln):
    return dx(ain,pin) + ln*((dx(aout,pout)-dx(ain,pin))/ln)/2
l1 = d1-d0; l2 = d2-d1
sol.add(l1 != 0, l2 != 0)
loc1 = 0 + d0*dx(a0,p0)  # first leg from 0 to d0 with duplicated first survey: dev = dx(a0,p0) when len !=0...
pos = lambda q: loc1 + (q-d0)*dev(a0,p0,a1,p1,l1)
sol.add(d0 < q, q <= d1)
sol.add(pos(q) != loc1 + (q-d0)*(dx(a0,p0)+dx(a1,p1))/2)
t=time.time(); print(sol.check(), time.time()-t)
