import numpy as np, warnings
warnings.simplefilter("ignore")
from geoh5py.workspace import Workspace
from geoh5py.objects import Octree, BlockModel, Curve, Points
from geoh5py.shared.merging import CurveMerger
ws = Workspace()
try:
    o = Octree.create(ws, u_count=2, v_count=2, w_count=2, u_cell_size=1.0, v_cell_size=1.0, w_cell_size=1.0)
    print("octree centroids", o.centroids.shape, o.n_cells)
except Exception as e: print("octree no origin:", type(e).__name__, e)
try:
    b = BlockModel.create(ws, u_cell_delimiters=np.r_[0,1,2.], v_cell_delimiters=np.r_[0,1.], z_cell_delimiters=np.r_[0,1.])
    print("bm centroids", b.centroids.shape, b.n_cells)
except Exception as e: print("blockmodel no origin:", type(e).__name__, e)
# C16
c1 = Curve.create(ws, vertices=np.array([[0,0,0],[1,0,0],[2,0,0.]]), cells=np.array([[0,1]]))
c2 = Curve.create(ws, vertices=np.array([[10,0,0],[11,0,0.]]), cells=np.array([[0,1]]))
m = CurveMerger.merge_objects(ws, [c1, c2])
print("merged cells", m.cells.tolist(), "verts", m.vertices[:,0].tolist())
# C08
p = Points.create(ws, vertices=np.zeros((2,3)))
d = p.add_data({"i": {"values": np.array([2**31, 5], dtype=np.int64)}})
print("int data", d.values, type(d).__name__)
try:
    d2 = p.add_data({"j": {"values": np.array([np.inf, 5.0]), "type": "INTEGER"}})
    print("int data inf", d2.values)
except Exception as e: print("inf int:", type(e).__name__, e)
# C03 octree origin
o2 = Octree.create(ws, origin=[0,0,0], u_count=2, v_count=2, w_count=2, u_cell_size=1.0, v_cell_size=1.0, w_cell_size=1.0)
o2.origin = [5., 6., 7.]
import h5py
print("octree origin on file:", ws.geoh5[list(ws.geoh5)[0]]["Objects"]["{"+str(o2.uid)+"}"].attrs["Origin"], "in memory", o2.origin)
