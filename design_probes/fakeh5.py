"""Probe: in-memory stand-in for the h5py objects geoh5py touches."""
import h5py as real_h5py
_STORE = {}

class Attrs(dict):
    def create(self, key, value, dtype=None): self[key] = value

class Node:
    def __init__(self): self.attrs = Attrs()

class Dataset(Node):
    def __init__(self, data): super().__init__(); self.data = data
    def __getitem__(self, k):
        if k == () or (isinstance(k, slice) and k == slice(None)):
            return self.data
        return self.data[k]
    def __len__(self): return len(self.data)
    def __iter__(self): return iter(self.data)
    @property
    def shape(self): return self.data.shape
    @property
    def dtype(self): return self.data.dtype

class Group(Node):
    def __init__(self): super().__init__(); self.links = {}
    def create_group(self, name):
        if name in self.links: raise ValueError("exists")
        g = Group(); self.links[name] = g; return g
    def create_dataset(self, name, data=None, dtype=None, shape=None, **kw):
        if name in self.links: raise ValueError("exists")
        d = Dataset(data); self.links[name] = d; return d
    def __getitem__(self, name):
        return self.links[name]          # KeyError like h5py
    def __setitem__(self, name, node):
        if name in self.links: raise ValueError("exists")
        self.links[name] = node          # hard link = same object
    def __delitem__(self, name): del self.links[name]
    def __contains__(self, name): return name in self.links
    def __iter__(self): return iter(sorted(self.links))
    def __len__(self): return len(self.links)
    def get(self, name, default=None): return self.links.get(name, default)
    def items(self): return [(k, self.links[k]) for k in sorted(self.links)]
    def keys(self): return sorted(self.links)

class File(Group):
    def __new__(cls, target, mode="r"):
        key = id(target) if not isinstance(target, str) else target
        if key in _STORE:
            f = _STORE[key]
        else:
            f = super().__new__(cls); Group.__init__(f); _STORE[key] = f; f._keep = target
        f.mode = "r+" if mode in ("a", "r+", "w") else "r"
        f.open_ = True
        return f
    def __init__(self, target, mode="r"): pass
    def close(self): self.open_ = False
    def __bool__(self): return self.open_
    def __enter__(self): return self
    def __exit__(self, *a): self.close()

class FakeModule:
    File = File; Group = Group; Dataset = Dataset
    special_dtype = staticmethod(real_h5py.special_dtype)
